"""scratch: run a property's correspondence check without the proof audit:  quickrun.py C03 quick [limit]"""
import os, sys, time, collections
HERE = os.path.dirname(os.path.abspath(__file__))
sys.path.insert(0, os.path.join(os.path.dirname(HERE), 'harness'))
import main as M
prop, tier = sys.argv[1], sys.argv[2]
limit = int(sys.argv[3]) if len(sys.argv) > 3 else None
mod = M.load_prop(prop)
t0 = time.time(); n = 0; fails = []; hist = collections.Counter()
import itertools
gen = mod.gen(tier, 0)
if limit: gen = itertools.islice(gen, limit)
for ch in M.chunks(gen, mod.CHUNK):
    for c, io, rep, v in M.eval_cases(mod, ch):
        n += 1
        for b in mod.branch(c, io, rep): hist[b] += 1
        if not v['ok']:
            fails.append((c, v))
print(n, 'cases', round(time.time() - t0, 1), 's', len(fails), 'fails')
for c, v in fails[:5]:
    print(c, v)
for k in sorted(hist): print(' ', k, hist[k])

"""Differential sanity test of the translator: every generated Lean definition (lean/Fca/Gen/Generated.lean, run with
`#eval`) against the real Python function on random tables and selections, out-of-range indexes included (IndexError /
AssertionError must agree as well).   python tools/gen_difftest.py      (expects `... 0 differences`)"""
import json, os, random, subprocess, sys
VERIF = os.path.dirname(os.path.dirname(os.path.abspath(__file__)))
os.chdir(VERIF)
os.makedirs('.scratch', exist_ok=True)
sys.path.insert(0, os.environ.get('FCAPY_REPO', '/repo'))
sys.dont_write_bytecode = True
from fcapy.context.bintable import BinTableLists
rng = random.Random(7)
cfg = json.load(open('harness/gen_targets.json'))
def lb(b): return 'true' if b else 'false'
def ltable(rows, w): return '(⟨[' + ', '.join('[' + ', '.join(lb(x) for x in r) + ']' for r in rows) + f'], {w}⟩ : Fca.Table)'
def lopt(x): return 'none' if x is None else '(some [' + ', '.join(map(str, x)) + '])'
def llist(x): return '[' + ', '.join(map(str, x)) + ']'
def canon(v):
    if isinstance(v, BinTableLists): return ['T', [[int(bool(x)) for x in r] for r in v.data], v.width]
    if isinstance(v, bool): return int(v)
    if isinstance(v, (list, tuple, range)): return [canon(x) for x in v]
    return v
cases, lines = [], ['import Fca.Gen.Generated', 'open Fca Fca.Gen.Lists',
  'def showT (t : Fca.Table) : String := s!"[\\"T\\", {t.data.map (fun r => r.map (fun b => if b then 1 else 0))}, {t.width}]"',
  'def sB (r : Except PyErr Bool) : String := match r with | .ok b => (if b then "1" else "0") | .error e => s!"\\"{e.name}\\""',
  'def sN (r : Except PyErr Nat) : String := match r with | .ok b => toString b | .error e => s!"\\"{e.name}\\""',
  'def sLB (r : Except PyErr (List Bool)) : String := match r with | .ok b => toString (b.map fun x => if x then 1 else 0) | .error e => s!"\\"{e.name}\\""',
  'def sLN (r : Except PyErr (List Nat)) : String := match r with | .ok b => toString b | .error e => s!"\\"{e.name}\\""',
  'def sT (r : Except PyErr Fca.Table) : String := match r with | .ok b => showT b | .error e => s!"\\"{e.name}\\""']
SHOW = {'Bool': 'sB', 'Nat': 'sN', 'List Bool': 'sLB', 'List Nat': 'sLN', 'Table': 'sT'}
def sel(n, allow_oob):
    r = rng.random()
    if r < 0.3: return None
    k = rng.randint(0, n + 1)
    hi = n + (1 if allow_oob and rng.random() < 0.3 else 0)
    return [rng.randint(0, max(hi - 1, 0)) if hi > 0 else 0 for _ in range(k)] if (hi > 0 or k == 0) else [0] * k
for _ in range(60):
    h, w = rng.randint(1, 4), rng.randint(1, 4)
    rows = [[rng.random() < 0.6 for _ in range(w)] for _ in range(h)]
    t = BinTableLists([list(r) for r in rows])
    for tg in cfg['targets']:
        name = tg['qualname'].split('.')[-1]
        const = tg.get('const', {})
        P = [p for p in tg['params'] if p != 'self']
        args, largs = [], []
        for p in P:
            ty = tg['params'][p]
            if ty == 'Option (List Nat)':
                v = sel(h if p in ('rows',) else w, True); args.append(v); largs.append(lopt(v))
            elif ty == 'List Nat':
                v = sel(h, True) or []; args.append(v); largs.append(llist(v))
            elif ty == 'Nat':
                v = rng.randint(0, (h if 'row' in p else w)); args.append(v); largs.append(str(v))
            elif ty == 'Table':
                h2, w2 = (h, w) if rng.random() < 0.7 else (rng.randint(1, 4), rng.randint(1, 4))
                o = [[rng.random() < 0.5 for _ in range(w2)] for _ in range(h2)]
                args.append(BinTableLists(o)); largs.append(ltable(o, w2))
        fn = getattr(t, name)
        try:
            if const: out = canon(fn(const['axis'], *args))
            else: out = canon(fn(*args))
        except Exception as e:
            out = type(e).__name__
        cases.append((tg['lean'], [canon(a) for a in args], out))
        lines.append(f'#eval IO.println ({SHOW[tg["returns"]]} ({tg["lean"]} {ltable(rows, w)} ' + ' '.join(largs) + '))')
DIFF = os.path.join(VERIF, '.scratch', f'Diff{os.getpid()}.lean')
open(DIFF, 'w').write('\n'.join(lines) + '\n')
p = subprocess.run(['lake', 'env', 'lean', DIFF], cwd='lean', stdout=subprocess.PIPE, stderr=subprocess.STDOUT, text=True)
os.unlink(DIFF)
outs = [l for l in p.stdout.split('\n') if l and not l.startswith('WARNING')]
assert len(outs) == len(cases), (len(outs), len(cases), p.stdout[-2000:])
bad = 0; errs = 0
for (name, args, want), got in zip(cases, outs):
    g = json.loads(got)
    if isinstance(want, str): errs += 1
    if g != want:
        bad += 1
        if bad < 10: print('DIFF', name, args, 'python:', want, 'lean:', g)
print(f'{len(cases)} cases, {errs} raising in Python, {bad} differences')

"""Differential sanity test of the translator: every generated Lean definition (lean/Fca/Gen/Generated*.lean, run with
`#eval`) against the real Python function on random inputs, out-of-range indexes and unknown names included (IndexError /
AssertionError / KeyError must agree as well).   python tools/gen_difftest.py      (expects `... 0 differences`)
Receivers: a `BinTableLists` for the record `Table`, a `FormalContext(backend='BinTableLists')` for `Ctx` (object / attribute
names with occasional duplicates: the name -> index dictionaries keep the LAST index)."""
import json, os, random, subprocess, sys
VERIF = os.path.dirname(os.path.dirname(os.path.abspath(__file__)))
os.chdir(VERIF)
os.makedirs('.scratch', exist_ok=True)
sys.path.insert(0, os.environ.get('FCAPY_REPO', '/repo'))
sys.path.insert(0, os.path.join(VERIF, 'harness'))
sys.dont_write_bytecode = True
import py2lean
from fcapy.context.bintable import BinTableLists
from fcapy.context.formal_context import FormalContext
from fcapy.mvcontext.pattern_structure import IntervalPS, SetPS, AttributePS
from fcapy.poset import POSet
rng = random.Random(7)
cfg = json.load(open('harness/gen_targets.json'))
def lb(b): return 'true' if b else 'false'
def ltable(rows, w): return '(⟨[' + ', '.join('[' + ', '.join(lb(x) for x in r) + ']' for r in rows) + f'], {w}⟩ : Fca.Table)'
def lstrs(x): return '[' + ', '.join(json.dumps(s) for s in x) + ']'
def llist(x): return lstrs(x) if x and isinstance(x[0], str) else '[' + ', '.join(map(str, x)) + ']'
def lopt(x): return 'none' if x is None else '(some ' + llist(x) + ')'
def canon(v):
    if isinstance(v, BinTableLists): return ['T', [[int(bool(x)) for x in r] for r in v.data], v.width]
    if isinstance(v, bool): return int(v)
    if isinstance(v, float): return int(v)
    if isinstance(v, (set, frozenset)): return ['S'] + sorted(v)
    if isinstance(v, (list, tuple, range)): return [canon(x) for x in v]
    return v
cases = []
lines = [f'import {py2lean.unit_module(cfg, u)}' for u in py2lean.units(cfg)] + ['open Fca Fca.Gen.Lists',
  'def showT (t : Fca.Table) : String := s!"[\\"T\\", {t.data.map (fun r => r.map (fun b => if b then 1 else 0))}, {t.width}]"',
  'def showS (xs : List String) : String := "[" ++ ", ".intercalate (xs.map fun s => "\\"" ++ s ++ "\\"") ++ "]"',
  'def sB (r : Except PyErr Bool) : String := match r with | .ok b => (if b then "1" else "0") | .error e => s!"\\"{e.name}\\""',
  'def sN (r : Except PyErr Nat) : String := match r with | .ok b => toString b | .error e => s!"\\"{e.name}\\""',
  'def sLB (r : Except PyErr (List Bool)) : String := match r with | .ok b => toString (b.map fun x => if x then 1 else 0) | .error e => s!"\\"{e.name}\\""',
  'def sLN (r : Except PyErr (List Nat)) : String := match r with | .ok b => toString b | .error e => s!"\\"{e.name}\\""',
  'def sLS (r : Except PyErr (List String)) : String := match r with | .ok b => showS b | .error e => s!"\\"{e.name}\\""',
  'def sLLB (r : Except PyErr (List (List Bool))) : String := match r with | .ok b => toString (b.map fun r => r.map fun x => if x then 1 else 0) | .error e => s!"\\"{e.name}\\""',
  'def sOP (r : Except PyErr (Option (Int × Int))) : String := match r with | .ok none => "null" | .ok (some (a, b)) => s!"[{a}, {b}]" | .error e => s!"\\"{e.name}\\""',
  'def sON (r : Except PyErr (Option Nat)) : String := match r with | .ok none => "null" | .ok (some a) => toString a | .error e => s!"\\"{e.name}\\""',
  'def sLI (r : Except PyErr (List Int)) : String := match r with | .ok b => toString b | .error e => s!"\\"{e.name}\\""',
  'def sT (r : Except PyErr Fca.Table) : String := match r with | .ok b => showT b | .error e => s!"\\"{e.name}\\""']
SHOW = {'Bool': 'sB', 'Nat': 'sN', 'List Bool': 'sLB', 'List Nat': 'sLN', 'List String': 'sLS', 'List (List Bool)': 'sLLB', 'Table': 'sT', 'Option (Num × Num)': 'sOP', 'Set Num': 'sLI', 'FSet Nat': 'sLN', 'Option Nat': 'sON'}
def sel(n, allow_oob):
    r = rng.random()
    if r < 0.3: return None
    k = rng.randint(0, n + 1)
    hi = n + (1 if allow_oob and rng.random() < 0.3 else 0)
    return [rng.randint(0, max(hi - 1, 0)) if hi > 0 else 0 for _ in range(k)] if (hi > 0 or k == 0) else [0] * k
def names(pool):
    """a list of names from the pool, now and then with an unknown one"""
    k = rng.randint(0, len(pool) + 1)
    xs = [rng.choice(pool) for _ in range(k)]
    if rng.random() < 0.15: xs.insert(rng.randint(0, len(xs)), 'zz')
    return xs
ROWISH = ('rows', 'row_slicer', 'row_idx', 'object_indexes', 'base_objects_i')       # selections of rows / objects
for _ in range(60):
    h, w = rng.randint(1, 4), rng.randint(1, 4)
    rows = [[rng.random() < 0.6 for _ in range(w)] for _ in range(h)]
    t = BinTableLists([list(r) for r in rows])
    onames = [rng.choice(['g0', 'g1', 'g2', 'g3', 'x']) if rng.random() < 0.25 else f'g{i}' for i in range(h)]
    anames = [rng.choice(['a', 'b', 'c', 'x']) if rng.random() < 0.25 else 'abcd'[j] for j in range(w)]
    K = FormalContext([list(r) for r in rows], object_names=onames, attribute_names=anames, backend='BinTableLists')
    lK = f'(⟨.lists, {ltable(rows, w)}, {lstrs(onames)}, {lstrs(anames)}⟩ : Fca.Ctx)'
    ivs = [tuple(sorted((rng.randint(-3, 5), rng.randint(-3, 5)))) for _ in range(h)]
    sets = [set(rng.sample(range(-2, 5), rng.randint(0, 3))) for _ in range(h)]
    flags = [rng.random() < 0.6 for _ in range(h)]
    RECV = {'Ctx': (K, lK), 'Table': (t, ltable(rows, w)),
            'IvPS': (IntervalPS(list(ivs)), '(⟨[' + ', '.join(f'({a}, {b})' for a, b in ivs) + ']⟩ : Fca.Gen.IvPS)'),
            'SetPS': (SetPS([set(x) for x in sets]), '(⟨[' + ', '.join('[' + ', '.join(map(str, sorted(x))) + ']' for x in sets) + ']⟩ : Fca.Gen.SetPS)'),
            'AttrPS': (AttributePS(list(flags)), '(⟨[' + ', '.join(lb(x) for x in flags) + ']⟩ : Fca.Gen.AttrPS)')}
    # a poset: distinct masks under inclusion, or distinct numbers under divisibility (both partial orders)
    if rng.random() < 0.5:
        els = rng.sample(range(0, 16), rng.randint(1, 6)); pleq = lambda a, b: a & b == a; lleq = 'fun a b => a &&& b == a'
    else:
        els = rng.sample(range(1, 13), rng.randint(1, 6)); pleq = lambda a, b: b % a == 0; lleq = 'fun a b => decide (a ∣ b)'
    RECV['POSet'] = (POSet(list(els), pleq, use_cache=False), f'(⟨{els}, {lleq}⟩ : Fca.Gen.PosetR Nat)')
    for tg in cfg['targets']:
        name = tg['qualname'].split('.')[-1]
        const = tg.get('const', {})
        recv, lrecv = RECV[tg['params']['self']]
        if tg['params']['self'] == 'POSet': h = len(els)
        extra = py2lean.units(cfg)[tg.get('unit', '')].get('extra_args')
        if extra: lrecv = 'id ' + lrecv           # the iteration order of sets: results are compared as sets
        P = [p for p in tg['params'] if p != 'self']
        args, largs = [], []
        for p in P:
            ty = tg['params'][p]
            n = h if p in ROWISH or tg['params']['self'] == 'POSet' else w
            if ty == 'Option (List Nat)':
                v = sel(n, True); args.append(v); largs.append(lopt(v))
            elif ty == 'List Nat':
                v = sel(n, True) or []
                if rng.random() < 0.25: v = list(range(n))        # the `len(..) == n_objects / n_attributes` shortcuts
                args.append(v); largs.append(llist(v))
            elif ty == 'Nat':
                v = rng.randint(0, n); args.append(v); largs.append(str(v))
            elif ty == 'Option (Num × Num)':
                v = None if rng.random() < 0.15 else tuple(sorted((rng.randint(-4, 6), rng.randint(-4, 6))))
                if v is not None and rng.random() < 0.2: v = (v[1], v[0])
                args.append(v); largs.append('none' if v is None else f'(some (({v[0]} : Int), ({v[1]} : Int)))')
            elif ty == 'Option (Set Num)':
                v = None if rng.random() < 0.15 else set(rng.sample(range(-2, 5), rng.randint(0, 5)))
                args.append(v); largs.append('none' if v is None else '(some [' + ', '.join(f'({x} : Int)' for x in sorted(v)) + '])')
            elif ty == 'Bool':
                v = rng.random() < 0.5; args.append(v); largs.append(lb(v))
            elif ty == 'List String':
                v = names(onames if p == 'objects' else anames); args.append(v); largs.append(lstrs(v))
            elif ty == 'Option (List String)':
                v = None if rng.random() < 0.3 else names(onames); args.append(v); largs.append('none' if v is None else f'(some {lstrs(v)})')
            elif ty == 'Table':
                h2, w2 = (h, w) if rng.random() < 0.7 else (rng.randint(1, 4), rng.randint(1, 4))
                o = [[rng.random() < 0.5 for _ in range(w2)] for _ in range(h2)]
                if rng.random() < 0.3: h2, w2, o = h, w, [list(r) for r in rows]          # an equal table (for `==`)
                args.append(BinTableLists(o)); largs.append(ltable(o, w2))
            else:
                raise SystemExit(f'gen_difftest: no generator for parameter type {ty!r}')
        try:
            if name == '__len__': out = len(recv)
            elif tg.get('property'): out = canon(getattr(recv, name))
            elif const: out = canon(getattr(recv, name)(const['axis'], *args))
            else: out = canon(getattr(recv, name)(*args))
        except Exception as e:
            out = type(e).__name__
        if tg['returns'] == 'FSet Nat' and isinstance(out, list) and out[:1] != ['S']: out = ['S'] + sorted(out)
        cases.append((tg['lean'], [canon(a) for a in args], out))
        lines.append(f'#eval IO.println ({SHOW[tg["returns"]]} ({tg["lean"]} {lrecv} ' + ' '.join(largs) + '))')
DIFF = os.path.join(VERIF, '.scratch', f'Diff{os.getpid()}.lean')
open(DIFF, 'w').write('\n'.join(lines) + '\n')
p = subprocess.run(['lake', 'env', 'lean', DIFF], cwd='lean', stdout=subprocess.PIPE, stderr=subprocess.STDOUT, text=True)
os.unlink(DIFF)
outs = [l for l in p.stdout.split('\n') if l and not l.startswith('WARNING')]
assert len(outs) == len(cases), (len(outs), len(cases), p.stdout[-2000:])
bad = 0; errs = 0; per = {}
for (name, args, want), got in zip(cases, outs):
    g = json.loads(got)
    if isinstance(want, list) and want[:1] == ['S'] and isinstance(g, list): g = ['S'] + sorted(set(g))      # a set: up to order / repetition
    if isinstance(want, str): errs += 1
    per[name] = per.get(name, 0) + 1
    if g != want:
        bad += 1
        if bad < 10: print('DIFF', name, args, 'python:', want, 'lean:', g)
print(f'{len(cases)} cases over {len(per)} generated definitions, {errs} raising in Python, {bad} differences')

#!/bin/bash
# Create a private working copy of /verif for a builder (outside /verif and /repo): tools/mkscratch.sh c09
# (the compiled .lake directory is copied too, so the first `lake build` there is a no-op)
set -e
name="$1"
dst="/tmp/build/$name"
mkdir -p /tmp/build
rsync -a --delete --exclude .git --exclude replays --exclude __pycache__ /verif/ "$dst/"
cd "$dst/lean" && lake build Fca fcadriver >/dev/null 2>&1 && echo "built $dst"

#!/usr/bin/env python3
"""tools/register.py C20 [C03 ...]: add `import Fca.Props.Cxx` to Fca.lean and the Drv handlers to Driver/Main.lean."""
import os
import re
import sys
L = '/verif/lean'
for prop in sys.argv[1:]:
    prop = prop.upper()
    p = os.path.join(L, 'Fca.lean')
    s = open(p).read()
    line = f'import Fca.Props.{prop}\n'
    if line not in s and os.path.exists(os.path.join(L, 'Fca', 'Props', f'{prop}.lean')):
        s += line
        open(p, 'w').write(s)
    p = os.path.join(L, 'Driver', 'Main.lean')
    s = open(p).read()
    if os.path.exists(os.path.join(L, 'Fca', 'Drv', f'{prop}.lean')) and f'import Fca.Drv.{prop}\n' not in s:
        s = s.replace('open Lean Fca.Drv', f'import Fca.Drv.{prop}\nopen Lean Fca.Drv', 1)
        # imports must precede everything: move the new import above `open`
        s = re.sub(r'(def allHandlers : List \(String × Handler\) :=\n)((?:  .*\n)+)',
                   lambda m: m.group(1) + m.group(2).rstrip('\n') + f' ++\n  Fca.Drv.{prop}.handlers\n', s, count=1)
        open(p, 'w').write(s)
print(open(os.path.join(L, 'Driver', 'Main.lean')).read()[:900])

#!/usr/bin/env python3
"""Validate one seeded change and record it under /verif/seeded/<name>/.

  tools/seedcheck.py <PROP> <src_dir> [--name NAME] [--checks C01,C05] [--tier quick]

<src_dir> holds patch.diff, demo.py, notes.md (as produced by a seeding sub-agent).
Steps (all in a scratch worktree of /repo under /tmp/wt, removed afterwards):
  1. the patch applies to /repo's HEAD;
  2. the baseline tests (BASELINE.json stable_pass) still pass with the patch;
  3. the demonstration fails with the patch and passes without it;
  4. each named check is run with FCAPY_REPO=<worktree>: VIOLATION expected; and the line is recorded.
Writes seeded/<name>/{patch.diff, demo.py, notes.md, meta.json}.
"""
import argparse
import json
import os
import shutil
import subprocess
import sys
import tempfile
import xml.etree.ElementTree as ET

VERIF = os.path.dirname(os.path.dirname(os.path.abspath(__file__)))


def sh(cmd, **kw):
    return subprocess.run(cmd, shell=isinstance(cmd, str), stdout=subprocess.PIPE, stderr=subprocess.STDOUT,
                          text=True, **kw)


def baseline_ok(tree):
    base = json.load(open('/root/.vp/BASELINE.json'))['stable_pass']
    out = tempfile.mktemp(suffix='.xml', dir='/tmp')
    env = dict(os.environ, PYTHONPATH=tree, PYTHONDONTWRITEBYTECODE='1')
    sh(['/venv/bin/python', '-m', 'pytest', '-q', '-p', 'no:cacheprovider', '--timeout=900',
        '--continue-on-collection-errors', f'--junitxml={out}'], cwd=tree, env=env)
    ok = set()
    try:
        for tc in ET.parse(out).getroot().iter('testcase'):
            if not any(ch.tag in ('failure', 'error', 'skipped') for ch in tc):
                ok.add(tc.get('classname') + '::' + tc.get('name'))
    finally:
        if os.path.exists(out):
            os.unlink(out)
    missing = [t for t in base if t not in ok]
    return not missing, len(ok), missing


def run_demo(tree, demo):
    env = dict(os.environ, PYTHONPATH=tree, PYTHONDONTWRITEBYTECODE='1', PYTHONHASHSEED='0')
    p = sh(['/venv/bin/python', '-B', demo], env=env, cwd='/tmp', timeout=900)
    return p.returncode, p.stdout[-1500:]


def main():
    ap = argparse.ArgumentParser()
    ap.add_argument('prop')
    ap.add_argument('src')
    ap.add_argument('--name')
    ap.add_argument('--checks')
    ap.add_argument('--tier', default='quick')
    ap.add_argument('--skip-tests', action='store_true')
    a = ap.parse_args()
    prop = a.prop.upper()
    name = a.name or f'{prop}-{os.path.basename(os.path.normpath(a.src))}'
    checks = (a.checks or prop).split(',')
    wt = f'/tmp/wt/seed-{name}-{os.getpid()}'
    os.makedirs('/tmp/wt', exist_ok=True)
    r = sh(f'git -C /repo worktree add -q {wt} HEAD')
    meta = dict(property=prop, name=name, checks={}, repo_head=sh('git -C /repo rev-parse --short HEAD').stdout.strip())
    try:
        patch = os.path.join(a.src, 'patch.diff')
        demo = os.path.join(a.src, 'demo.py')
        rc0, out0 = run_demo(wt, demo)
        meta['demo_without_change'] = dict(exit=rc0, tail=out0[-300:])
        r = sh(f'git -C {wt} apply {patch}')
        meta['patch_applies'] = r.returncode == 0
        if r.returncode != 0:
            meta['apply_error'] = r.stdout[-500:]
        else:
            rc1, out1 = run_demo(wt, demo)
            meta['demo_with_change'] = dict(exit=rc1, tail=out1[-600:])
            if not a.skip_tests:
                ok, npass, missing = baseline_ok(wt)
                meta['baseline_tests_pass_with_change'] = ok
                meta['tests_passing_with_change'] = npass
                meta['baseline_missing'] = missing
            for c in checks:
                env = dict(os.environ, FCAPY_REPO=wt)
                p = sh([os.path.join(VERIF, 'vcheck'), c, '--tier', a.tier], env=env, cwd=VERIF, timeout=7200)
                lines = [l for l in p.stdout.split('\n') if l.startswith(('VIOLATION', 'OK ', 'KNOWN-FINDING', 'TIMEOUT', 'HARNESS'))]
                replay = None
                for l in lines:
                    if l.startswith('VIOLATION') and 'replay=' in l:
                        rp = l.split('replay=')[1].split()[0]
                        try:
                            replay = json.load(open(os.path.join(VERIF, rp)))
                            replay = {k: replay[k] for k in ('kind', 'case', 'verdict') if k in replay}
                        except Exception:
                            pass
                        break
                meta['checks'][c] = dict(exit=p.returncode, lines=lines, caught=p.returncode == 1, replay=replay)
        meta['valid_seed'] = bool(meta.get('patch_applies') and meta['demo_without_change']['exit'] == 0
                                  and meta.get('demo_with_change', {}).get('exit', 0) != 0
                                  and meta.get('baseline_tests_pass_with_change', True))
    finally:
        sh(f'git -C /repo worktree remove --force {wt}')
        sh('git -C /repo worktree prune')
    notes = os.path.join(a.src, 'notes.md')
    if os.path.exists(notes):
        meta['needs_to_manifest'] = open(notes).read()[:3000]
    meta['what_was_run'] = (f'git apply patch.diff in a scratch worktree of /repo; baseline pytest; demo.py with/without the change; '
                            f'FCAPY_REPO=<worktree> ./vcheck {" ".join(checks)} --tier {a.tier}')
    dst = os.path.join(VERIF, 'seeded', name)
    os.makedirs(dst, exist_ok=True)
    old_meta = os.path.join(dst, 'meta.json')
    if a.skip_tests and os.path.exists(old_meta):
        try:    # keep the test-suite result recorded by an earlier full validation of the same seed
            om = json.load(open(old_meta))
            for k in ('baseline_tests_pass_with_change', 'tests_passing_with_change', 'baseline_missing'):
                if k in om and k not in meta:
                    meta[k] = om[k]
            for c_, v_ in om.get('checks', {}).items():
                meta['checks'].setdefault(c_, v_)
        except Exception:
            pass
    for f in ('patch.diff', 'demo.py', 'notes.md'):
        if os.path.exists(os.path.join(a.src, f)) and os.path.abspath(a.src) != os.path.abspath(dst):
            shutil.copy(os.path.join(a.src, f), os.path.join(dst, f))
    json.dump(meta, open(os.path.join(dst, 'meta.json'), 'w'), indent=1)
    # restore evidence written against the mutated tree? evidence files are rewritten by the next clean run
    print(json.dumps({k: meta[k] for k in ('name', 'valid_seed', 'patch_applies') if k in meta}),
          {c: (v['exit'], v['lines'][:2]) for c, v in meta['checks'].items()})


if __name__ == '__main__':
    main()

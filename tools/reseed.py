#!/usr/bin/env python3
"""Re-run the checks against stored seeded changes (in parallel):  tools/reseed.py [-j 4] C06-g C06-h ... | --prop C06,C08 | --all
Uses tools/seedcheck.py --skip-tests (the test-suite result recorded at first validation is kept)."""
import argparse
import glob
import os
import subprocess
import sys
from concurrent.futures import ThreadPoolExecutor

VERIF = os.path.dirname(os.path.dirname(os.path.abspath(__file__)))


def one(name):
    prop = name.split('-')[0]
    src = os.path.join(VERIF, 'seeded', name)
    p = subprocess.run([os.path.join(VERIF, 'tools', 'seedcheck.py'), prop, src, '--name', name, '--skip-tests'],
                       stdout=subprocess.PIPE, stderr=subprocess.STDOUT, text=True)
    line = [l for l in p.stdout.split('\n') if l.startswith('{')]
    return name, (line[-1] if line else p.stdout[-300:])


def main():
    ap = argparse.ArgumentParser()
    ap.add_argument('names', nargs='*')
    ap.add_argument('-j', type=int, default=3)
    ap.add_argument('--prop')
    ap.add_argument('--all', action='store_true')
    a = ap.parse_args()
    names = list(a.names)
    allnames = sorted(os.path.basename(os.path.dirname(p)) for p in glob.glob(os.path.join(VERIF, 'seeded', '*', 'meta.json')))
    if a.all:
        names = allnames
    if a.prop:
        ps = a.prop.split(',')
        names += [n for n in allnames if n.split('-')[0] in ps]
    with ThreadPoolExecutor(a.j) as ex:
        for name, line in ex.map(one, names):
            print(name, line[:300], flush=True)


if __name__ == '__main__':
    main()

#!/bin/bash
# tools/integrate.sh c09 : copy the NEW files a builder created in /tmp/build/c09 into /verif and list changed shared files.
name="$1"; src="/tmp/build/$name"
cd "$src" || exit 1
echo "== new files"
find . -type f \( -name '*.lean' -o -name '*.py' -o -name '*.json' -o -name '*.md' \) \
  -not -path './lean/.lake/*' -not -path './replays/*' -not -path './evidence/*' -not -path './.scratch/*' -not -path '*/__pycache__/*' | sort | while read f; do
  if [ ! -e "/verif/$f" ]; then
    mkdir -p "/verif/$(dirname "$f")"; cp "$f" "/verif/$f"; echo "  + $f ($(wc -l < "$f") lines)"
  fi
done
echo "== shared files that differ (not copied)"
find . -type f \( -name '*.lean' -o -name '*.py' -o -name '*.json' -o -name '*.sh' -o -name vcheck \) \
  -not -path './lean/.lake/*' -not -path './replays/*' -not -path './evidence/*' -not -path '*/__pycache__/*' | sort | while read f; do
  if [ -e "/verif/$f" ] && ! cmp -s "$f" "/verif/$f"; then echo "  ~ $f"; fi
done
# optional: --update '<regex>' re-copies differing files whose path matches the regex (files owned by that builder)
if [ "$2" = "--update" ] && [ -n "$3" ]; then
  echo "== updated owned files matching /$3/"
  find . -type f \( -name '*.lean' -o -name '*.py' -o -name '*.json' \) \
    -not -path './lean/.lake/*' -not -path './replays/*' -not -path './evidence/*' -not -path './seeded/*' -not -path './.scratch/*' -not -path '*/__pycache__/*' | grep -E "$3" | sort | while read f; do
    if [ -e "/verif/$f" ] && ! cmp -s "$f" "/verif/$f"; then cp "$f" "/verif/$f"; echo "  * $f"; fi
  done
fi

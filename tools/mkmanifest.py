#!/usr/bin/env python3
"""Regenerate MANIFEST.json from the table below (kept in one place so it stays valid)."""
import json
import os
import subprocess

VERIF = os.path.dirname(os.path.dirname(os.path.abspath(__file__)))

# property -> (level text, level note, technique, design ref)
CLAIMED = {k: tuple(v) for k, v in json.load(open(os.path.join(VERIF, 'tools', 'claims.json'))).items()}

NOT_YET = 'check not built yet in this phase of the work (see DESIGN.md section 10 build order); not claimed'


def main():
    props = [json.loads(l)['id'] for l in open(os.path.join(VERIF, 'properties.jsonl'))]
    fix_commits = subprocess.run(['git', '-C', '/repo', 'log', '--format=%h %s', '--grep=^fix:'],
                                 stdout=subprocess.PIPE, text=True).stdout.strip().split('\n')
    checks = []
    for p in props:
        if p not in CLAIMED:
            continue
        text, note, tech, ref = CLAIMED[p]
        checks.append(dict(
            property_id=p,
            quick_cmd=f'./vcheck {p} --tier quick',
            thorough_cmd=f'./vcheck {p} --tier thorough',
            evidence_file=f'evidence/{p}.json',
            replay_cmd_template=f'./vcheck {p} --replay {{path}}',
            engine='lean4-model+correspondence',
            level_claimed=dict(category='proof', text=text, design_ref=ref),
            level_note=note,
            technique=tech,
        ))
    man = dict(
        version=1,
        setup_cmd='cd lean && lake build Fca fcadriver',
        hooks=dict(
            guard='FCAPY_VERIF',
            enable='no instrumentation hooks are needed: the harness imports fcapy from /repo in-process and reads '
                   'private state directly; FCAPY_VERIF is reserved and currently unused',
            baseline_off_cmd='cd /repo && /venv/bin/python -m pytest -ra -q -p no:cacheprovider --timeout=900 '
                             '--continue-on-collection-errors',
            source_commits=[c for c in fix_commits if c],
            add_only=True,
        ),
        engines=[dict(name='lean4-model+correspondence', path='lean/ + harness/',
                      serves_properties=[c['property_id'] for c in checks],
                      kind_free_text='Lean 4 theorems about hand-written executable models (lean/Fca), audited per '
                                     'theorem (#print axioms), plus a differential correspondence check that runs '
                                     'the native Lean driver and the real FCApy on the same inputs (harness/)')],
        checks=checks,
        not_applicable=[dict(property_id=p, reason=NOT_YET) for p in props if p not in CLAIMED],
        notes='Entry point ./vcheck; known findings in known_findings.json; see DESIGN.md.',
    )
    with open(os.path.join(VERIF, 'MANIFEST.json'), 'w') as f:
        json.dump(man, f, indent=1)
    print('MANIFEST.json:', len(checks), 'checks,', len(man['not_applicable']), 'not claimed')


if __name__ == '__main__':
    main()

#!/usr/bin/env python3
"""Regenerate the auto-generated part of DESIGN.md (section 15): per-property status from the last evidence files,
and the table of seeded changes from seeded/*/meta.json."""
import glob
import json
import os
import subprocess
V = '/verif'
B, E = '<!-- BEGIN AUTO REPORT -->', '<!-- END AUTO REPORT -->'


def status_table():
    rows = ['| property | theorems (audited / in Props file) | `_partial` theorems | quick tier: evaluations, exhaustive scope | known findings hit |',
            '|---|---|---|---|---|']
    for p in sorted(glob.glob(V + '/evidence/C*.json')):
        e = json.load(open(p))
        c = e['coverage']
        part = ', '.join(n.split('.')[-1] for n in c.get('partial_theorems', [])) or '—'
        kf = ', '.join(f'{k}×{v}' for k, v in (c.get('known_finding_hits') or {}).items()) or '—'
        scope = (c.get('exhaustive_scope') or '').replace('|', '/')[:170]
        rows.append(f"| {e['property_id']} | {c['discharged']} / {c['obligations']} | {part} | {c['evaluations']:,} ({e['tier']}, {e['wall_s']:.0f} s); {scope} | {kf} |")
    return '\n'.join(rows)


def seed_table():
    out = subprocess.run([V + '/tools/seedtable.py'], stdout=subprocess.PIPE, text=True).stdout
    return out


def main():
    p = V + '/DESIGN.md'
    s = open(p).read()
    body = (B + '\n\n### 15.1 Status per property (from the evidence files of the last runs)\n\n' + status_table()
            + '\n\n### 15.2 Seeded changes and which checks report them\n\n'
              'Each seeded change was written by a fresh sub-agent that saw only the property text and a scratch worktree; '
              '`tools/seedcheck.py` confirmed that it applies to /repo\'s HEAD, that the baseline tests still pass with it, that its '
              'demonstration fails with it and passes without it, and then ran the named check with `FCAPY_REPO=<worktree>`.\n\n'
            + seed_table() + '\n' + E)
    if B in s:
        s = s[:s.index(B)] + body + s[s.index(E) + len(E):]
    else:
        s = s.rstrip('\n') + '\n\n' + body + '\n'
    open(p, 'w').write(s)
    print('report regenerated')


if __name__ == '__main__':
    main()

#!/usr/bin/env python3
"""Print a markdown table of the seeded changes under /verif/seeded and which checks caught them."""
import glob
import json
import os
rows = []
for p in sorted(glob.glob('/verif/seeded/*/meta.json')):
    m = json.load(open(p))
    notes = (m.get('needs_to_manifest') or '').strip().split('\n')
    title = next((l.strip('# ').strip() for l in notes if l.strip()), '')[:110]
    checks = []
    for c, v in m.get('checks', {}).items():
        tag = 'caught' if v.get('caught') else ('MISSED' if v.get('exit') == 0 else f'exit {v.get("exit")}')
        if v.get('caught') and any('no-failing-input-found' in l for l in v.get('lines', [])) and not any(
                l.startswith('VIOLATION') and 'no-failing-input-found' not in l for l in v.get('lines', [])):
            tag = 'caught (correspondence only: no-failing-input-found)'
        checks.append(f'{c}: {tag}')
    rows.append((m['name'], m['property'], 'yes' if m.get('valid_seed') else 'no', '; '.join(checks), title))
print('| seeded change | property | valid (tests pass, demo fails/passes) | checks | what it is |')
print('|---|---|---|---|---|')
for r in rows:
    print('| ' + ' | '.join(r) + ' |')

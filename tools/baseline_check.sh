#!/bin/bash
# Runs the repository's baseline test command and checks that every stable-pass test of BASELINE.json still passes.
out=$(mktemp /tmp/junit.XXXXXX.xml)
cd /repo && /venv/bin/python -m pytest -ra -q -p no:cacheprovider --timeout=900 --continue-on-collection-errors --junitxml=$out >/dev/null 2>&1
python3 - "$out" <<'PY'
import json, sys, xml.etree.ElementTree as ET
base = json.load(open('/root/.vp/BASELINE.json'))['stable_pass']
ok = set()
for tc in ET.parse(sys.argv[1]).getroot().iter('testcase'):
    if not any(ch.tag in ('failure', 'error', 'skipped') for ch in tc):
        ok.add(tc.get('classname') + '::' + tc.get('name'))
missing = [t for t in base if t not in ok]
print('baseline stable tests passing:', len(base) - len(missing), 'of', len(base), '; total passing now:', len(ok))
for t in missing:
    print('  MISSING', t)
sys.exit(1 if missing else 0)
PY
rc=$?
rm -f "$out"
exit $rc

"""Self-test of the source-derived definitions (harness/py2lean.py, harness/genside.py, lean/Fca/Gen/Equiv*.lean).

Part 1 (mutations): creates a scratch worktree of /repo, applies one textual edit of fcapy/context/bintable.py (names
`i-…`, `ii-…`, `iii-…`, `A-…`; default property C05) or of fcapy/context/formal_context.py (names `C-…`; property C01)
at a time, runs `FCAPY_REPO=<worktree> python harness/genside.py --check <prop>` and prints what it says; removes the
worktree; `P-…` edit fcapy/mvcontext/pattern_structure.py (property C13), `O-…` fcapy/poset/poset.py (property C09).
                python tools/gen_selftest.py [name-substring ...] [prop=C01]
Expected: `*i-*` regenerated_equal=True; `*ii-*` (semantics-preserving) problems=0 — except `ii-c` (an `append` loop onto
`out = []` whose element type no `"locals"` entry of the target declares: REFUSED, reported — a false alarm on the safe
side); every `*iii-*` (semantic change, or a change of the modelled computation) problems>=1.  The last line counts
the unexpected outcomes (0 expected).
Part 2 (unit cases, `unit-…`): one small synthetic function per construct of the translated subset — translated text must
contain the expected Lean fragment, or the construct must be REFUSED with the expected reason.
"""
import atexit, json, os, subprocess, sys, time
VERIF = os.path.dirname(os.path.dirname(os.path.abspath(__file__)))
WT = f'/tmp/wt/genselftest-{os.getpid()}'
subprocess.run(['git', '-C', '/repo', 'worktree', 'add', WT, 'HEAD'], stdout=subprocess.DEVNULL, stderr=subprocess.DEVNULL, check=True)
atexit.register(lambda: subprocess.run(['git', '-C', '/repo', 'worktree', 'remove', '--force', WT],
                                       stdout=subprocess.DEVNULL, stderr=subprocess.DEVNULL))
F = os.path.join(WT, 'fcapy/context/bintable.py')
ORIG = subprocess.run(['git', '-C', '/repo', 'show', 'HEAD:fcapy/context/bintable.py'], stdout=subprocess.PIPE, text=True).stdout
FO = os.path.join(WT, 'fcapy/poset/poset.py')
ORIG_O = subprocess.run(['git', '-C', '/repo', 'show', 'HEAD:fcapy/poset/poset.py'], stdout=subprocess.PIPE, text=True).stdout
FP = os.path.join(WT, 'fcapy/mvcontext/pattern_structure.py')
ORIG_P = subprocess.run(['git', '-C', '/repo', 'show', 'HEAD:fcapy/mvcontext/pattern_structure.py'], stdout=subprocess.PIPE, text=True).stdout
FC = os.path.join(WT, 'fcapy/context/formal_context.py')
ORIG_C = subprocess.run(['git', '-C', '/repo', 'show', 'HEAD:fcapy/context/formal_context.py'], stdout=subprocess.PIPE, text=True).stdout
UNEXPECTED = []
LISTS_START = ORIG.index('class BinTableLists')
LISTS_END = ORIG.index('class BinTableNumpy')

def run(name, edits, prop=None):
    src, path = (ORIG_C, FC) if name.startswith('C-') else (ORIG_P, FP) if name.startswith('P-') else \
        (ORIG_O, FO) if name.startswith('O-') else (ORIG, F)
    prop = prop or ('C01' if name.startswith('C-') else 'C13' if name.startswith('P-') else 'C09' if name.startswith('O-') else 'C05')
    if name[:2] in ('C-', 'P-', 'O-'):      # edits of FormalContext / of the pattern structures
        head, body, tail = '', src, ''
    elif name.startswith('A-'):      # edits of AbstractBinTable
        head, body, tail = '', src[:LISTS_START], src[LISTS_START:]
    else:
        head, body, tail = src[:LISTS_START], src[LISTS_START:LISTS_END], src[LISTS_END:]
    for old, new, count in edits:
        assert body.count(old) >= 1, (name, old)
        body = body.replace(old, new, count)
    open(path, 'w').write(head + body + tail)
    t0 = time.time()
    p = subprocess.run(['/venv/bin/python', 'harness/genside.py', '--check', prop], cwd=VERIF,
                       env=dict(os.environ, FCAPY_REPO=WT), stdout=subprocess.PIPE, stderr=subprocess.PIPE, text=True)
    open(path, 'w').write(src)
    try:
        d = json.loads(p.stdout[p.stdout.index('{'):])
    except Exception:
        print(name, 'FAILED TO RUN', p.stdout[-500:], p.stderr[-1500:]); return
    print(f'== {name} [{prop}]: regenerated_equal={d["regenerated_equal"]} changed={d["changed"]} elaborated={d["elaborated"]} '
          f'seconds={d["seconds"]} problems={len(d["problems"])}')
    for q in d['problems']:
        print('     PROBLEM:', q[:420])
    kind = name[2:] if name[:2] in ('A-', 'C-', 'P-', 'O-') else name
    want = 'equal' if kind.startswith('i-') else 'flagged' if kind.startswith('iii-') or name.startswith('ii-c-explicit') else 'accepted'
    got = 'flagged' if d['problems'] else 'equal' if d['regenerated_equal'] else 'accepted'
    if want != got:
        UNEXPECTED.append(f'{name}: expected {want}, got {got}')

TESTS = {
 'i-comments-docstrings-hints': [
   ('    def _all_per_column(self, rows: List[int] = None, columns: List[int] = None) -> Row_DType:\n',
    '    def _all_per_column(self, rows=None, columns: "Sequence[int]" = None):\n        """Column-wise conjunction.\n\n        (a docstring)\n        """\n\n        # a comment\n', 1),
   ('            if not any(vals):  # All values are False\n', '            if not any(vals):\n\n                # nothing left\n', 1),
   ('    def _sum(self, rows: List[int] = None, columns: List[int] = None) -> int:\n', '    def _sum(self, rows: List[int] = None, columns: List[int] = None) -> "int":\n        # total\n', 1)],
 'ii-a-rename-local': [
   ('            vals = [v & row[col_i] for v, col_i in zip(vals, columns)]\n            if not any(vals):  # All values are False\n                break\n        return vals\n',
    '            acc = [v & row[col_i] for v, col_i in zip(acc, columns)]\n            if not any(acc):  # All values are False\n                break\n        return acc\n', 1),
   ('            vals, columns = [True] * self.width, range(self.width)\n        else:\n            vals = [True] * len(columns)\n',
    '            acc, columns = [True] * self.width, range(self.width)\n        else:\n            acc = [True] * len(columns)\n', 1)],
 'ii-b-swap-and-operands': [('v & row[col_i]', 'row[col_i] & v', 1)],
 'ii-c-explicit-loop-append': [
   ('            return [all(self.data[i]) for i in rows]\n',
    '            out = []\n            for i in rows:\n                out.append(all(self.data[i]))\n            return out\n', 1)],
 'ii-d-drop-break (semantics-preserving)': [
   ('            if not any(vals):  # All values are False\n                break\n', '', 1)],
 'ii-e-rename-loop-var-and-row': [
   ('        for i in rows:\n            row = self.data[i]\n            vals = [v | row[col_i] for v, col_i in zip(vals, columns)]\n',
    '        for r in rows:\n            line = self.data[r]\n            vals = [v | line[c] for v, c in zip(vals, columns)]\n', 1)],
 'ii-f-any-per-row-via-generator-free-rewrite': [
   ('            return [any(self.data[i]) for i in rows]\n', '            return [any(self.data[k]) for k in rows]\n', 1)],
 'iii-a-wrong-early-exit (not all)': [('            if not any(vals):  # All values are False\n', '            if not all(vals):\n', 1)],
 'iii-b-zip-swapped': [('for v, col_i in zip(vals, columns)]\n            if not any', 'for v, col_i in zip(columns, vals)]\n            if not any', 1)],
 'iii-c-init-false-height': [('            vals, columns = [True] * self.width, range(self.width)\n', '            vals, columns = [False] * self.height, range(self.width)\n', 1)],
 'iii-d-init-true-height': [('            vals, columns = [True] * self.width, range(self.width)\n', '            vals, columns = [True] * self.height, range(self.width)\n', 1)],
 'iii-e-or-instead-of-and': [('v & row[col_i]', 'v | row[col_i]', 1)],
 'iii-f-all-returns-true-early': [('                if not all(self.data[i]):\n                    return False\n', '                if not all(self.data[i]):\n                    return True\n', 1)],
 'iii-g-sum-off-by-one': [('v + int(row[col_i])', 'v + int(row[col_i]) + 1', 1)],
 'iii-h-any-row-uses-all': [('            return [any(self.data[i]) for i in rows]\n', '            return [all(self.data[i]) for i in rows]\n', 1)],
 'iii-i-invert-identity': [('[[not v for v in row] for row in self.data]', '[[v for v in row] for row in self.data]', 1)],
 'iii-j-and-becomes-or': [('[[a and b for a, b in zip(row_a, row_b)]', '[[a or b for a, b in zip(row_a, row_b)]', 1)],
 'iii-k-get-row-wrong-index': [('            return [row[col] for col in column_slicer]\n', '            return [row[row_idx] for col in column_slicer]\n', 1)],
 'A-ii-rename-iterator (harmless)': [
   ('        flg_all = self.all(axis, rows, columns)\n        if axis == 0:\n            iterator = zip(columns, flg_all) if columns is not None else enumerate(flg_all)\n        else:  # axis == 1\n            iterator = zip(rows, flg_all) if rows is not None else enumerate(flg_all)\n        return [i for i, flg in iterator if flg]\n',
    '        flags = self.all(axis, rows, columns)\n        if axis == 0:\n            pairs = enumerate(flags) if columns is None else zip(columns, flags)\n        else:\n            pairs = enumerate(flags) if rows is None else zip(rows, flags)\n        return [k for k, f in pairs if f]\n', 1)],
 'A-iii-all_i-axis0-pairs-with-rows (swapped argument)': [
   ('            iterator = zip(columns, flg_all) if columns is not None else enumerate(flg_all)\n', '            iterator = zip(rows, flg_all) if rows is not None else enumerate(flg_all)\n', 1)],
 'A-iii-all_i-negated-filter': [('        return [i for i, flg in iterator if flg]\n', '        return [i for i, flg in iterator if not flg]\n', 1)],
 'A-iii-all-axis-dispatch-swapped': [
   ('        if axis == 0:\n            return self._all_per_column(rows, columns)\n        if axis == 1:\n            return self._all_per_row(rows, columns)\n',
    '        if axis == 0:\n            return self._all_per_row(rows, columns)\n        if axis == 1:\n            return self._all_per_column(rows, columns)\n', 1)],
 'A-iii-any_i-uses-all': [('        flg_any = self.any(axis, rows, columns)\n', '        flg_any = self.all(axis, rows, columns)\n', 1)],
 'iii-l-lists-overrides-all_i': [
   ('    def __invert__(self) -> \'BinTableLists\':\n', '    def all_i(self, axis, rows=None, columns=None):\n        return []\n\n    def __invert__(self) -> \'BinTableLists\':\n', 1)],
}

EXT_I = "        if len(attribute_indexes) == 0:\n            return list(range(self.n_objects)) if base_objects_i is None else list(base_objects_i)\n"
TESTS.update({
 # ---- fcapy/context/formal_context.py (property C01)
 'C-i-comments-annotations': [
   ('    def extension_i(self, attribute_indexes: Collection[int], base_objects_i: Collection[int] = None) -> List[int]:\n',
    '    def extension_i(self, attribute_indexes, base_objects_i: "Collection[int]" = None):\n        # derive\n', 1),
   ('        attribute_indexes = list(attribute_indexes)\n\n', '        attribute_indexes = list(attribute_indexes)  # copy\n', 1)],
 'C-ii-a-flipped-comparison': [(EXT_I, EXT_I.replace('len(attribute_indexes) == 0', '0 == len(attribute_indexes)'), 1)],
 'C-ii-b-drop-list-copy': [('        attribute_indexes = list(attribute_indexes)\n\n', '\n', 1)],
 'C-ii-c-rename-locals-monotone': [
   ('        object_indexes = set(object_indexes)\n        inv_objs_i = [g_i for g_i in range(self.n_objects) if g_i not in object_indexes]\n        inv_attrs_i = set(self.data.any_i(0, inv_objs_i, base_attrs_i))\n        return [m_i for m_i in attr_iterator if m_i not in inv_attrs_i]\n',
    '        given = set(object_indexes)\n        others = [g for g in range(self.n_objects) if g not in given]\n        hit = set(self.data.any_i(0, others, base_attrs_i))\n        return [m for m in attr_iterator if m not in hit]\n', 1)],
 'C-ii-d-property-reads-field': [('        return self.data.height\n', '        return self._data.height\n', 1)],
 'C-ii-e-conditional-flipped': [
   ('        extension_i = self.extension_i(attr_indices, base_objects_i)\\\n            if not is_monotone else self.extension_monotone_i(attr_indices, base_objects_i)\n',
    '        extension_i = self.extension_monotone_i(attr_indices, base_objects_i)\\\n            if is_monotone else self.extension_i(attr_indices, base_objects_i)\n', 1)],
 'C-ii-f-comprehension-instead-of-append': [
   ("        obj_indices = []\n        for g in objects:\n            try:\n                obj_indices.append(self._object_names_i_map[g])\n            except KeyError as e:\n                raise KeyError(f'FormalContext.intention: Context does not have an object \"{g}\"')\n",
    "        obj_indices = [self._object_names_i_map[g] for g in objects]\n", 1)],
 'C-iii-a-wrong-axis': [('self.data.all_i(1, base_objects_i, attribute_indexes)', 'self.data.all_i(0, base_objects_i, attribute_indexes)', 1)],
 'C-iii-b-swapped-arguments': [('self.data.all_i(1, base_objects_i, attribute_indexes)', 'self.data.all_i(1, attribute_indexes, base_objects_i)', 1)],
 'C-iii-c-any-instead-of-all': [('self.data.all_i(1, base_objects_i, attribute_indexes)', 'self.data.any_i(1, base_objects_i, attribute_indexes)', 1)],
 'C-iii-d-shortcut-returns-attributes': [(EXT_I, EXT_I.replace('range(self.n_objects)', 'range(self.n_attributes)'), 1)],
 'C-iii-e-rare-shortcut (len == 9)': [(EXT_I, EXT_I.replace('len(attribute_indexes) == 0:', 'len(attribute_indexes) == 0 or len(attribute_indexes) == 9:'), 1)],
 'C-iii-f-monotone-dropped-not': [('if g_i not in object_indexes]', 'if g_i in object_indexes]', 1)],
 'C-iii-g-monotone-shortcut-compares-objects': [
   ('        if len(attribute_indexes) == self.n_attributes:\n', '        if len(attribute_indexes) == self.n_objects:\n', 1)],
 'C-iii-h-n_objects-is-width': [('        return self.data.height\n', '        return self.data.width\n', 1)],
 'C-iii-i-wrong-dictionary': [
   ('                attr_indices.append(self._attribute_names_i_map[m])\n', '                attr_indices.append(self._object_names_i_map[m])\n', 1)],
 'C-iii-j-unknown-name-skipped (refused)': [
   ("            except KeyError as e:\n                raise KeyError(f'FormalContext.extension: Context does not have an attribute \"{m}\"')\n",
    "            except KeyError as e:\n                continue\n", 1)],
 'C-iii-k-intent-named-by-objects': [('        intention = [self._attribute_names[m_idx] for m_idx in intention_i]\n',
                                      '        intention = [self._object_names[m_idx] for m_idx in intention_i]\n', 1)],
 'C-iii-l-monotone-flag-inverted': [
   ('        intention_i = self.intention_i(obj_indices) if not is_monotone else self.intention_monotone_i(obj_indices)\n',
    '        intention_i = self.intention_i(obj_indices) if is_monotone else self.intention_monotone_i(obj_indices)\n', 1)],
 'C-iii-m-keyerror-becomes-valueerror': [
   ("            except KeyError as e:\n                raise KeyError(f'FormalContext.intention: Context does not have an object \"{g}\"')\n",
    "            except KeyError as e:\n                raise ValueError(f'FormalContext.intention: Context does not have an object \"{g}\"')\n", 1)],
 'C-iii-n-base-ignored-by-name': [
   ('        if base_objects is not None:\n            base_objects_i = []\n', '        if base_objects is None:\n            base_objects_i = list(range(self.n_objects))\n        elif len(base_objects) == 3:\n            base_objects_i = list(range(self.n_objects))\n        elif True:\n            base_objects_i = []\n', 1)],
})

TESTS.update({
 # ---- the rest of the lists backend's surface (property C05)
 'ii-g-subtable-rename-local': [
   ('            subtable = [self.data[row_i] for row_i in row_slicer]\n', '            picked = [self.data[r] for r in row_slicer]\n', 1),
   ('            subtable = [[self.data[row_i][col_i] for col_i in column_slicer] for row_i in row_slicer]\n\n        return self.__class__(subtable)\n',
    '            picked = [[self.data[r][c] for c in column_slicer] for r in row_slicer]\n\n        return self.__class__(picked)\n', 1)],
 'iii-m-subtable-swapped-indexes': [('[[self.data[row_i][col_i] for col_i in column_slicer] for row_i in row_slicer]',
                                    '[[self.data[col_i][row_i] for col_i in column_slicer] for row_i in row_slicer]', 1)],
 'iii-n-subtable-ignores-columns': [('[[self.data[row_i][col_i] for col_i in column_slicer] for row_i in row_slicer]',
                                    '[[v for v in self.data[row_i]] for row_i in row_slicer]', 1)],
 'iii-o-to_list-negates': [('    def to_list(self) -> List[List[bool]]:\n        return self.data\n',
                           '    def to_list(self) -> List[List[bool]]:\n        return [[not v for v in row] for row in self.data]\n', 1)],
 'A-ii-T-rename': [('[self._get_column(range(self.height), col_i) for col_i in range(self.width)]',
                    '[self._get_column(range(self.height), j) for j in range(self.width)]', 1)],
 'A-iii-T-height-width-swapped': [('[self._get_column(range(self.height), col_i) for col_i in range(self.width)]',
                                   '[self._get_column(range(self.width), col_i) for col_i in range(self.height)]', 1)],
 'A-iii-eq-ignores-width': [('        if self.width != other.width:\n            return False\n', '        if self.width != other.width:\n            return True\n', 1)],
 'A-ii-eq-merged-tests': [('        if self.height != other.height:\n            return False\n        if self.width != other.width:\n            return False\n',
                           '        if self.height != other.height or self.width != other.width:\n            return False\n', 1)],
 'A-iii-get_item-swapped': [('        return bool(self.data[row_idx][column_idx])\n', '        return bool(self.data[column_idx][row_idx])\n', 1)],
 'A-iii-sum-dispatch-swapped': [
   ('        if axis == 0:\n            return self._sum_per_column(rows, columns)\n        if axis == 1:\n            return self._sum_per_row(rows, columns)\n',
    '        if axis == 0:\n            return self._sum_per_row(rows, columns)\n        if axis == 1:\n            return self._sum_per_column(rows, columns)\n', 1)],
 'A-iii-len-is-width': [('    def __len__(self):\n        return self.height\n', '    def __len__(self):\n        return self.width\n', 1)],
 'A-iii-all-none-uses-any': [('        if axis is None:\n            return self._all(rows, columns)\n', '        if axis is None:\n            return self._any(rows, columns)\n', 1)],
})

TESTS.update({
 # ---- fcapy/mvcontext/pattern_structure.py (property C13)
 'P-i-comments': [('        min_, max_ = self._data[object_indexes[0]]\n', '        # start from the first object\n        min_, max_ = self._data[object_indexes[0]]\n', 1)],
 'P-ii-a-rename-loop-locals': [
   ('        for g_i in object_indexes[1:]:\n            v_min, v_max = self._data[g_i]\n            min_ = v_min if v_min < min_ else min_\n            max_ = v_max if v_max > max_ else max_\n',
    '        for k in object_indexes[1:]:\n            lo, hi = self._data[k]\n            min_ = lo if lo < min_ else min_\n            max_ = hi if hi > max_ else max_\n', 1)],
 'P-ii-b-flipped-comparison': [('            max_ = v_max if v_max > max_ else max_\n', '            max_ = v_max if max_ < v_max else max_\n', 1)],
 'P-ii-c-attr-explicit-return': [
   ('        if not description:\n            return list(base_objects_i)\n\n        return [g_i for g_i in base_objects_i if self._data[g_i]]\n',
    '        if not description:\n            return list(base_objects_i)\n        selected = [g for g in base_objects_i if self._data[g]]\n        return selected\n', 1)],
 'P-iii-a-min-takes-larger': [('            min_ = v_min if v_min < min_ else min_\n', '            min_ = v_min if v_min > min_ else min_\n', 1)],
 'P-iii-b-skips-second-object': [('        for g_i in object_indexes[1:]:\n            v_min, v_max', '        for g_i in object_indexes[2:]:\n            v_min, v_max', 1)],
 'P-iii-c-or-instead-of-and': [('if min_ <= self._data[g_i][0] and self._data[g_i][1] <= max_]', 'if min_ <= self._data[g_i][0] or self._data[g_i][1] <= max_]', 1)],
 'P-iii-d-strict-left-bound': [('if min_ <= self._data[g_i][0] and self._data[g_i][1] <= max_]', 'if min_ < self._data[g_i][0] and self._data[g_i][1] <= max_]', 1)],
 'P-iii-e-set-intent-intersects': [('            intent |= self._data[g_i]\n', '            intent = intent & self._data[g_i]\n', 1)],
 'P-iii-f-set-extension-equality': [('if self._data[g_i] & description == self._data[g_i]]', 'if self._data[g_i] & description == description]', 1)],
 'P-iii-g-attr-any': [('        return all(self._data[g_i] for g_i in object_indexes)\n', '        return any(self._data[g_i] for g_i in object_indexes)\n', 1)],
 'P-iii-h-attr-all-of-a-list (evaluates every element: IndexError after a False)': [
   ('        return all(self._data[g_i] for g_i in object_indexes)\n', '        return all([self._data[g_i] for g_i in object_indexes])\n', 1)],
 'P-iii-i-attr-description-inverted': [('        if not description:\n            return list(base_objects_i)\n', '        if description:\n            return list(base_objects_i)\n', 1)],
 'P-iii-j-none-description-selects-all': [
   ('        if description is None:\n            return []\n\n        min_, max_ = description', '        if description is None:\n            return list(range(len(self._data)))\n\n        min_, max_ = description', 1)],
 'P-iii-k-first-object-twice (rare: only with >= 2 objects and a wider 2nd)': [
   ('        for g_i in object_indexes[1:]:\n            v_min, v_max', '        for g_i in object_indexes[:1]:\n            v_min, v_max', 1)],
})

TESTS.update({
 # ---- fcapy/poset/poset.py, uncached queries (property C09)
 'O-i-comments': [('        sup_indexes = {i for i in range(len(self)) if self.leq_elements(element_index, i) and i != element_index}\n',
                   '        # strict upper set\n        sup_indexes = {i for i in range(len(self)) if self.leq_elements(element_index, i) and i != element_index}\n', 1)],
 'O-ii-a-rename-comprehension-variable': [
   ('        sub_indexes = {i for i in range(len(self)) if self.leq_elements(i, element_index) and i != element_index}\n        return frozenset(sub_indexes)\n',
    '        below = {k for k in range(len(self)) if self.leq_elements(k, element_index) and k != element_index}\n        return frozenset(below)\n', 1)],
 'O-ii-b-len-of-elements': [('    def __len__(self):\n        return len(self._elements)\n', '    def __len__(self):\n        n = len(self._elements)\n        return n\n', 1)],
 'O-iii-a-descendants-not-strict': [
   ('        sub_indexes = {i for i in range(len(self)) if self.leq_elements(i, element_index) and i != element_index}\n',
    '        sub_indexes = {i for i in range(len(self)) if self.leq_elements(i, element_index)}\n', 1)],
 'O-iii-b-ancestors-swapped-comparison': [
   ('        sup_indexes = {i for i in range(len(self)) if self.leq_elements(element_index, i) and i != element_index}\n',
    '        sup_indexes = {i for i in range(len(self)) if self.leq_elements(i, element_index) and i != element_index}\n', 1)],
 'O-iii-c-children-prune-with-ancestors': [
   ('                subelement_idxs -= self.descendants(el_idx)\n', '                subelement_idxs -= self.ancestors(el_idx)\n', 1)],
 'O-iii-d-parents-no-membership-test (result unchanged for partial orders, but not the modelled computation)': [
   ('            if el_idx in superelement_idxs:\n                superelement_idxs -= self.ancestors(el_idx)\n',
    '            superelement_idxs -= self.ancestors(el_idx)\n', 1)],
 'O-iii-e-tops-use-descendants': [
   ('        return [el_i for el_i in range(len(self)) if len(self.ancestors(el_i)) == 0]\n',
    '        return [el_i for el_i in range(len(self)) if len(self.descendants(el_i)) == 0]\n', 1)],
 'O-iii-f-leq-arguments-swapped': [
   ('        return self._leq_func(self._elements[a_index], self._elements[b_index])\n',
    '        return self._leq_func(self._elements[b_index], self._elements[a_index])\n', 1)],
 'O-ii-c-join-explicit-none-test': [
   ('        if element_indexes is None or len(element_indexes) == 0:\n            element_indexes = list(range(len(self._elements)))\n',
    '        if element_indexes is None or 0 == len(element_indexes):\n            element_indexes = list(range(len(self)))\n', 1)],
 'O-iii-h-join-uses-descendants-in-pruning': [
   ('        for el_idx in copy(join_indexes):\n            join_indexes -= self.ancestors(el_idx)\n', '        for el_idx in copy(join_indexes):\n            join_indexes -= self.descendants(el_idx)\n', 1)],
 'O-iii-i-join-unions-instead-of-intersecting': [('            join_indexes &= self.ancestors(el_idx) | {el_idx}\n', '            join_indexes |= self.ancestors(el_idx) | {el_idx}\n', 1)],
 'O-iii-j-meet-skips-second-element': [
   ('        for el_idx in element_indexes[1:]:\n            meet_indexes &=', '        for el_idx in element_indexes[2:]:\n            meet_indexes &=', 1)],
 'O-iii-k-meet-accepts-two-candidates': [
   ('        meet_idx = list(meet_indexes)[0] if len(meet_indexes) == 1 else None\n', '        meet_idx = list(meet_indexes)[0] if len(meet_indexes) >= 1 else None\n', 1)],
 'O-iii-l-join-of-empty-selection-is-none': [
   ('        if element_indexes is None or len(element_indexes) == 0:\n            element_indexes = list(range(len(self._elements)))\n',
    '        if element_indexes is None:\n            element_indexes = list(range(len(self._elements)))\n        if len(element_indexes) == 0:\n            return None\n', 1)],
 'O-iii-g-leq-reflexive-shortcut (changes answers only for a non-reflexive leq_func)': [
   ('        return self._leq_func(self._elements[a_index], self._elements[b_index])\n',
    '        return a_index == b_index or self._leq_func(self._elements[a_index], self._elements[b_index])\n', 1)],
})

# ---------------------------------------------------------------------------------------------- unit cases
UNIT_HEAD = 'class T:\n'
def unit(name, body, params, returns, expect, refuse=None, extra=None):
    """translate `class T: def f(self, …)`; expect = Lean fragments that must occur / refuse = reason that must be given"""
    import tempfile
    sys.path.insert(0, os.path.join(VERIF, 'harness'))
    import py2lean
    cfg = py2lean.load_config()
    tg = dict(file='m.py', qualname='T.f', lean='f', params=dict(self='Table', **params), returns=returns, props=['X'])
    extra = dict(extra or {})
    prelude = extra.pop('_prelude', '')
    if '_self' in extra:
        tg['params']['self'] = extra.pop('_self')
    tg.update(extra)
    with tempfile.TemporaryDirectory() as d:
        open(os.path.join(d, 'm.py'), 'w').write(prelude + UNIT_HEAD + ''.join('    ' + l + '\n' for l in body.split('\n')))
        blocks, errors, _ = py2lean.translate_all(dict(cfg, targets=[tg]), root=d)
    txt, err = blocks['f'], errors.get('f')
    if refuse is not None:
        ok = err is not None and refuse in str(err)
    else:
        ok = err is None and all(e in txt for e in expect)
    print(f'== unit-{name}: ' + ('ok' if ok else 'UNEXPECTED') + (f' (refused: {err})' if err else ''))
    if not ok:
        UNEXPECTED.append(f'unit-{name}: ' + (str(err) if err else txt))

ON = 'Option (List Nat)'
UNITS = [
 ('list-copy', 'def f(self, xs):\n    return list(xs)', dict(xs='List Nat'), 'List Nat', ['return xs']),
 ('set-membership', 'def f(self, xs, y):\n    s = set(xs)\n    return y not in s', dict(xs='List Nat', y='Nat'), 'Bool',
  ['(Fca.Gen.pySet xs)', '(!(List.contains s y))']),
 ('in-list', 'def f(self, xs, y):\n    return y in xs', dict(xs='List Nat', y='Nat'), 'Bool', ['(List.contains xs y)']),
 ('set-iteration-refused', 'def f(self, xs):\n    return [x for x in set(xs)]', dict(xs='List Nat'), 'List Nat', None, 'iteration over'),
 ('set-len-refused', 'def f(self, xs):\n    return len(set(xs))', dict(xs='List Nat'), 'Nat', None, 'call `len('),
 ('dict-subscript', 'def f(self, d, k):\n    return d[k]', dict(d='Dict String Nat', k='String'), 'Nat', ['Fca.Gen.dictGet d k']),
 ('dict-wrong-key-type-refused', 'def f(self, d, k):\n    return d[k]', dict(d='Dict String Nat', k='Nat'), 'Nat', None, 'subscript of'),
 ('string-constant', 'def f(self, x):\n    return x == "ab"', dict(x='String'), 'Bool', ['(x == "ab")']),
 ('string-constant-with-quote-refused', 'def f(self, x):\n    return x == \'a"b\'', dict(x='String'), 'Bool', None, 'constant'),
 ('append-loop', 'def f(self, xs):\n    out = []\n    for x in xs:\n        out.append(x + 1)\n    return out', dict(xs='List Nat'), 'List Nat',
  ['let mut out := ([] : List Nat)', 'out := (out ++ [(x + 1)])'], None, dict(locals=dict(out='List Nat'))),
 ('empty-list-undeclared-refused', 'def f(self, xs):\n    out = []\n    return out', dict(xs='List Nat'), 'List Nat', None, 'element type is unknown'),
 ('append-to-parameter-refused', 'def f(self, xs):\n    xs.append(1)\n    return xs', dict(xs='List Nat'), 'List Nat', None, 'is a parameter'),
 ('append-aliased-refused', 'def f(self, xs):\n    out = [0]\n    ys = out\n    out.append(1)\n    return ys', dict(xs='List Nat'), 'List Nat', None, 'through an alias'),
 ('append-read-in-loop-refused', 'def f(self, xs):\n    out = [0]\n    for x in xs:\n        y = out\n        out.append(x)\n    return out', dict(xs='List Nat'), 'List Nat', None, 'through an alias'),
 ('append-not-fresh-refused', 'def f(self, xs):\n    out = xs\n    out.append(1)\n    return out', dict(xs='List Nat'), 'List Nat', None, 'not always bound to a fresh list'),
 ('try-reraise-same-class', 'def f(self, d, k):\n    try:\n        v = d[k]\n    except KeyError as e:\n        raise KeyError(f"no {k}")\n    return v',
  dict(d='Dict String Nat', k='String'), 'Nat', ['the class of the exception is unchanged', 'Fca.Gen.dictGet d k']),
 ('try-other-class-refused', 'def f(self, d, k):\n    try:\n        v = d[k]\n    except KeyError:\n        raise ValueError("x")\n    return v',
  dict(d='Dict String Nat', k='String'), 'Nat', None, '`try` other than'),
 ('try-swallow-refused', 'def f(self, d, k):\n    try:\n        v = d[k]\n    except KeyError:\n        v = 0\n    return v',
  dict(d='Dict String Nat', k='String'), 'Nat', None, '`try` other than'),
 ('try-message-with-call-refused', 'def f(self, d, k):\n    try:\n        v = d[k]\n    except KeyError:\n        raise KeyError(str(k))\n    return v',
  dict(d='Dict String Nat', k='String'), 'Nat', None, '`try` other than'),
 ('bool-default', 'def f(self, x, flag=False):\n    return x if flag else 0', dict(x='Nat', flag='Bool'), 'Nat', ['(flag : Bool)']),
 ('non-constant-default-refused', 'def f(self, x, n=len("a")):\n    return x', dict(x='Nat', n='Nat'), 'Nat', None, 'default value of `n`'),
 ('list-where-option-expected', 'def f(self, xs):\n    return self.g(xs)\ndef g(self, ys=None):\n    return 0', dict(xs='List Nat'), 'Nat', None, 'not a translated target'),
 ('property-not-a-target-refused', 'def f(self):\n    return self.size', {}, 'Nat', None, 'no class of'),
 ('type-comparison-of-records-folded', 'def f(self, other):\n    if type(self) != type(other):\n        return 1\n    return 0', dict(other='Table'), 'Nat',
  ['`type(self) != type(other)` is statically True']),
 ('type-comparison-with-non-record-refused', 'def f(self, x):\n    if type(self) != type(x):\n        return 1\n    return 0', dict(x='Nat'), 'Nat', None, 'call `type('),
 ('none-constant-parameter', 'def f(self, axis, x):\n    if axis is None:\n        return x\n    return 0', dict(x='Nat'), 'Nat',
  ['`axis is None` is statically True'], None, dict(const=dict(axis=None))),
 ('none-constant-used-as-value-refused', 'def f(self, axis, x):\n    return [axis]', dict(x='Nat'), 'List Nat', None, 'is used as a value', dict(const=dict(axis=None))),
 ('tail-slice', 'def f(self, xs):\n    return xs[1:]', dict(xs='List Nat'), 'List Nat', ['(List.drop 1 xs)']),
 ('other-slice-refused', 'def f(self, xs):\n    return xs[:1]', dict(xs='List Nat'), 'List Nat', None, 'slice other than'),
 ('pair-component', 'def f(self, p):\n    return p[1]', dict(p='Num × Num'), 'Num', ['p.2']),
 ('pair-component-out-of-range-refused', 'def f(self, p):\n    return p[2]', dict(p='Num × Num'), 'Num', None, 'component of a pair'),
 ('num-comparison-and-min', 'def f(self, a, b):\n    return max(a, b) if a < b else min(a, b)', dict(a='Num', b='Num'), 'Num',
  ['(decide (a < b))', '(Fca.Gen.pyMax2 a b)', '(Fca.Gen.pyMin2 a b)']),
 ('return-none-for-option', 'def f(self, xs):\n    if len(xs) == 0:\n        return None\n    return xs[0]', dict(xs='List Nat'), 'Option Nat', ['return none', 'return (some ']),
 ('return-none-for-non-option-refused', 'def f(self, xs):\n    return None', dict(xs='List Nat'), 'Nat', None, 'constant None'),
 ('not-list', 'def f(self, xs):\n    return not xs', dict(xs='List Nat'), 'Bool', ['(List.isEmpty xs)']),
 ('not-nat-refused', 'def f(self, n):\n    return not n', dict(n='Nat'), 'Bool', None, 'unary `Not`'),
 ('all-of-generator-short-circuits', 'def f(self, xs, ys):\n    return all(ys[x] for x in xs)', dict(xs='List Nat', ys='List Bool'), 'Bool', ['Fca.Gen.allM (fun x => do']),
 ('all-of-list-evaluates-all', 'def f(self, xs, ys):\n    return all([ys[x] for x in xs])', dict(xs='List Nat', ys='List Bool'), 'Bool', ['List.mapM (fun x => do', 'Fca.Gen.pyAll']),
 ('filter-with-raising-condition', 'def f(self, xs, ys):\n    return [x for x in xs if ys[x]]', dict(xs='List Nat', ys='List Bool'), 'List Nat',
  ['Fca.Gen.filterMapM (fun x => do', 'pure (some x)', 'else pure none) xs']),
 ('set-operations', 'def f(self, a, b):\n    return a & b == a | b', dict(a='Set Num', b='Set Num'), 'Bool', ['Fca.Gen.setEq (Fca.Gen.setInter a b) (Fca.Gen.setUnion a b)']),
 ('set-update-in-place', 'def f(self, xs):\n    s = set()\n    for x in xs:\n        s |= x\n    return s', dict(xs='List (Set Num)'), 'Set Num',
  ['let mut s := ([] : List Int)', 's := (Fca.Gen.setUnion s x)'], None, dict(locals=dict(s='Set Num'))),
 ('set-update-of-parameter-refused', 'def f(self, s, x):\n    s |= x\n    return s', dict(s='Set Num', x='Set Num'), 'Set Num', None, 'is a parameter'),
 ('plus-equals-refused', 'def f(self, n):\n    n += 1\n    return n', dict(n='Nat'), 'Nat', None, 'augmented assignment other than'),
 ('isinstance-number-of-pair-folded', 'def f(self, d):\n    return 1 if isinstance(d, Number) else 0', dict(d='Num × Num'), 'Nat', ['return 0'], None,
  dict(_prelude='from numbers import Number\n')),
 ('isinstance-number-without-import-refused', 'def f(self, d):\n    return 1 if isinstance(d, Number) else 0', dict(d='Num × Num'), 'Nat', None, 'unknown name `Number`'),
 ('set-comprehension-and-frozenset', 'def f(self, xs):\n    s = {x for x in xs if x != 2}\n    return frozenset(s)', dict(xs='List Nat'), 'FSet Nat',
  ['List.filterMap (fun x => if (x != 2) then some x else none) xs']),
 ('set-difference-and-emptiness', 'def f(self, a, b):\n    return len(a - b) == 0', dict(a='FSet Nat', b='FSet Nat'), 'Bool', ['(List.isEmpty (Fca.Gen.setDiff a b))']),
 ('len-of-set-refused', 'def f(self, a):\n    return len(a) == 1', dict(a='FSet Nat'), 'Bool', None, 'call `len('),
 ('frozenset-update-rebinds', 'def f(self, a, b):\n    a -= b\n    return a', dict(a='FSet Nat', b='FSet Nat'), 'FSet Nat', ['let a := (Fca.Gen.setDiff a b)']),
 ('set-update-of-parameter-in-place-refused', 'def f(self, a, b):\n    a -= b\n    return a', dict(a='Set Nat', b='Set Nat'), 'Set Nat', None, 'is a parameter'),
 ('list-of-set-needs-order-parameter-refused', 'def f(self, a):\n    return list(a)', dict(a='FSet Nat'), 'List Nat', None, 'no iteration-order parameter'),
 ('list-of-set-with-order-parameter', 'def f(self, a):\n    return list(a)', dict(a='FSet Nat'), 'List Nat', ['(ord : List Nat → List Nat)', 'return (ord a)'], None, dict(unit='Poset')),
 ('function-field-call', 'def f(self, i, j):\n    return self._leq_func(self._elements[i], self._elements[j])', dict(i='Nat', j='Nat'), 'Bool',
  ['{α : Type}', '(self.leq t1 t2)'], None, dict(unit='Poset', _self='POSet')),
 ('function-field-as-value-refused', 'def f(self):\n    g = self._leq_func\n    return True', {}, 'Bool', None, 'used other than by calling it', dict(unit='Poset', _self='POSet')),
 ('len-of-record-needs-target-refused', 'def f(self):\n    return len(self)', {}, 'Nat', None, 'no class of', dict(unit='Poset', _self='POSet')),
 ('copy-without-import-refused', 'def f(self, a):\n    return copy(a)', dict(a='FSet Nat'), 'FSet Nat', None, 'call `copy('),
 ('copy-of-set', 'def f(self, a):\n    return copy(a)', dict(a='FSet Nat'), 'FSet Nat', ['return a'], None, dict(_prelude='from copy import copy\n')),
 ('set-display', 'def f(self, a, x):\n    return a | {x}', dict(a='FSet Nat', x='Nat'), 'FSet Nat', ['(Fca.Gen.setUnion a [x])']),
 ('default-idiom', 'def f(self, xs=None):\n    if xs is None or len(xs) == 0:\n        xs = [0]\n    return xs', dict(xs='Option (List Nat)'), 'List Nat',
  ['(match xs with', '| none => do', 'else pure xs)']),
 ('default-idiom-wrong-type-refused', 'def f(self, xs=None):\n    if xs is None or len(xs) == 0:\n        xs = 0\n    return 1', dict(xs='Option (List Nat)'), 'Nat', None, 'is not of the type'),
 ('value-or-none', 'def f(self, xs):\n    return xs[0] if len(xs) == 1 else None', dict(xs='List Nat'), 'Option Nat', ['pure (some t1)', 'else pure none)']),
 ('len-of-set-in-nodup-unit', 'def f(self, a):\n    return len(a)', dict(a='FSet Nat'), 'Nat', ['return (Fca.Gen.len a)'], None, dict(unit='Poset', _self='POSet')),
 ('set-comprehension-of-images-in-nodup-unit-refused', 'def f(self, n):\n    return frozenset({i + 1 for i in range(n)})', dict(n='Nat'), 'FSet Nat', None, 'duplicate-free (A13)', dict(unit='Poset', _self='POSet')),
 ('list-to-set-in-nodup-unit-refused', 'def f(self, xs):\n    return frozenset(xs)', dict(xs='List Nat'), 'FSet Nat', None, 'duplicate-free (A13)', dict(unit='Poset', _self='POSet')),
 ('for-over-set-uses-order-parameter', 'def f(self, a):\n    out = []\n    for x in a:\n        out.append(x)\n    return out', dict(a='FSet Nat'), 'List Nat',
  ['for x in (ord a) do'], None, dict(unit='Poset', _self='POSet', locals=dict(out='List Nat'))),
 ('for-over-set-without-order-parameter-refused', 'def f(self, a):\n    out = []\n    for x in a:\n        out.append(x)\n    return out', dict(a='FSet Nat'), 'List Nat',
  None, 'iteration over', dict(locals=dict(out='List Nat'))),
 ('method-of-non-record-refused', 'def f(self, xs):\n    return xs.count(1)', dict(xs='List Nat'), 'Nat', None, 'the receiver is not a record'),
]

if __name__ == '__main__':
    sel = [x for x in sys.argv[1:] if not x.startswith('prop=')]
    prop = next((x[5:] for x in sys.argv[1:] if x.startswith('prop=')), None)
    for name, edits in TESTS.items():
        if sel and not any(x in name for x in sel):
            continue
        run(name, edits, prop)
    for u in UNITS:
        if sel and not any(x in 'unit-' + u[0] for x in sel):
            continue
        unit(*u)
    print(f'unexpected outcomes: {len(UNEXPECTED)}')
    for x in UNEXPECTED:
        print('   ', x[:600])

"""Self-test of the source-derived definitions (harness/py2lean.py, harness/genside.py, lean/Fca/Gen/Equiv*.lean).

Creates a scratch worktree of /repo, applies one textual edit of fcapy/context/bintable.py at a time, runs
`FCAPY_REPO=<worktree> python harness/genside.py --check <prop>` and prints what it says; removes the worktree.
  python tools/gen_selftest.py [name-substring ...] [prop=C01]
Expected: `i-*` regenerated_equal=True; `ii-*` / `A-ii-*` (semantics-preserving) problems=0 except `ii-c` (uses
`.append`: outside the translated subset, reported); every `iii-*` / `A-iii-*` (semantic change) problems>=1.
"""
import atexit, json, os, subprocess, sys, time
VERIF = os.path.dirname(os.path.dirname(os.path.abspath(__file__)))
WT = f'/tmp/wt/genselftest-{os.getpid()}'
subprocess.run(['git', '-C', '/repo', 'worktree', 'add', WT, 'HEAD'], stdout=subprocess.DEVNULL, stderr=subprocess.DEVNULL, check=True)
atexit.register(lambda: subprocess.run(['git', '-C', '/repo', 'worktree', 'remove', '--force', WT],
                                       stdout=subprocess.DEVNULL, stderr=subprocess.DEVNULL))
F = os.path.join(WT, 'fcapy/context/bintable.py')
ORIG = subprocess.run(['git', '-C', '/repo', 'show', 'HEAD:fcapy/context/bintable.py'], stdout=subprocess.PIPE, text=True).stdout
LISTS_START = ORIG.index('class BinTableLists')
LISTS_END = ORIG.index('class BinTableNumpy')

def run(name, edits, prop='C05'):
    src = ORIG
    if name.startswith('A-'):      # edits of AbstractBinTable
        head, body, tail = '', src[:LISTS_START], src[LISTS_START:]
    else:
        head, body, tail = src[:LISTS_START], src[LISTS_START:LISTS_END], src[LISTS_END:]
    for old, new, count in edits:
        assert body.count(old) >= 1, (name, old)
        body = body.replace(old, new, count)
    open(F, 'w').write(head + body + tail)
    t0 = time.time()
    p = subprocess.run(['/venv/bin/python', 'harness/genside.py', '--check', prop], cwd=VERIF,
                       env=dict(os.environ, FCAPY_REPO=WT), stdout=subprocess.PIPE, stderr=subprocess.PIPE, text=True)
    open(F, 'w').write(ORIG)
    try:
        d = json.loads(p.stdout[p.stdout.index('{'):])
    except Exception:
        print(name, 'FAILED TO RUN', p.stdout[-500:], p.stderr[-1500:]); return
    print(f'== {name} [{prop}]: regenerated_equal={d["regenerated_equal"]} changed={d["changed"]} elaborated={d["elaborated"]} '
          f'seconds={d["seconds"]} problems={len(d["problems"])}')
    for q in d['problems']:
        print('     PROBLEM:', q[:420])

TESTS = {
 'i-comments-docstrings-hints': [
   ('    def _all_per_column(self, rows: List[int] = None, columns: List[int] = None) -> Row_DType:\n',
    '    def _all_per_column(self, rows=None, columns: "Sequence[int]" = None):\n        """Column-wise conjunction.\n\n        (a docstring)\n        """\n\n        # a comment\n', 1),
   ('            if not any(vals):  # All values are False\n', '            if not any(vals):\n\n                # nothing left\n', 1),
   ('    def _sum(self, rows: List[int] = None, columns: List[int] = None) -> int:\n', '    def _sum(self, rows: List[int] = None, columns: List[int] = None) -> "int":\n        # total\n', 1)],
 'ii-a-rename-local': [
   ('            vals = [v & row[col_i] for v, col_i in zip(vals, columns)]\n            if not any(vals):  # All values are False\n                break\n        return vals\n',
    '            acc = [v & row[col_i] for v, col_i in zip(acc, columns)]\n            if not any(acc):  # All values are False\n                break\n        return acc\n', 1),
   ('            vals, columns = [True] * self.width, range(self.width)\n        else:\n            vals = [True] * len(columns)\n',
    '            acc, columns = [True] * self.width, range(self.width)\n        else:\n            acc = [True] * len(columns)\n', 1)],
 'ii-b-swap-and-operands': [('v & row[col_i]', 'row[col_i] & v', 1)],
 'ii-c-explicit-loop-append': [
   ('            return [all(self.data[i]) for i in rows]\n',
    '            out = []\n            for i in rows:\n                out.append(all(self.data[i]))\n            return out\n', 1)],
 'ii-d-drop-break (semantics-preserving)': [
   ('            if not any(vals):  # All values are False\n                break\n', '', 1)],
 'ii-e-rename-loop-var-and-row': [
   ('        for i in rows:\n            row = self.data[i]\n            vals = [v | row[col_i] for v, col_i in zip(vals, columns)]\n',
    '        for r in rows:\n            line = self.data[r]\n            vals = [v | line[c] for v, c in zip(vals, columns)]\n', 1)],
 'ii-f-any-per-row-via-generator-free-rewrite': [
   ('            return [any(self.data[i]) for i in rows]\n', '            return [any(self.data[k]) for k in rows]\n', 1)],
 'iii-a-wrong-early-exit (not all)': [('            if not any(vals):  # All values are False\n', '            if not all(vals):\n', 1)],
 'iii-b-zip-swapped': [('for v, col_i in zip(vals, columns)]\n            if not any', 'for v, col_i in zip(columns, vals)]\n            if not any', 1)],
 'iii-c-init-false-height': [('            vals, columns = [True] * self.width, range(self.width)\n', '            vals, columns = [False] * self.height, range(self.width)\n', 1)],
 'iii-d-init-true-height': [('            vals, columns = [True] * self.width, range(self.width)\n', '            vals, columns = [True] * self.height, range(self.width)\n', 1)],
 'iii-e-or-instead-of-and': [('v & row[col_i]', 'v | row[col_i]', 1)],
 'iii-f-all-returns-true-early': [('                if not all(self.data[i]):\n                    return False\n', '                if not all(self.data[i]):\n                    return True\n', 1)],
 'iii-g-sum-off-by-one': [('v + int(row[col_i])', 'v + int(row[col_i]) + 1', 1)],
 'iii-h-any-row-uses-all': [('            return [any(self.data[i]) for i in rows]\n', '            return [all(self.data[i]) for i in rows]\n', 1)],
 'iii-i-invert-identity': [('[[not v for v in row] for row in self.data]', '[[v for v in row] for row in self.data]', 1)],
 'iii-j-and-becomes-or': [('[[a and b for a, b in zip(row_a, row_b)]', '[[a or b for a, b in zip(row_a, row_b)]', 1)],
 'iii-k-get-row-wrong-index': [('            return [row[col] for col in column_slicer]\n', '            return [row[row_idx] for col in column_slicer]\n', 1)],
 'A-ii-rename-iterator (harmless)': [
   ('        flg_all = self.all(axis, rows, columns)\n        if axis == 0:\n            iterator = zip(columns, flg_all) if columns is not None else enumerate(flg_all)\n        else:  # axis == 1\n            iterator = zip(rows, flg_all) if rows is not None else enumerate(flg_all)\n        return [i for i, flg in iterator if flg]\n',
    '        flags = self.all(axis, rows, columns)\n        if axis == 0:\n            pairs = enumerate(flags) if columns is None else zip(columns, flags)\n        else:\n            pairs = enumerate(flags) if rows is None else zip(rows, flags)\n        return [k for k, f in pairs if f]\n', 1)],
 'A-iii-all_i-axis0-pairs-with-rows (swapped argument)': [
   ('            iterator = zip(columns, flg_all) if columns is not None else enumerate(flg_all)\n', '            iterator = zip(rows, flg_all) if rows is not None else enumerate(flg_all)\n', 1)],
 'A-iii-all_i-negated-filter': [('        return [i for i, flg in iterator if flg]\n', '        return [i for i, flg in iterator if not flg]\n', 1)],
 'A-iii-all-axis-dispatch-swapped': [
   ('        if axis == 0:\n            return self._all_per_column(rows, columns)\n        if axis == 1:\n            return self._all_per_row(rows, columns)\n',
    '        if axis == 0:\n            return self._all_per_row(rows, columns)\n        if axis == 1:\n            return self._all_per_column(rows, columns)\n', 1)],
 'A-iii-any_i-uses-all': [('        flg_any = self.any(axis, rows, columns)\n', '        flg_any = self.all(axis, rows, columns)\n', 1)],
 'iii-l-lists-overrides-all_i': [
   ('    def __invert__(self) -> \'BinTableLists\':\n', '    def all_i(self, axis, rows=None, columns=None):\n        return []\n\n    def __invert__(self) -> \'BinTableLists\':\n', 1)],
}
if __name__ == '__main__':
    sel = sys.argv[1:]
    for name, edits in TESTS.items():
        if sel and not any(s in name for s in sel if not s.startswith('prop=')):
            continue
        run(name, edits, next((s[5:] for s in sel if s.startswith('prop=')), 'C05'))

"""casp_stream — correspondence check between the code-shaped Lean model `Fca.Model.Caspailleur` and the real code.

Real code under test (never re-implemented here):
  * `caspailleur.order.topological_sorting / check_topologically_sorted (alias test_topologically_sorted) /
    sort_intents_inclusion / inverse_order`, `caspailleur.io.isets2bas` (third party, /venv site-packages);
  * `fcapy.algorithms.lattice_construction.order_extents_comparison` (from $FCAPY_REPO, default /repo).
Lean side: driver handlers `Casp.topo`, `Casp.sortIntents`, `Casp.inverse`, `Casp.isets2bas`, `Casp.orderExtents`
(`lean/Fca/Drv/Casp.lean`).  Bitarrays travel as lists of 0/1.

A case is a JSON-able dict with a 'stream' and a 'kind' in {'oe','topo','si','inv','isets'}.  An 'oe' case runs the real
`order_extents_comparison` AND every intermediate caspailleur step by hand (exactly as the function chains them); every
level is compared with the corresponding handler, fed with the implementation's own output of the previous level.

Environment:
  FCAPY_REPO=<dir>     import fcapy from that tree (scratch worktree for mutation tests)
  CASP_OVERRIDE=<dir>  <dir> is put at the front of sys.path before caspailleur is imported (a scratch COPY of the
                       package under <dir>/caspailleur/ is then used, also by fcapy: it imports caspailleur by name)

Stand-alone run:  cd <verif> && /venv/bin/python -m harness.casp_stream --tier quick [--seed N] [--jobs J]
"""
import argparse
import collections
import itertools
import json
import os
import random
import sys
import time
import warnings

_HERE = os.path.dirname(os.path.abspath(__file__))


def _setup_paths():
    """harness/ (for leanside), $FCAPY_REPO (fcapy) and $CASP_OVERRIDE (caspailleur) in front of sys.path."""
    if _HERE not in sys.path:
        sys.path.insert(0, _HERE)
    repo = os.environ.get('FCAPY_REPO', '/repo')
    mod = sys.modules.get('fcapy')
    if mod is None or not os.path.abspath(getattr(mod, '__file__', '') or '').startswith(os.path.abspath(repo) + os.sep):
        if mod is not None:
            for k in [k for k in sys.modules if k == 'fcapy' or k.startswith('fcapy.')]:
                del sys.modules[k]
        if repo in sys.path:
            sys.path.remove(repo)
        sys.path.insert(0, repo)
    ov = os.environ.get('CASP_OVERRIDE')
    if ov:
        ov = os.path.abspath(ov)
        if ov in sys.path:
            sys.path.remove(ov)
        sys.path.insert(0, ov)
        mod = sys.modules.get('caspailleur')
        if mod is not None and not os.path.abspath(getattr(mod, '__file__', '') or '').startswith(ov + os.sep):
            for k in [k for k in sys.modules if k == 'caspailleur' or k.startswith('caspailleur.')]:
                del sys.modules[k]
            # modules of fcapy that bound caspailleur names at import time must re-bind them
            for k in [k for k in sys.modules if k.startswith('fcapy.algorithms')]:
                del sys.modules[k]


_setup_paths()
import leanside  # noqa: E402

REQUESTS_NEED_IMPL = True      # requests(case, impl_out): lower-level handlers are fed with the implementation's values
CHUNK = 500
KINDS = ('oe', 'topo', 'si', 'inv', 'isets')

RULE = ('oe: a list of extents (lists of object indexes) handed to order_extents_comparison as FormalConcepts; '
        'ex-closed = every non-empty intersection-closed family of subsets of {0,1,2} in every listing order (size <= 5 quick, '
        '<= 7 thorough; larger: sorted, reversed, seeded permutations); ex-any = every ordered list of <= 3 distinct subsets '
        'and every 4-subset family (closed or not); rnd-* = concept extents mined by close_by_one from seeded random tables '
        '(<= 8x8), listed in miner / shuffled / reversed / size-sorted order, pruned (unclosed), with a duplicated extent '
        '(dup), without the full extent (notop); rnd-any = seeded arbitrary duplicate-free families containing the full extent; big = universes of 64 / 65 (129) objects.  topo / si / inv / isets: direct '
        'calls of the caspailleur routines incl. duplicates, unsorted, ragged, empty and out-of-range inputs.')


class _Mods:
    pass


_M = None


def _mods():
    """Late import of the implementation (after the path set-up; once per process)."""
    global _M
    if _M is None:
        m = _Mods()
        with warnings.catch_warnings():
            warnings.simplefilter('ignore')
            from bitarray import frozenbitarray
            import caspailleur.order as order
            import caspailleur.io as cio
            import caspailleur.base_functions as cbf
            from fcapy.lattice.formal_concept import FormalConcept
            from fcapy.algorithms import lattice_construction as lca
        m.fb, m.order, m.cio, m.cbf, m.FormalConcept, m.lca = frozenbitarray, order, cio, cbf, FormalConcept, lca
        _M = m
    return _M


def provenance():
    m = _mods()
    import fcapy
    return dict(fcapy=os.path.dirname(fcapy.__file__), caspailleur=os.path.dirname(m.order.__file__),
                driver=leanside.DRIVER)


# ---------------------------------------------------------------------------------------------------
# canonical forms
# ---------------------------------------------------------------------------------------------------

def _bits(ba):
    return [1 if b else 0 for b in ba]


def _bitss(bas):
    return [_bits(b) for b in bas]


def _err(e):
    return {'err': type(e).__name__}


# ---------------------------------------------------------------------------------------------------
# implementation side
# ---------------------------------------------------------------------------------------------------

def _topo_level(m, els, asc, as_function_does=False):
    """topological_sorting + the two check values, in the shape of the `Casp.topo` reply."""
    try:
        if as_function_does:   # order_extents_comparison: positional default, deprecated alias
            s, mp = m.order.topological_sorting(els)
            chk = m.order.test_topologically_sorted(s)
            chk_in = m.order.test_topologically_sorted(els)
        else:
            s, mp = m.order.topological_sorting(els, asc)
            chk = m.order.check_topologically_sorted(s, asc)
            chk_in = m.order.check_topologically_sorted(els, asc)
    except Exception as e:
        return _err(e), None
    return dict(sorted=_bitss(s), map=[int(i) for i in mp], check=bool(chk), check_in=bool(chk_in)), s


def _si_level(m, intents):
    """sort_intents_inclusion(.., return_transitive_order=True) in the shape of the `Casp.sortIntents` reply, plus
    'plain' = the result of the call without the flag (what order_extents_comparison uses)."""
    try:
        lat, trans = m.order.sort_intents_inclusion(intents, return_transitive_order=True)
    except Exception as e:
        return _err(e), None
    out = dict(lattice=_bitss(lat), trans=_bitss(trans))
    try:
        out['plain'] = _bitss(m.order.sort_intents_inclusion(intents))
    except Exception as e:
        out['plain'] = _err(e)
    return out, lat


def _inv_level(m, order):
    try:
        return dict(inv=_bitss(m.order.inverse_order(order)))
    except Exception as e:
        return _err(e)


def _impl_oe(m, case):
    cs = case['cs']
    concepts = [m.FormalConcept(extent_i=tuple(e), extent=tuple(str(x) for x in e), intent_i=(), intent=()) for e in cs]
    if [list(c.extent_i) for c in concepts] != [list(e) for e in cs]:
        raise RuntimeError('FormalConcept changed the extent it was given')
    out = {}
    try:
        d = m.lca.order_extents_comparison(concepts)
        out['top'] = dict(keys=[int(k) for k in d.keys()],
                          dict={str(int(k)): sorted(int(x) for x in v) for k, v in d.items()})
    except Exception as e:
        out['top'] = _err(e)
    # the same chain by hand, level by level
    try:
        n = max(len(c.extent_i) for c in concepts)
    except Exception as e:
        out['n_objects'] = _err(e)
        return out
    out['n_objects'] = int(n)
    try:
        bas = list(m.cbf.isets2bas([c.extent_i for c in concepts], n))
        out['bas'] = dict(bas=_bitss(bas))
    except Exception as e:
        out['bas'] = _err(e)
        return out
    out['topo_desc'], _ = _topo_level(m, bas, False)
    out['topo'], s = _topo_level(m, bas, True, as_function_does=True)
    if s is None:
        return out
    out['si'], lat = _si_level(m, s)
    if lat is None:
        return out
    out['inv'] = _inv_level(m, lat)
    return out


def impl(case):
    """Run the REAL functions; canonical JSON-able output; an exception at a level -> {'err': class name}."""
    m = _mods()
    k = case['kind']
    with warnings.catch_warnings():
        warnings.simplefilter('ignore')
        if k == 'oe':
            return _impl_oe(m, case)
        if k == 'topo':
            return dict(out=_topo_level(m, [m.fb(e) for e in case['els']], bool(case['asc']))[0])
        if k == 'si':
            return dict(out=_si_level(m, [m.fb(e) for e in case['intents']])[0])
        if k == 'inv':
            return dict(out=_inv_level(m, [m.fb(e) for e in case['order']]))
        if k == 'isets':
            try:
                return dict(out=dict(bas=_bitss(list(m.cio.isets2bas([tuple(s) for s in case['isets']], case['length'])))))
            except Exception as e:
                return dict(out=_err(e))
    raise ValueError(f'unknown kind {k!r}')


# ---------------------------------------------------------------------------------------------------
# Lean side
# ---------------------------------------------------------------------------------------------------

def _plan(case, io):
    """[(level label, driver request)] — the lower levels of an 'oe' case take the implementation's own output of the
    level before as their input (so each routine is compared on exactly the value the real chain handed to it)."""
    k = case['kind']
    if k == 'topo':
        return [('out', dict(op='Casp.topo', els=case['els'], asc=bool(case['asc'])))]
    if k == 'si':
        return [('out', dict(op='Casp.sortIntents', intents=case['intents']))]
    if k == 'inv':
        return [('out', dict(op='Casp.inverse', order=case['order']))]
    if k == 'isets':
        return [('out', dict(op='Casp.isets2bas', isets=case['isets'], length=case['length']))]
    cs = case['cs']
    plan = [('top', dict(op='Casp.orderExtents', cs=cs))]
    if not isinstance(io, dict) or not isinstance(io.get('n_objects'), int):
        return plan
    plan.append(('bas', dict(op='Casp.isets2bas', isets=cs, length=io['n_objects'])))
    bas = io.get('bas', {}).get('bas')
    if bas is None:
        return plan
    plan.append(('topo', dict(op='Casp.topo', els=bas, asc=True)))
    plan.append(('topo_desc', dict(op='Casp.topo', els=bas, asc=False)))
    srt = io.get('topo', {}).get('sorted')
    if srt is None:
        return plan
    plan.append(('si', dict(op='Casp.sortIntents', intents=srt)))
    lat = io.get('si', {}).get('lattice')
    if lat is None:
        return plan
    plan.append(('inv', dict(op='Casp.inverse', order=lat)))
    return plan


def requests(case, io=None):
    if io is None:
        io = impl(case)
    return [r for _, r in _plan(case, io)]


# ---------------------------------------------------------------------------------------------------
# judge
# ---------------------------------------------------------------------------------------------------

def py_flags(cs):
    """(distinct, closed, in_range) computed here — cross-checks the driver's decision procedures."""
    sets = [frozenset(e) for e in cs]
    fs = set(sets)
    distinct = len(fs) == len(sets)
    closed = all((a & b) in fs for a in fs for b in fs)
    n = max((len(e) for e in cs), default=None)
    in_range = n is not None and all(x < n for e in cs for x in e)
    return distinct, closed, in_range


# what a stream promises about (distinct, closed, in_range); None = no promise
EXPECT = {'ex-closed': (True, True, None), 'rnd-closed': (True, True, True), 'rnd-unclosed': (True, None, None),
          'rnd-dup': (False, None, None), 'rnd-any': (True, None, True), 'big-closed': (True, True, True)}


def _fail(kind, detail):
    return dict(ok=False, kind=kind, detail=detail)


def _cmp_level(label, impl_v, reply):
    """None when equal, else a description."""
    if impl_v is None:
        return f'{label}: the implementation side holds no value for a level the driver was asked about'
    iv = dict(impl_v)
    plain = iv.pop('plain', None)
    if plain is not None and 'lattice' in iv and plain != iv['lattice']:
        return (f'{label}: sort_intents_inclusion(x) = {plain} differs from the first component of '
                f'sort_intents_inclusion(x, return_transitive_order=True) = {iv["lattice"]}')
    if iv != reply:
        return f'{label}: implementation {json.dumps(iv)} model {json.dumps(reply)}'
    return None


def judge(case, io, replies):
    plan = _plan(case, io)
    if len(plan) != len(replies):
        return _fail('harness', f'{len(replies)} replies for {len(plan)} requests')
    for (lab, _), r in zip(plan, replies):
        if not isinstance(r, dict) or 'bad' in r:
            return _fail('harness', f'driver rejected the {lab} request: {json.dumps(r)[:300]}')
    rep = {lab: r for (lab, _), r in zip(plan, replies)}
    if case['kind'] != 'oe':
        d = _cmp_level(case['kind'], io.get('out'), rep['out'])
        return _fail('correspondence', d) if d else dict(ok=True)

    cs = case['cs']
    n = len(cs)
    q = rep['top']
    flags = (q['distinct'], q['closed'], q['in_range'])
    if flags != py_flags(cs):
        return _fail('harness', f'(distinct, closed, in_range): driver {flags}, harness {py_flags(cs)}')
    exp = EXPECT.get(case['stream'])
    if exp is not None and any(e is not None and e != f for e, f in zip(exp, flags)):
        return _fail('harness', f'stream {case["stream"]} promises (distinct, closed, in_range) = {exp}, the case has {flags}')
    top, model, spec = io['top'], q['model'], q['spec']
    if all(flags):
        # hypotheses of Fca.C12.order_extents_comparison_code_exact: the dictionary is pinned by the specification
        good = ('dict' in top and sorted(top['keys']) == list(range(n))
                and all(top['dict'].get(str(i)) == spec[i] for i in range(n)))
        if not good:
            return _fail('property', f'order_extents_comparison on a closed duplicate-free in-range family returned '
                                     f'{json.dumps(top)}; lower covers are {json.dumps(spec)}')
        mgood = ('keys' in model and sorted(model['keys']) == list(range(n)) and len(model['vals']) == n
                 and all(dict(zip(model['keys'], model['vals'])).get(i) == spec[i] for i in range(n)))
        if not mgood:
            return _fail('harness', f'model {json.dumps(model)} differs from the specification {json.dumps(spec)} although the '
                                    f'hypotheses of the theorem hold')
    # correspondence, top level
    if 'err' in model or 'err' in top:
        if model != top:
            return _fail('correspondence', f'top: implementation {json.dumps(top)} model {json.dumps(model)}')
    else:
        if top['keys'] != model['keys']:
            return _fail('correspondence', f'top: key insertion order: implementation {top["keys"]} model {model["keys"]}')
        mv = {str(k): v for k, v in zip(model['keys'], model['vals'])}
        if top['dict'] != mv:
            return _fail('correspondence', f'top: implementation {json.dumps(top["dict"])} model {json.dumps(mv)}')
    # correspondence, every lower level
    if not isinstance(io.get('n_objects'), int):
        if io.get('n_objects') != model:
            return _fail('correspondence', f'n_objects: implementation {io.get("n_objects")} model {json.dumps(model)}')
        return dict(ok=True)
    for lab in ('bas', 'topo', 'topo_desc', 'si', 'inv'):
        if lab in rep:
            d = _cmp_level(lab, io.get(lab), rep[lab])
            if d:
                return _fail('correspondence', d)
        elif lab in io:
            return _fail('harness', f'level {lab} was run by the implementation side but not requested')
    # the chain by hand must end like the function itself
    ends = [io[lab]['err'] for lab in ('bas', 'topo', 'si', 'inv') if isinstance(io.get(lab), dict) and 'err' in io[lab]]
    if ends and top.get('err') != ends[0]:
        return _fail('harness', f'by-hand chain stops with {ends[0]} but order_extents_comparison gave {json.dumps(top)}')
    return dict(ok=True)


# ---------------------------------------------------------------------------------------------------
# bookkeeping
# ---------------------------------------------------------------------------------------------------

_PAYLOAD = {'oe': ('cs',), 'topo': ('els', 'asc'), 'si': ('intents',), 'inv': ('order',), 'isets': ('isets', 'length')}


def key(case):
    return [case['kind']] + [case[f] for f in _PAYLOAD[case['kind']]]


def nontrivial(case):
    k = case['kind']
    if k == 'oe':
        return len(case['cs']) >= 3
    if k == 'topo':
        return len(case['els']) >= 2
    if k == 'si':
        return len(case['intents']) >= 2 and any(any(r) for r in case['intents'])
    if k == 'inv':
        return any(any(r) for r in case['order'])
    return any(case['isets'])


def branch(case, io, replies):
    k = case['kind']
    if 'harness_exc' in io:
        return [f'{k}:harness_exc']
    if k != 'oe':
        out = io.get('out', {})
        lab = out.get('err', 'ok')
        labs = [f'{k}:{lab}']
        if k == 'topo':
            labs.append('topo:' + ('asc' if case['asc'] else 'desc'))
            if len({tuple(e) for e in case['els']}) < len(case['els']):
                labs.append('topo:dups')
            if 'check_in' in out:
                labs.append('topo:input-' + ('sorted' if out['check_in'] else 'unsorted'))
        if k == 'si' and len({len(e) for e in case['intents']}) > 1:
            labs.append('si:ragged')
        if k == 'inv' and case['order'] and len(case['order']) != len(case['order'][0]):
            labs.append('inv:non-square')
        return labs
    top = io['top']
    q = replies[0] if replies else {}
    d, c, r = q.get('distinct'), q.get('closed'), q.get('in_range')
    hyp = 'hyp:' + ''.join(ch if f else '-' for ch, f in zip('dcr', (d, c, r)))
    if 'err' in top:
        return [f'oe:{top["err"]}', f'oe:{top["err"]}:{hyp}', 'oe:' + hyp]
    if d and c and r:
        return ['oe:ok-closed', 'oe:' + hyp]
    spec = q.get('spec', [])
    right = (sorted(top['keys']) == list(range(len(spec)))
             and all(top['dict'].get(str(i)) == spec[i] for i in range(len(spec))))
    return ['oe:ok-unclosed-' + ('right' if right else 'wrong'), 'oe:' + hyp]


def signature(case, io, replies, verdict):
    lab = verdict.get('detail', '').split(':', 1)[0][:24]
    return f"CASP:{case['kind']}:{case['stream']}:{verdict.get('kind')}:{lab}"


def shrink(case):
    f = _PAYLOAD[case['kind']][0]
    xs = case[f]
    for i in range(len(xs)):
        yield dict(case, **{f: xs[:i] + xs[i + 1:]})


# ---------------------------------------------------------------------------------------------------
# generators (every random choice from the one random.Random(seed))
# ---------------------------------------------------------------------------------------------------

def _subsets(n):
    return [list(s) for r in range(n + 1) for s in itertools.combinations(range(n), r)]


def _closed_families(n):
    subs = [frozenset(s) for s in _subsets(n)]
    for mask in range(1, 1 << len(subs)):
        fam = [subs[i] for i in range(len(subs)) if mask >> i & 1]
        fs = set(fam)
        if all((a & b) in fs for a in fam for b in fam):
            yield [sorted(s) for s in fam]


def _oe(stream, cs, **kw):
    return dict(stream=stream, kind='oe', cs=[list(e) for e in cs], **kw)


def _gen_ex_closed(tier, rng):
    full = 5 if tier == 'quick' else 7
    nperm = {6: 120, 7: 60, 8: 60} if tier == 'quick' else {8: 5000}
    for fam in _closed_families(3):
        k = len(fam)
        if k <= full:
            for p in itertools.permutations(fam):
                yield _oe('ex-closed', p)
        else:
            srt = sorted(fam, key=lambda e: (len(e), e))
            seen = {tuple(map(tuple, srt)), tuple(map(tuple, srt[::-1]))}
            yield _oe('ex-closed', srt)
            yield _oe('ex-closed', srt[::-1])
            for _ in range(nperm[k]):
                p = rng.sample(fam, k)
                t = tuple(map(tuple, p))
                if t not in seen:
                    seen.add(t)
                    yield _oe('ex-closed', p)


def _gen_ex_any(tier, rng):
    subs = _subsets(3)
    yield _oe('ex-any', [])
    for k in (1, 2, 3):
        for p in itertools.permutations(subs, k):
            yield _oe('ex-any', p)
    for fam in itertools.combinations(subs, 4):
        yield _oe('ex-any', fam)
    if tier != 'quick':
        for fam in itertools.combinations(subs, 4):
            for p in itertools.permutations(fam):
                yield _oe('ex-any', p)
        for k in (5, 6, 7):
            for fam in itertools.combinations(subs, k):
                yield _oe('ex-any', fam)
                yield _oe('ex-any', rng.sample(fam, k))


def _random_family(rng, nmax, mmax, cap):
    """Extents of the concepts of a seeded random table, in close_by_one's order."""
    from fcapy.context import FormalContext
    from fcapy.algorithms import concept_construction as cca
    while True:
        n, m = rng.randint(1, nmax), rng.randint(1, mmax)
        dens = rng.choice((0.3, 0.5, 0.7, 0.85))
        rows = [[rng.random() < dens for _ in range(m)] for _ in range(n)]
        exts = [[int(g) for g in c.extent_i] for c in cca.close_by_one(FormalContext(data=rows))]
        if len(exts) <= cap:
            return n, exts


def _scramble(rng, e):
    e = list(e)
    rng.shuffle(e)
    return e


def _gen_random(tier, rng):
    quick = tier == 'quick'
    rounds = 450 if quick else 4000
    nmax, mmax, cap = (8, 8, 40) if quick else (10, 8, 70)
    for _ in range(rounds):
        n, exts = _random_family(rng, nmax, mmax, cap)
        k = len(exts)
        top = sorted(exts, key=len)[-1]
        bot = sorted(exts, key=len)[0]
        shuf = rng.sample(exts, k)
        yield _oe('rnd-closed', exts)
        yield _oe('rnd-closed', shuf)
        yield _oe('rnd-closed', exts[::-1])
        yield _oe('rnd-closed', sorted(exts, key=lambda e: (len(e), e)))
        yield _oe('rnd-closed', [_scramble(rng, e) for e in rng.sample(exts, k)])       # element order inside an extent
        # pruned sub-lists
        for mode in ('any', 'top', 'bottom'):
            drop = set(map(tuple, rng.sample(exts, min(k - 1, rng.randint(1, 3))))) if k > 1 else set()
            if mode == 'top':
                drop.add(tuple(top))
            if mode == 'bottom':
                drop.add(tuple(bot))
            rest = [e for e in rng.sample(exts, k) if tuple(e) not in drop]
            if rest:
                yield _oe('rnd-unclosed', rest)
        # drop a proper meet: the intersection of two incomparable extents (top stays, so the list stays in range)
        pairs = [(a, b) for a in exts for b in exts if a < b and not set(a) <= set(b) and not set(b) <= set(a)]
        if pairs:
            a, b = rng.choice(pairs)
            meet = sorted(set(a) & set(b))
            yield _oe('rnd-unclosed', [e for e in shuf if e != meet])
            yield _oe('rnd-unclosed', [e for e in exts if e != meet])
        # a duplicated extent (same listing / another element order); an extent listing an object twice
        src = rng.choice(exts)
        d1 = list(shuf)
        d1.insert(rng.randint(0, k), list(src))
        yield _oe('rnd-dup', d1)
        big = [e for e in exts if len(e) >= 2]
        if big:
            src = rng.choice(big)
            d2 = list(shuf)
            d2.insert(rng.randint(0, k), src[::-1] if rng.random() < 0.5 else _scramble(rng, src))
            yield _oe('rnd-dup', d2)
            i = rng.randrange(k)
            if shuf[i]:
                d3 = [list(e) for e in shuf]
                d3[i] = d3[i] + [rng.choice(d3[i])]
                yield _oe('rnd-dupelem', d3)
        # without the full extent: n_objects = max(len(extent_i)) falls short of the number of objects
        if k > 1:
            yield _oe('rnd-notop', [e for e in shuf if e != top])
            yield _oe('rnd-notop', [e for e in exts if (n - 1) not in e] or [[]])
            g = rng.randrange(n)
            rest = [e for e in shuf if g not in e]
            if rest:
                yield _oe('rnd-notop', rest)


def _gen_any(tier, rng):
    """Arbitrary duplicate-free families that contain the full extent (in range), mostly not intersection-closed."""
    for _ in range(1500 if tier == 'quick' else 20000):
        n = rng.randint(2, 7)
        dens = rng.choice((0.3, 0.5, 0.7))
        fam = {tuple(g for g in range(n) if rng.random() < dens) for _ in range(rng.randint(2, 9))}
        fam.add(tuple(range(n)))
        fam = [list(e) for e in fam]
        yield _oe('rnd-any', rng.sample(fam, len(fam)))


def _close(sets):
    fs = set(sets)
    while True:
        new = {a & b for a in fs for b in fs} - fs
        if not new:
            return fs
        fs |= new


def _gen_big(tier, rng):
    sizes = (64, 65) if tier == 'quick' else (64, 65, 128, 129)
    for N in sizes:
        marks = sorted({0, 1, 2, 31, 32, 33, 63, 64, 65, N - 1, N} & set(range(N + 1)))
        chain = [list(range(k)) for k in marks]
        yield _oe('big-closed', chain)
        yield _oe('big-closed', chain[::-1])
        yield _oe('big-closed', rng.sample(chain, len(chain)))
        yield _oe('big-notop', chain[:-1])                               # still a prefix chain: in range
        yield _oe('big-notop', [list(range(N - 3, N)), [N - 1], []])      # indexes beyond the largest length
        yield _oe('big-notop', [[N - 1], []])
        if N <= 65:
            full = [list(range(k)) for k in range(N + 1)]
            yield _oe('big-closed', full)
            yield _oe('big-closed', rng.sample(full, len(full)))
        # co-atoms around the word boundary + everything they generate
        for _ in range(6 if tier == 'quick' else 20):
            gens = [frozenset(range(N)) - {g} for g in rng.sample([0, 1, 62, 63, N - 2, N - 1] + [rng.randrange(N)], 3)]
            gens += [frozenset(g for g in range(N) if rng.random() < 0.8) for _ in range(rng.randint(1, 2))]
            fam = [sorted(s) for s in _close(set(gens) | {frozenset(range(N))})]
            yield _oe('big-closed', rng.sample(fam, len(fam)))
            yield _oe('big-closed', sorted(fam, key=lambda e: (len(e), e)))
            cut = rng.sample(fam, len(fam))[:-1]
            yield _oe('big-any', cut)
            yield _oe('big-any', cut + [list(rng.choice(cut))])


def _tiny_bitlists():
    return [[]] + [list(t) for L in (1, 2) for t in itertools.product((0, 1), repeat=L)]


def _rand_bits(rng, L, dens=0.5):
    return [int(rng.random() < dens) for _ in range(L)]


def _gen_topo(tier, rng):
    two = [list(t) for t in itertools.product((0, 1), repeat=2)]
    for k in range(4):
        for els in itertools.product(two, repeat=k):
            for asc in (True, False):
                yield dict(stream='topo-ex', kind='topo', els=[list(e) for e in els], asc=asc)
    three = [list(t) for t in itertools.product((0, 1), repeat=3)]
    for els in itertools.permutations(three, 3):
        for asc in (True, False):
            yield dict(stream='topo-ex', kind='topo', els=[list(e) for e in els], asc=asc)
    for _ in range(600 if tier == 'quick' else 6000):
        L = rng.choice((0, 1, 2, 3, 4, 5, 6, 8, 9))
        pool = [_rand_bits(rng, L, rng.choice((0.3, 0.5, 0.7))) for _ in range(rng.randint(1, 6))]
        els = [list(rng.choice(pool)) for _ in range(rng.randint(0, 9))]          # duplicates on purpose
        yield dict(stream='topo-rnd', kind='topo', els=els, asc=rng.random() < 0.5)
    for _ in range(150 if tier == 'quick' else 1500):
        els = [_rand_bits(rng, rng.randint(0, 5)) for _ in range(rng.randint(1, 7))]   # ragged lengths
        yield dict(stream='topo-ragged', kind='topo', els=els, asc=rng.random() < 0.5)
    for L in (64, 65):
        els = [_rand_bits(rng, L, d) for d in (0.1, 0.5, 0.5, 0.9, 0.0, 1.0)]
        for asc in (True, False):
            yield dict(stream='topo-rnd', kind='topo', els=els + [list(els[1])], asc=asc)


def _count_sorted(rng, els):
    els = rng.sample(els, len(els))
    return sorted(els, key=sum)          # stable: ties keep the shuffled order


def _gen_si(tier, rng):
    tiny = _tiny_bitlists()
    yield dict(stream='si-ex', kind='si', intents=[])
    for k in (1, 2, 3):
        for els in itertools.product(tiny, repeat=k):       # sorted or not, ragged or not, duplicates or not
            yield dict(stream='si-ex', kind='si', intents=[list(e) for e in els])
    three = [list(t) for t in itertools.product((0, 1), repeat=3)]
    for k in (2, 3, 4):
        for fam in itertools.combinations(three, k):
            srt = sorted(fam, key=sum)
            yield dict(stream='si-ex', kind='si', intents=[list(e) for e in srt])
            yield dict(stream='si-ex', kind='si', intents=[list(e) for e in _count_sorted(rng, list(fam))])
    q = tier == 'quick'
    for _ in range(700 if q else 7000):
        L = rng.choice((0, 1, 2, 3, 4, 5, 6, 7))
        dens = rng.choice((0.3, 0.5, 0.7))
        els = [_rand_bits(rng, L, dens) for _ in range(rng.randint(1, 9))]
        if rng.random() < 0.3 and els:
            els.append(list(rng.choice(els)))
        yield dict(stream='si-sorted', kind='si', intents=_count_sorted(rng, els))
    for _ in range(200 if q else 2000):
        L = rng.randint(1, 6)
        els = [_rand_bits(rng, L) for _ in range(rng.randint(2, 8))]
        yield dict(stream='si-unsorted', kind='si', intents=rng.sample(els, len(els)))
    for _ in range(400 if q else 4000):
        # ragged: count-sorted, lengths differ; sometimes only the length differs (no set bit beyond len(intents[0]))
        L = rng.randint(0, 5)
        els = [_rand_bits(rng, L) for _ in range(rng.randint(1, 6))]
        i = rng.randrange(len(els))
        mode = rng.choice(('longer0', 'longer1', 'shorter', 'mixed'))
        if mode == 'longer0':
            els[i] = els[i] + [0] * rng.randint(1, 3)
        elif mode == 'longer1':
            els[i] = els[i] + [0] * rng.randint(0, 2) + [1]
        elif mode == 'shorter':
            els[i] = els[i][:rng.randint(0, max(0, L - 1))]
        else:
            els = [_rand_bits(rng, rng.randint(0, 5)) for _ in range(rng.randint(1, 6))]
        yield dict(stream='si-ragged', kind='si', intents=_count_sorted(rng, els))
    for L in (64, 65):
        els = [[1] * k + [0] * (L - k) for k in (0, 1, 63, 64, L)[: 5 if L == 65 else 4]]
        els += [[0] * (L - 1) + [1], [0] * (L - 2) + [1, 1]]
        yield dict(stream='si-sorted', kind='si', intents=_count_sorted(rng, els))


def _gen_inv(tier, rng):
    tiny = _tiny_bitlists()
    yield dict(stream='inv-ex', kind='inv', order=[])
    for k in (1, 2, 3):
        for rows in itertools.product(tiny, repeat=k):
            yield dict(stream='inv-ex', kind='inv', order=[list(r) for r in rows])
    q = tier == 'quick'
    for _ in range(700 if q else 7000):
        r, c = rng.randint(1, 7), rng.randint(0, 7)
        if rng.random() < 0.4:
            c = r
        dens = rng.choice((0.1, 0.3, 0.6))
        yield dict(stream='inv-rnd', kind='inv', order=[_rand_bits(rng, c, dens) for _ in range(r)])
    for _ in range(200 if q else 2000):
        r = rng.randint(1, 6)
        yield dict(stream='inv-ragged', kind='inv', order=[_rand_bits(rng, rng.randint(0, 6), 0.3) for _ in range(r)])
    for n in (64, 65):
        yield dict(stream='inv-rnd', kind='inv', order=[_rand_bits(rng, n, 0.05) for _ in range(n)])
        yield dict(stream='inv-rnd', kind='inv', order=[_rand_bits(rng, n, 0.05) for _ in range(n - 1)])


def _gen_isets(tier, rng):
    for length in range(4):
        pool = [list(t) for k in range(3) for t in itertools.product(range(length + 1), repeat=k)]
        for s in pool:
            yield dict(stream='isets-ex', kind='isets', isets=[s], length=length)
        for a, b in itertools.product(pool, repeat=2):
            if len(a) + len(b) <= 3:
                yield dict(stream='isets-ex', kind='isets', isets=[a, b], length=length)
    yield dict(stream='isets-ex', kind='isets', isets=[], length=0)
    yield dict(stream='isets-ex', kind='isets', isets=[], length=3)
    for _ in range(500 if tier == 'quick' else 5000):
        length = rng.choice((0, 1, 2, 3, 5, 8, 63, 64, 65))
        hi = length + (1 if rng.random() < 0.3 else -1)
        isets = [[rng.randint(0, max(0, hi)) for _ in range(rng.randint(0, 5))] for _ in range(rng.randint(0, 5))]
        yield dict(stream='isets-rnd', kind='isets', isets=isets, length=length)


def cases(tier='quick', seed=0):
    """Exhaustive small scope first, then the seeded random streams, then the direct low-level streams."""
    rng = random.Random(seed)
    for g in (_gen_ex_closed, _gen_ex_any, _gen_random, _gen_any, _gen_big, _gen_topo, _gen_si, _gen_inv, _gen_isets):
        yield from g(tier, rng)


gen = cases   # gen(tier, seed) of the props-module interface (boost is not used)


# ---------------------------------------------------------------------------------------------------
# stand-alone runner
# ---------------------------------------------------------------------------------------------------

def evaluate(chunk):
    """[(case, impl_out, replies, verdict)] for a list of cases (one driver process per call)."""
    ios, reqs, spans = [], [], []
    for c in chunk:
        try:
            io = impl(c)
        except Exception as e:   # the harness itself failing on the implementation side
            io = {'harness_exc': type(e).__name__, 'msg': str(e)[:300]}
        ios.append(io)
        rs = requests(c, io)
        spans.append((len(reqs), len(reqs) + len(rs)))
        reqs.extend(rs)
    replies = leanside.drive(reqs)
    out = []
    for c, io, (a, b) in zip(chunk, ios, spans):
        rep = replies[a:b]
        if 'harness_exc' in io:
            v = _fail('harness', f'implementation side raised {io["harness_exc"]}: {io["msg"]}')
        else:
            v = judge(c, io, rep)
        out.append((c, io, rep, v))
    return out


def _work(chunk):
    res = evaluate(chunk)
    hist = collections.Counter()
    fails = []
    for c, io, rep, v in res:
        for b in branch(c, io, rep):
            hist[b] += 1
        if not v['ok']:
            fails.append((c, io, rep, v))
    return len(chunk), hist, fails[:50], len(fails)


def main(argv=None):
    ap = argparse.ArgumentParser(description=__doc__.split('\n')[0])
    ap.add_argument('--tier', choices=('quick', 'thorough'), default='quick')
    ap.add_argument('--seed', type=int, default=int(os.environ.get('VERIF_SEED', '0') or 0))
    ap.add_argument('--jobs', type=int, default=1)
    ap.add_argument('--show', type=int, default=10, help='number of disagreements printed in full')
    a = ap.parse_args(argv)
    t0 = time.time()
    print('provenance:', json.dumps(provenance()))
    per_stream, per_kind, seen, dups, nontriv = collections.Counter(), collections.Counter(), set(), 0, 0
    chunks, cur = [], []
    for c in cases(a.tier, a.seed):
        per_stream[c['stream']] += 1
        per_kind[c['kind']] += 1
        k = json.dumps(key(c), separators=(',', ':'))
        if k in seen:
            dups += 1
        seen.add(k)
        nontriv += bool(nontrivial(c))
        cur.append(c)
        if len(cur) >= CHUNK:
            chunks.append(cur)
            cur = []
    if cur:
        chunks.append(cur)
    total = sum(per_stream.values())
    t1 = time.time()
    print(f'tier={a.tier} seed={a.seed} jobs={a.jobs}: {total} cases ({len(seen)} distinct, {nontriv} non-trivial) in '
          f'{len(chunks)} chunks; generated in {t1 - t0:.1f}s')
    if a.jobs > 1:
        import multiprocessing
        with multiprocessing.Pool(min(a.jobs, 4)) as pool:
            results = pool.map(_work, chunks, chunksize=1)
    else:
        results = [_work(ch) for ch in chunks]
    hist, fails, nfail, done = collections.Counter(), [], 0, 0
    for n, h, f, nf in results:
        done += n
        hist.update(h)
        fails.extend(f)
        nfail += nf
    print('cases per stream:')
    for s, n in per_stream.items():
        print(f'  {s:14s} {n}')
    print('cases per kind:', dict(per_kind))
    print('branch histogram:')
    for b, n in sorted(hist.items()):
        print(f'  {b:34s} {n}')
    bykind = collections.Counter((v['kind'], c['stream']) for c, _, _, v in fails)
    print(f'evaluated {done} cases in {time.time() - t1:.1f}s (total {time.time() - t0:.1f}s); disagreements: {nfail}')
    if nfail:
        print('disagreements by (kind, stream) [first 50 per chunk]:', {f'{k}/{s}': n for (k, s), n in sorted(bykind.items())})
        for c, io, rep, v in fails[:a.show]:
            print('--- disagreement', v['kind'])
            print('case   :', json.dumps(c))
            print('impl   :', json.dumps(io))
            print('replies:', json.dumps(rep))
            print('detail :', v['detail'])
        print(f'FAIL {nfail} disagreement(s)')
        return 1
    print('OK model == implementation at every level on every case')
    return 0


if __name__ == '__main__':
    sys.exit(main())

"""Line coverage of the anchored functions of a property on a sample of this run's cases.

Anchors in properties.jsonl are `file:a-b,c-d` line ranges at the pinned commit; they are mapped
once to function qualnames (harness/anchored_funcs.json, `python covsample.py --record`), and at
run time the functions are located by name in /repo's current source.  Diagnostic only: a
function that the sample never enters is reported in evidence as not validated by this run.
"""
import ast
import json
import os
import re
import subprocess
import sys

HERE = os.path.dirname(os.path.abspath(__file__))
VERIF = os.path.dirname(HERE)
REPO = os.environ.get('FCAPY_REPO', '/repo')
FUNCS = os.path.join(HERE, 'anchored_funcs.json')
PINNED = '1681cbf'


def _functions(src):
    out = []

    def walk(node, prefix):
        for ch in ast.iter_child_nodes(node):
            if isinstance(ch, (ast.FunctionDef, ast.AsyncFunctionDef)):
                q = prefix + ch.name
                out.append((q, ch.lineno, ch.end_lineno))
                walk(ch, q + '.')
            elif isinstance(ch, ast.ClassDef):
                walk(ch, prefix + ch.name + '.')
            else:
                walk(ch, prefix)
    walk(ast.parse(src), '')
    return out


def record():
    res = {}
    for line in open(os.path.join(VERIF, 'properties.jsonl')):
        p = json.loads(line)
        funcs = set()
        for item in p['anchors'].get('mechanism', []) + p['anchors'].get('state', []):
            for m in re.finditer(r'([\w/\.]+\.py):([\d,\-\s]+)', item.get('where', '')):
                f = m.group(1)
                src = subprocess.run(['git', '-C', '/repo', 'show', f'{PINNED}:{f}'], stdout=subprocess.PIPE, text=True).stdout
                if not src:
                    continue
                fl = _functions(src)
                for rng in m.group(2).split(','):
                    rng = rng.strip()
                    if not rng:
                        continue
                    a, _, b = rng.partition('-')
                    a, b = int(a), int(b or a)
                    for q, lo, hi in fl:
                        if lo <= b and a <= hi:
                            # keep the innermost functions only later; record all overlapping
                            funcs.add((f, q))
        res[p['id']] = sorted(funcs)
    json.dump(res, open(FUNCS, 'w'), indent=1)
    print({k: len(v) for k, v in res.items()})


def measure(prop, mod, cases):
    """Run `mod.impl` on the cases under coverage; return {file::func: [executed, statements]} + never-entered list."""
    try:
        import coverage
    except Exception as e:  # coverage not available: say so, never fail the check
        return dict(error=f'coverage unavailable: {e}')
    if not os.path.exists(FUNCS):
        return dict(error='anchored_funcs.json missing')
    funcs = json.load(open(FUNCS)).get(prop, [])
    files = sorted({f for f, _ in funcs})
    cov = coverage.Coverage(data_file=None, include=[os.path.join(REPO, f) for f in files], branch=False)
    cov.start()
    try:
        for c in cases:
            try:
                mod.impl(c)
            except Exception:
                pass
    finally:
        cov.stop()
    out, never = {}, []
    for f in files:
        path = os.path.join(REPO, f)
        try:
            _, statements, _, missing, _ = cov.analysis2(path)
            fl = _functions(open(path).read())
        except Exception as e:
            out[f] = f'analysis failed: {e}'
            continue
        st, ms = set(statements), set(missing)
        for ff, q in funcs:
            if ff != f:
                continue
            rng = [(lo, hi) for qq, lo, hi in fl if qq == q]
            if not rng:
                out[f'{f}::{q}'] = 'function no longer present'
                continue
            lo, hi = rng[0]
            body = {l for l in st if lo < l <= hi}
            ex = body - ms
            out[f'{f}::{q}'] = [len(ex), len(body)]
            if body and not ex:
                never.append(f'{f}::{q}')
    return dict(sample_size=len(cases), functions=out, never_entered=never)


if __name__ == '__main__':
    if '--record' in sys.argv:
        record()

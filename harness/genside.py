"""genside — the second tie between the Python source and the Lean models: source-derived definitions.

`harness/py2lean.py` translates the functions listed in `harness/gen_targets.json` from the CURRENT Python source into
Lean; `lean/Fca/Gen/Equiv*.lean` prove each generated definition equal to the hand-written model.  This module asks,
for one property, whether that is still so for the source as it is NOW:

  check_generated(prop) -> dict(problems=[...], regenerated_equal=bool, targets=[...], seconds=float, ...)

  * the regenerated text of the targets serving `prop` (and of the generated functions they call) is byte-identical to
    the committed `lean/Fca/Gen/Generated*.lean` (one file per unit of `gen_targets.json`)  ->  no problem: the compiled
    library (`lake build`, run by the audit) already certifies the equivalence;
  * otherwise the new definitions of the units involved and the text of the `lean/Fca/Gen/Equiv*.lean` files that hold a
    `-- @target` section of a target in scope (plus the Gen files those import) are elaborated together in a scratch
    file (fresh namespace, nothing under lean/Fca/ is written): success -> no problem (a harmless rewrite: the
    equivalence proof still goes through for the new source); an error in the definition or in the equivalence theorems
    of a target serving `prop`, or an `Untranslatable` construct in it -> one problem string naming the function and the
    first Lean error.

  python harness/genside.py --regen       rewrite lean/Fca/Gen/Generated*.lean from $FCAPY_REPO (maintenance)
  python harness/genside.py --check C05   print the dict
"""
import json
import os
import re
import shutil
import subprocess
import sys
import time

HERE = os.path.dirname(os.path.abspath(__file__))
VERIF = os.path.dirname(HERE)
sys.path.insert(0, HERE)

import py2lean  # noqa: E402

LEAN_DIR = os.path.join(VERIF, 'lean')
GEN_DIR = os.path.join(LEAN_DIR, 'Fca', 'Gen')
NS, SCRATCH_NS = py2lean.NAMESPACE, 'Fca.GenScratch.Lists'
ELAB_TIMEOUT_S = 900


def _env():
    e = dict(os.environ)
    e.pop('PYTHONPATH', None)
    return e


def _deps(blocks):
    """lean name -> set of generated functions its text calls"""
    names = list(blocks)
    return {k: {n for n in names if n != k and v and re.search(re.escape(f'{NS}.{n}') + r'\b', v)}
            for k, v in blocks.items()}


def _closure(start, deps):
    seen, todo = set(), list(start)
    while todo:
        k = todo.pop()
        if k not in seen:
            seen.add(k)
            todo.extend(deps.get(k, ()))
    return seen


def _split_imports(text):
    imports, rest = [], []
    for line in text.split('\n'):
        (imports if re.match(r'\s*import\s+\S+\s*$', line) else rest).append(line)
    return [l.split()[1] for l in imports], '\n'.join(rest)


def _sections(lines):
    """line number (1-based) -> target name, from `-- @target f` markers (a section lasts until the next marker)"""
    cur, out = None, {}
    for k, line in enumerate(lines, 1):
        m = re.match(r'\s*-- @target (\S+)', line)
        if m:
            cur = m.group(1)
        elif re.match(r'end\s+\S+\s*$', line):
            cur = None
        out[k] = cur
    return out


def _equiv_files():
    """module name -> (path, imports, body) of every lean/Fca/Gen/Equiv*.lean"""
    out = {}
    for f in sorted(os.listdir(GEN_DIR)):
        if f.startswith('Equiv') and f.endswith('.lean'):
            im, body = _split_imports(open(os.path.join(GEN_DIR, f)).read())
            out['Fca.Gen.' + f[:-5]] = (os.path.join(GEN_DIR, f), im, body)
    return out


def _plan(cfg, scope, by):
    """which generated units and which Equiv files the scratch elaboration needs (in dependency order): the Equiv
    files with a `-- @target` section of a target in scope, everything of lean/Fca/Gen they import, transitively"""
    eq = _equiv_files()
    unit_mod = {py2lean.unit_module(cfg, u): u for u in py2lean.units(cfg)}
    unit_imports = {u: py2lean.units(cfg)[u]['imports'] for u in py2lean.units(cfg)}
    want_eq = {m for m, (_, _, body) in eq.items()
               if any(re.search(r'^\s*-- @target ' + re.escape(k) + r'\s*$', body, re.M) for k in scope)}
    want_units = {by[k].get('unit', '') for k in scope}
    todo = list(want_eq) + [py2lean.unit_module(cfg, u) for u in want_units]
    seen, order = set(), []

    def visit(m):
        if m in seen:
            return
        seen.add(m)
        for d in (eq[m][1] if m in eq else unit_imports[unit_mod[m]] if m in unit_mod else []):
            if d in eq or d in unit_mod:
                visit(d)
        order.append(m)
    for m in sorted(todo):
        visit(m)
    return [unit_mod[m] for m in order if m in unit_mod], [m for m in order if m in eq], eq, set(eq) | set(unit_mod)


def check_generated(prop):
    t0 = time.time()
    cfg = py2lean.load_config()
    by = {t['lean']: dict(t, qualname=t['qualname'] + ''.join(f' [{k} = {v}]' for k, v in sorted(t.get('const', {}).items())))
          for t in cfg['targets']}
    serving = [t['lean'] for t in cfg['targets'] if prop in t.get('props', [])]
    res = dict(problems=[], regenerated_equal=True, targets=[by[k]['qualname'] for k in serving], changed=[],
               untranslatable={}, elaborated=False, seconds=0.0, repo=py2lean.repo())
    if not serving:
        return res
    committed = {}
    for u in py2lean.units(cfg):
        try:
            committed.update(py2lean.split_blocks(open(py2lean.unit_path(cfg, u)).read()))
        except OSError as e:
            res['problems'].append(f'generated definitions: cannot read {py2lean.unit_path(cfg, u)}: {e}')
            res['regenerated_equal'] = False
            return res
    blocks, errors, order = py2lean.translate_all(cfg)
    # what a target's meaning depends on: its own text and the text of the generated functions it calls
    deps = _deps({k: (blocks[k] or committed.get(k)) for k in order})
    scope = _closure(serving, deps)
    changed = [k for k in order if k in scope and (blocks[k] is None or blocks[k].rstrip('\n') != committed.get(k, '').rstrip('\n'))]
    res['changed'] = [by[k]['qualname'] for k in changed]
    res['untranslatable'] = {by[k]['qualname']: str(e) for k, e in errors.items() if k in scope}
    res['regenerated_equal'] = not changed
    for k in order:
        if k in scope and k in errors:
            res['problems'].append(f'generated definition of {by[k]["qualname"]}: {errors[k]} — the source is no longer '
                                   f'in the translated subset, so `{k}_eq_model` cannot be re-checked against it')
    if not changed:
        res['seconds'] = round(time.time() - t0, 2)
        return res

    # ---- elaborate the new definitions together with the equivalence proofs, outside the library
    use = {k: (blocks[k] if blocks[k] is not None else committed.get(k)) for k in order}
    unit_order, eq_order, eq, own = _plan(cfg, scope, by)
    g_imports, g_body = [], ''
    for u in unit_order:
        im, body = _split_imports(py2lean.assemble(cfg, use, order, u))
        g_imports += im
        g_body += body + '\n'
    e_imports, e_body = [], ''
    for m in eq_order:
        e_imports += eq[m][1]
        e_body += eq[m][2] + '\n'
    imports = [m for m in dict.fromkeys(g_imports + e_imports) if m not in own]
    head = [f'import {m}' for m in imports]
    g_lines = g_body.replace(NS, SCRATCH_NS).split('\n')
    e_lines = e_body.replace(NS, SCRATCH_NS).split('\n')
    all_lines = head + g_lines + e_lines
    sect = _sections(all_lines)
    d = os.path.join(VERIF, '.scratch', f'gen-{os.getpid()}')
    os.makedirs(d, exist_ok=True)
    path = os.path.join(d, 'GenCheck.lean')
    try:
        with open(path, 'w') as f:
            f.write('\n'.join(all_lines) + '\n')
        try:
            p = subprocess.run(['lake', 'env', 'lean', path], cwd=LEAN_DIR, env=_env(), stdout=subprocess.PIPE,
                               stderr=subprocess.STDOUT, text=True, timeout=ELAB_TIMEOUT_S)
            out, rc = p.stdout, p.returncode
        except subprocess.TimeoutExpired:
            out, rc = f'{path}:1:0: error: elaboration did not finish within {ELAB_TIMEOUT_S}s', 1
        res['elaborated'] = True
        first = {}          # target (or None) -> first error
        for m in re.finditer(r'^' + re.escape(path) + r':(\d+):(\d+): error: (.*(?:\n(?!\S+\.lean:\d+:\d+: ).*)*)', out, re.M):
            k = sect.get(int(m.group(1)))
            first.setdefault(k, f'line {m.group(1)}: ' + ' '.join(m.group(3).split())[:400])
        if rc != 0 and not first:
            first[None] = 'lean failed: ' + ' '.join(out.split())[-400:]
        res['lean_errors'] = {str(k): v for k, v in first.items()}
        for k, msg in first.items():
            if k is None:
                res['problems'].append(f'generated definitions: the scratch elaboration failed outside any target section: {msg}')
            elif k in scope and k not in errors:
                # an error in f's section = f's new definition does not elaborate, or `f_eq_model` no longer checks
                res['problems'].append(
                    f'generated definition of {by[k]["qualname"]} changed and `{k}_eq_model` (Fca/Gen/Equiv*.lean) no longer '
                    f'checks against the current source: {msg}')
    finally:
        shutil.rmtree(d, ignore_errors=True)
    res['seconds'] = round(time.time() - t0, 2)
    return res


def regen():
    cfg = py2lean.load_config()
    blocks, errors, order = py2lean.translate_all(cfg)
    by = {t['lean']: t for t in cfg['targets']}
    for u in py2lean.units(cfg):
        with open(py2lean.unit_path(cfg, u), 'w') as f:
            f.write(py2lean.assemble(cfg, blocks, order, u))
        n = sum(1 for k in order if blocks[k] and by[k].get('unit', '') == u)
        print(f'wrote {py2lean.unit_path(cfg, u)}: {n} definitions from {py2lean.repo()}')
    for k, e in errors.items():
        print(f'left out: {k}: {e}', file=sys.stderr)


if __name__ == '__main__':
    if len(sys.argv) >= 2 and sys.argv[1] == '--regen':
        regen()
    elif len(sys.argv) >= 3 and sys.argv[1] == '--check':
        print(json.dumps(check_generated(sys.argv[2].upper()), indent=1, sort_keys=True))
    else:
        print(__doc__)
        sys.exit(2)

"""Drift trigger: has the anchored source of a property been edited since the model was written?

Never an alarm by itself: a drift only makes the run explore more (DESIGN.md section 3.8).
  python drift.py --record    re-records the baseline hashes (done when a model is (re)validated).
"""
import ast
import hashlib
import json
import os
import sys

HERE = os.path.dirname(os.path.abspath(__file__))
VERIF = os.path.dirname(HERE)
REPO = os.environ.get('FCAPY_REPO', '/repo')
BASE = os.path.join(HERE, 'anchor_hashes.json')


def _strip_docstrings(tree):
    for node in ast.walk(tree):
        if isinstance(node, (ast.FunctionDef, ast.ClassDef, ast.AsyncFunctionDef, ast.Module)):
            b = node.body
            if b and isinstance(b[0], ast.Expr) and isinstance(getattr(b[0], 'value', None), ast.Constant) \
                    and isinstance(b[0].value.value, str):
                node.body = b[1:] or [ast.Pass()]
    return tree


def file_hash(rel):
    p = os.path.join(REPO, rel)
    try:
        tree = _strip_docstrings(ast.parse(open(p).read()))
        return hashlib.sha256(ast.dump(tree).encode()).hexdigest()[:16]
    except Exception as e:
        return 'unparsable:' + type(e).__name__


def anchors():
    out = {}
    for line in open(os.path.join(VERIF, 'properties.jsonl')):
        p = json.loads(line)
        out[p['id']] = p['anchors']['files']
    return out


def drifted(prop):
    if not os.path.exists(BASE):
        return []
    base = json.load(open(BASE))
    return [f for f in anchors().get(prop, []) if base.get(f) != file_hash(f)]


if __name__ == '__main__':
    if '--record' in sys.argv:
        files = sorted({f for fs in anchors().values() for f in fs})
        json.dump({f: file_hash(f) for f in files}, open(BASE, 'w'), indent=1, sort_keys=True)
        print('recorded', len(files))
    else:
        for p in sorted(anchors()):
            print(p, drifted(p))

"""vcheck: decide one property.  See DESIGN.md section 4.

  main.py Cxx --tier quick|thorough
  main.py Cxx --replay <file>

Exit 0: property held on everything explored (KNOWN-FINDING lines may be printed).
Exit 1: `VIOLATION property=<id> replay=<path>[ no-failing-input-found]`.
Exit 2: infrastructure failure / timeout (never reported as a pass).
"""
import argparse
import hashlib
import importlib
import json
import multiprocessing as mp
import os
import random
import sys
import threading
import _thread
import time
import traceback

HERE = os.path.dirname(os.path.abspath(__file__))
VERIF = os.path.dirname(HERE)
sys.path.insert(0, HERE)

import leanside  # noqa: E402
import drift     # noqa: E402
import covsample  # noqa: E402
import genside   # noqa: E402

TRUSTED_BASE = [
    'Lean 4.33.0 kernel (leanchecker re-check in the thorough tier)',
    'axioms: propext, Classical.choice, Quot.sound only (audited per theorem with #print axioms)',
    'hand-written Lean model tied to /repo by this run\'s correspondence check (agreement on the explored inputs only)',
    'fcadriver JSON parser/printer and harness canonicalisation',
    'CPython, bitarray, numpy and other third-party semantics are modelled, not verified',
    'harness/py2lean.py (Python->Lean translator of the functions listed in harness/gen_targets.json; its assumptions '
    'A1-A8 are in its docstring): for those functions the Lean definition is regenerated from the current source on every run',
]


def digest(obj):
    return hashlib.blake2b(json.dumps(obj, sort_keys=True, separators=(',', ':')).encode(), digest_size=8).hexdigest()


def load_prop(prop):
    return importlib.import_module(f'props.{prop.lower()}')


def eval_cases(mod, cases):
    """Run impl + Lean on a list of cases; return list of (case, impl_out, replies, verdict)."""
    impl_outs, reqs, spans = [], [], []
    for c in cases:
        # watchdog: an implementation call that never answers (a looping mutant inside an `except Exception` of a
        # harness module, say) would otherwise hang the pool worker and the whole run
        wd = threading.Timer(CASE_TIMEOUT_S, _thread.interrupt_main)
        wd.daemon = True
        try:
            wd.start()
            try:
                io = mod.impl(c)
            finally:
                wd.cancel()
        except KeyboardInterrupt:
            io = {'harness_exc': 'NonTermination', 'msg': f'no answer from the implementation within {CASE_TIMEOUT_S}s',
                  'tb': ''}
        except Exception as e:  # the harness itself failing on the implementation side
            io = {'harness_exc': type(e).__name__, 'msg': str(e)[:300], 'tb': traceback.format_exc()[-1500:]}
        impl_outs.append(io)
        rs = mod.requests(c, io) if getattr(mod, 'REQUESTS_NEED_IMPL', False) else mod.requests(c)
        spans.append((len(reqs), len(reqs) + len(rs)))
        reqs.extend(rs)
    replies = leanside.drive(reqs)
    out = []
    for c, io, (a, b) in zip(cases, impl_outs, spans):
        rep = replies[a:b]
        if 'harness_exc' in io:
            v = dict(ok=False, kind='property', detail=f'implementation raised {io["harness_exc"]}: {io["msg"]}')
        elif any('bad' in r for r in rep):
            v = dict(ok=False, kind='harness', detail='driver rejected request: ' + json.dumps(rep)[:300])
        else:
            v = mod.judge(c, io, rep)
        out.append((c, io, rep, v))
    return out


CASE_TIMEOUT_S = float(os.environ.get('VERIF_CASE_TIMEOUT_S', '600'))

_STOP = None   # multiprocessing.Event shared with the workers (set => skip remaining chunks)


def _work(args):
    prop, chunk = args
    if _STOP is not None and _STOP.is_set():
        return 0, [], {}, [], None, 0
    mod = load_prop(prop)
    res = eval_cases(mod, chunk)
    fails, hist, nontriv = [], {}, []
    known_sigs = {f.get('signature'): f['id'] for f in load_findings(prop) if f.get('signature')}
    for c, io, rep, v in res:
        if not v['ok']:
            sig = None
            if known_sigs and v.get('kind') != 'harness' and hasattr(mod, 'signature'):
                try:
                    sig = mod.signature(c, io, rep, v)
                except Exception:
                    sig = None
            if sig in known_sigs:
                # failures that match a listed known finding are counted, not collected (they must not use up
                # the failure cap that ends a run early)
                hist['known-finding:' + known_sigs[sig]] = hist.get('known-finding:' + known_sigs[sig], 0) + 1
            else:
                fails.append((c, io, rep, v))
        k = mod.branch(c, io, rep) if hasattr(mod, 'branch') else c.get('stream', '?')
        for kk in (k if isinstance(k, (list, tuple)) else [k]):
            hist[kk] = hist.get(kk, 0) + 1
        if mod.nontrivial(c):
            nontriv.append(digest(mod.key(c) if hasattr(mod, 'key') else c))
    # a chunk reports at most a few failure records (large records from many failing cases can stall the pool)
    prop_f = [x for x in fails if x[3].get('kind') == 'property']
    other_f = [x for x in fails if x[3].get('kind') != 'property']
    return len(chunk), prop_f[:5] + other_f[:3], hist, nontriv, (chunk[0] if chunk else None), len(fails)


def chunks(it, size):
    buf = []
    for x in it:
        buf.append(x)
        if len(buf) >= size:
            yield buf
            buf = []
    if buf:
        yield buf


def shrink(mod, case, budget=400, known_sigs=()):
    """Greedy shrinking while the verdict stays a failure of the same kind (and does not turn into a case that
    merely reproduces a listed known finding: a new violation must not be shrunk into an old one)."""
    if not hasattr(mod, 'shrink'):
        return case
    cur = case
    cur_kind = eval_cases(mod, [cur])[0][3].get('kind')
    steps = 0
    improved = True
    while improved and steps < budget:
        improved = False
        cands = list(mod.shrink(cur))
        if not cands:
            break
        for i in range(0, len(cands), 50):
            batch = cands[i:i + 50]
            steps += len(batch)
            try:
                res = eval_cases(mod, batch)
            except Exception:
                continue
            def _sig(c, io, rep, v):
                try:
                    return mod.signature(c, io, rep, v) if hasattr(mod, 'signature') else None
                except Exception:
                    return None
            hit = next((c for c, io, rep, v in res if not v['ok'] and v.get('kind') == cur_kind
                        and (not known_sigs or _sig(c, io, rep, v) not in known_sigs)), None)
            if hit is not None:
                cur = hit
                improved = True
                break
    return cur


def load_findings(prop):
    p = os.path.join(VERIF, 'known_findings.json')
    if not os.path.exists(p):
        return []
    return [f for f in json.load(open(p)) if f.get('property') == prop and f.get('status') == 'known']


def write_replay(prop, payload):
    os.makedirs(os.path.join(VERIF, 'replays'), exist_ok=True)
    path = os.path.join('replays', f'{prop}-{digest(payload)}.json')
    with open(os.path.join(VERIF, path), 'w') as f:
        json.dump(payload, f, indent=1, sort_keys=True, default=str)
    return path


def write_evidence(prop, ev):
    # evidence/ only ever describes runs against /repo itself; runs pointed at a scratch worktree
    # (FCAPY_REPO, used for trying seeded changes) write elsewhere
    sub = 'evidence' if os.environ.get('FCAPY_REPO', '/repo') == '/repo' else os.path.join('.scratch', 'evidence-worktree')
    os.makedirs(os.path.join(VERIF, sub), exist_ok=True)
    with open(os.path.join(VERIF, sub, f'{prop}.json'), 'w') as f:
        json.dump(ev, f, indent=1, sort_keys=True, default=str)


def run_check(prop, tier, seed, jobs, budget_s):
    t0 = time.time()
    mod = load_prop(prop)
    out_lines = []
    violations = []          # (replay_path, no_failing_input_found)

    # ---- step 0: proof obligations -------------------------------------------------------
    aud = leanside.audit(prop)
    # source-derived definitions (py2lean): regenerate from the CURRENT source; still provably equal to the model?
    try:
        gen_defs = genside.check_generated(prop)
    except Exception as e:
        gen_defs = dict(problems=['generated-definition check failed to run: ' + repr(e)[:300]], regenerated_equal=False, targets=[])
    aud['problems'].extend(gen_defs['problems'])
    lc = None
    if tier == 'thorough' and not aud['problems']:
        ok, txt, secs = leanside.leanchecker(prop)
        lc = dict(ok=ok, seconds=round(secs, 1), tail=txt[-300:])
        if not ok:
            aud['problems'].append('leanchecker rejected Fca.Props.%s: %s' % (prop, txt[-500:]))
    proof_ok = not aud['problems'] and aud['obligations'] > 0 and aud['discharged'] == aud['obligations']

    # ---- drift trigger ----------------------------------------------------------------------
    drifted = drift.drifted(prop)
    boost = bool(drifted) or not proof_ok
    if boost:
        budget_s *= 3      # the anchored source was edited (or a proof broke): this run explores more and may take longer

    # ---- step 1: known findings ------------------------------------------------------------
    findings = load_findings(prop)
    stale = []
    for f in findings:
        try:
            c, io, rep, v = eval_cases(mod, [f['case']])[0]
        except Exception as e:
            v = dict(ok=False, kind='harness', detail=repr(e))
        if not v['ok']:
            out_lines.append(f'KNOWN-FINDING: property={prop} {f["id"]}: {f["what_fails"]}')
        else:
            stale.append(f['id'])

    # ---- step 2: correspondence + oracle ---------------------------------------------------
    n_eval, hist, nontriv, samples, fails = 0, {}, set(), [], []
    cov_sample = []
    sample_rng = random.Random(seed ^ 0x5EED)

    def _tap(it):
        # reservoir-sample cases of this run for the anchored-line coverage measurement
        for k, c in enumerate(it):
            if len(cov_sample) < 1500:
                cov_sample.append(c)
            else:
                j = sample_rng.randrange(k + 1)
                if j < 1500:
                    cov_sample[j] = c
            yield c
    gen = _tap(mod.gen(tier, seed, boost))
    timed_out = False
    harness_error = None
    n_fail_total = 0
    try:
        global _STOP
        ctx = mp.get_context('fork')
        _STOP = ctx.Event()

        def work_iter():
            for ch in chunks(gen, getattr(mod, 'CHUNK', 2000)):
                if _STOP.is_set():
                    return
                yield (prop, ch)

        def consume(results):
            nonlocal n_eval, timed_out, n_fail_total
            for n, fl, h, nt, first, nf in results:
                n_eval += n
                n_fail_total += nf
                for x in fl:
                    # keep every property failure (up to a cap) but only a few correspondence-only ones: when model and
                    # implementation merely disagree the run goes on, searching for an input on which the property fails
                    if x[3].get('kind') == 'property':
                        if sum(1 for y in fails if y[3].get('kind') == 'property') < 100:
                            fails.append(x)
                    elif sum(1 for y in fails if y[3].get('kind') != 'property') < 20:
                        fails.append(x)
                for k, v in h.items():
                    hist[k] = hist.get(k, 0) + v
                nontriv.update(nt)
                if first is not None and len(samples) < 6:
                    samples.append(first)
                n_prop = sum(1 for y in fails if y[3].get('kind') == 'property')
                if not _STOP.is_set() and (n_prop >= 100 or time.time() - t0 > budget_s):
                    timed_out = time.time() - t0 > budget_s and not fails
                    _STOP.set()     # workers skip what is left; keep draining, never terminate mid-write

        if jobs > 1:
            with ctx.Pool(jobs) as pool:
                consume(pool.imap_unordered(_work, work_iter()))
        else:
            consume(_work(w) for w in work_iter())
    except Exception as e:
        harness_error = traceback.format_exc()

    # ---- classify failures -----------------------------------------------------------------
    known_hits, new_fails = {k.split(':', 1)[1]: v for k, v in hist.items() if k.startswith('known-finding:')}, []
    seen_sig = set()
    for c, io, rep, v in fails:
        if v.get('kind') == 'harness':
            harness_error = harness_error or v['detail']
            continue
        sig = mod.signature(c, io, rep, v) if hasattr(mod, 'signature') else None
        kf = next((f for f in findings if sig is not None and f.get('signature') == sig), None)
        if kf is not None:
            known_hits[kf['id']] = known_hits.get(kf['id'], 0) + 1
            continue
        if sig in seen_sig and sig is not None:
            continue
        seen_sig.add(sig)
        new_fails.append((c, io, rep, v))
    property_fail = [x for x in new_fails if x[3].get('kind') == 'property']
    corr_fail = [x for x in new_fails if x[3].get('kind') != 'property']

    ksigs = {f.get('signature') for f in findings if f.get('signature')}
    for c, io, rep, v in property_fail[:3]:
        sc = shrink(mod, c, known_sigs=ksigs)
        c2, io2, rep2, v2 = eval_cases(mod, [sc])[0]
        sig = mod.signature(c2, io2, rep2, v2) if hasattr(mod, 'signature') else None
        kf = next((f for f in findings if sig is not None and f.get('signature') == sig), None)
        if kf is not None:
            known_hits[kf['id']] = known_hits.get(kf['id'], 0) + 1
            continue
        path = write_replay(prop, dict(property=prop, kind='property-failure', case=sc, impl_output=io2,
                                       lean_replies=rep2, verdict=v2, seed=seed, tier=tier))
        violations.append((path, False))

    if not violations and corr_fail:
        # correspondence broke but the property was not seen to fail: search (the run above was the
        # search on the real code with the Lean oracle); report no-failing-input-found.
        c, io, rep, v = corr_fail[0]
        sc = shrink(mod, c)
        c2, io2, rep2, v2 = eval_cases(mod, [sc])[0]
        path = write_replay(prop, dict(property=prop, kind='correspondence', case=sc, impl_output=io2,
                                       lean_replies=rep2, verdict=v2, seed=seed, tier=tier,
                                       note='model and implementation disagree on an observable the property '
                                            'does not pin; no input on which the property itself fails was found'))
        violations.append((path, True))

    if not violations and not proof_ok:
        path = write_replay(prop, dict(property=prop, kind='proof-obligation', problems=aud['problems'],
                                       theorems=aud['theorems'], seed=seed, tier=tier,
                                       note=f'searched {n_eval} inputs on the real code with the oracle; none fails'))
        violations.append((path, True))

    try:
        anchored_cov = covsample.measure(prop, mod, cov_sample)
    except Exception as e:
        anchored_cov = dict(error=repr(e))
    wall = time.time() - t0
    ev = dict(
        property_id=prop, tier=tier, seed=seed, level='proof', wall_s=round(wall, 2),
        violations=len(violations),
        coverage=dict(
            obligations=aud['obligations'], discharged=aud['discharged'],
            checker_cmd=f'cd lean && lake build && lake env lean <#print axioms of every theorem in Fca/Props/{prop}.lean>'
                        + (' && lake env leanchecker Fca.Props.%s' % prop if tier == 'thorough' else ''),
            trusted_base=TRUSTED_BASE + list(getattr(mod, 'TRUSTED', [])),
            theorems=aud['theorems'], partial_theorems=aud['partial'], proof_problems=aud['problems'],
            leanchecker=lc, generated_definitions=gen_defs,
            evaluations=n_eval, distinct_nontrivial=len(nontriv),
            rule=getattr(mod, 'RULE', ''), samples=samples[:6], exhaustive=bool(getattr(mod, 'EXHAUSTIVE', {}).get(tier)),
            exhaustive_scope=getattr(mod, 'EXHAUSTIVE', {}).get(tier),
            histogram=dict(sorted(hist.items())),
            known_findings_reproduced=[l for l in out_lines], known_finding_hits=known_hits,
            stale_findings=stale, drifted_anchors=drifted, boosted=boost,
            failures_seen=n_fail_total, timed_out=timed_out, harness_error=harness_error,
            explanation=getattr(mod, 'EXPLANATION', ''),
            anchored_function_coverage=anchored_cov,
        ),
        assumptions=list(getattr(mod, 'ASSUMPTIONS', [])),
    )
    write_evidence(prop, ev)

    for l in out_lines:
        print(l)
    if harness_error and not violations:
        print(f'HARNESS-ERROR property={prop}: {str(harness_error)[-1500:]}', file=sys.stderr)
        return 2
    if timed_out and not violations:
        print(f'TIMEOUT property={prop} after {wall:.0f}s ({n_eval} evaluations)', file=sys.stderr)
        return 2
    if violations:
        for path, nofail in violations:
            print(f'VIOLATION property={prop} replay={path}' + (' no-failing-input-found' if nofail else ''))
        return 1
    print(f'OK property={prop} tier={tier} seed={seed} theorems={aud["discharged"]}/{aud["obligations"]} '
          f'evaluations={n_eval} distinct_nontrivial={len(nontriv)} wall={wall:.1f}s')
    return 0


def run_replay(prop, path):
    mod = load_prop(prop)
    payload = json.load(open(path))
    if payload.get('kind') == 'proof-obligation':
        aud = leanside.audit(prop)
        aud['problems'].extend(genside.check_generated(prop)['problems'])
        print(json.dumps(dict(problems=aud['problems'], theorems=aud['theorems']), indent=1))
        return 1 if aud['problems'] else 0
    c, io, rep, v = eval_cases(mod, [payload['case']])[0]
    print(json.dumps(dict(case=c, impl_output=io, lean_replies=rep, verdict=v), indent=1, default=str))
    return 0 if v['ok'] else 1


def main():
    ap = argparse.ArgumentParser()
    ap.add_argument('prop')
    ap.add_argument('--tier', default=os.environ.get('VERIF_TIER', 'quick'), choices=['quick', 'thorough'])
    ap.add_argument('--replay')
    ap.add_argument('--jobs', type=int, default=0)
    a = ap.parse_args()
    prop = a.prop.upper()
    if a.replay:
        sys.exit(run_replay(prop, a.replay))
    seed = int(os.environ.get('VERIF_SEED', '0') or 0)
    jobs = a.jobs or (8 if a.tier == 'quick' else 16)
    budget = float(os.environ.get('VERIF_BUDGET_S', '600' if a.tier == 'quick' else '5400'))
    try:
        rc = run_check(prop, a.tier, seed, jobs, budget)
    except Exception:
        traceback.print_exc()
        rc = 2
    sys.exit(rc)


if __name__ == '__main__':
    main()

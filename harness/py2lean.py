"""py2lean — a small Python → Lean 4 translator for a RESTRICTED, explicitly enumerated subset of Python.

It regenerates, from the CURRENT Python source of the functions listed in `harness/gen_targets.json`, the Lean
definitions of `lean/Fca/Gen/Generated.lean`.  `lean/Fca/Gen/Equiv.lean` / `EquivOps.lean` prove every generated
definition equal to the hand-written model (`f_eq_model`), so every property theorem about the model transfers to the
source-derived definition.  Anything outside the subset is REFUSED with `Untranslatable(construct, line)` — the
translator never guesses.

WHAT IS TRANSLATED (everything else raises `Untranslatable`)
  statements   assignment to local names (`x = e`, `a, b = e1, e2`, `a, b = pair`), `if/elif/else`, `for pat in iter`
               (no `else:` clause), `break`, `continue`, `return e`, `assert e`, `pass`, a docstring.
  expressions  names, `True/False`, non-negative integer literals, `recv.field` for the declared record fields,
               `a[i]` (list, non-negative index), `x if c else y`, `not/and/or` on bools, `& |` on bools, `+` on ints
               and on lists, `list * int`, one comparison `== != < <= > >=`, `x is None / x is not None` (x declared
               `Option`), list displays, 2-tuples, list comprehensions (one `for`; `if` clauses when neither they nor
               the element can raise; nested comprehensions and tuple targets allowed), and the calls `len all any sum
               int(bool) bool(bool) range(n) zip(a, b) enumerate(a)`, `self.m(...)` when `m` is itself a target,
               `self.__class__(rows)` when the record declares a constructor.
  control flow Lean `do`-notation in the monad `Except Fca.PyErr`: `for … do`, `break`, `continue`, early `return`,
               `let mut` for locals re-assigned inside a loop / branch.  An `if` that introduces or re-types locals
               (and contains no `return/break/continue`) becomes `let (w₁, …) ← (if/match … pure (w₁, …))`.
               `if x is None … else …` becomes `match x with | none => … | some x => …` (x is narrowed in the branch;
               `if x is None: …return` followed by more statements puts those statements in the `some` branch).
  specialising a target may fix parameters to constants (`"const": {"axis": 1}`): the parameter disappears from the Lean
               signature, and `if`s whose test is decided by the constants (`axis is None`, `axis == 0`, `axis not in
               {None, 0, 1}`, `not`/`and`/`or` of those) keep only the live branch — the dead branch is NOT translated
               (a comment is left), statements after a live `return` are dropped.  The same mechanism drops
               `if isinstance(x, slice):` for an `x` declared as a list (A1).

WHAT IS ASSUMED (this file joins the trusted base; each item is a modelling decision, not something proved)
  A1 types     parameters have the types declared in `gen_targets.json` (`Bool`, `Nat`, `List T`, `Option T`, `A × B`,
               a record).  In particular integers are NON-NEGATIVE (`Nat`): `a[i]` is `Gen.idx a i`, which raises
               `IndexError` when `i ≥ len(a)`; Python's wrap-around for negative indexes is out of scope.  `int` never
               overflows (Python ints are unbounded, so is `Nat`); `-` is refused (`Nat` subtraction truncates).
               `isinstance(x, slice)` is `False` for an `x` declared as a list: slice arguments of `_get_row /
               _get_column` are outside the translated functions.
  A2 receiver  `self` / `other` are records: `recv.data : List (List Bool)`, `recv.height = len(recv.data)`,
               `recv.width` = the stored width, `recv.shape = (height, width)` — i.e. the Python properties
               `height/width/shape` return what `AbstractBinTable.data.setter` stored, and `len(data[i]) = width` is
               the well-formedness hypothesis `Table.WF` of the theorems, not of the translator.
               `self.__class__(rows)` is `Table.ofRows rows` (rows, width of the first row); `_validate_data` is assumed
               to accept `rows` (it does for rectangular lists of bools — again `WF` on the theorem side).
  A3 builtins  `bool & bool`, `bool | bool`, `a and b`, `a or b`, `not a` on bools are `&& || !` (`and/or` evaluate the
               right operand only when needed; `& |` always evaluate both, left first); `all/any` of a list of bools
               are `List.all/any id`; `sum` of bools counts `True`, `sum` of ints adds; `int(True) = 1`;
               `range(n)` is the list `0..n-1`, `zip` stops at the shorter argument, `enumerate` counts from 0 — all
               used as iterables only (a `range`/`zip` object is never compared, sliced, or mutated);
               `[x] * n` repeats; `==` on lists/tuples/bools/ints is structural equality; `assert` raises
               `AssertionError` (Python is not run with `-O`).  (A module that re-binds one of these builtin names is refused.)
  A4 order     sub-expressions are evaluated left to right, comprehension elements in order; the first exception wins.
  A5 aliasing  there is none: the subset has no mutation of objects (`append`, item assignment, `+=` are refused), so
               Python's reference semantics and Lean's value semantics agree.
  A6 scoping   a name first bound inside a `for`/`if` block and read after the block is refused (Lean blocks are scoped);
               a name bound in only one branch of an `if` and read later is refused (possible `UnboundLocalError`).
  A7 calls     `self.m(args)` is resolved the way Python does for an instance of the receiver's class (the class of the
               target, or its `"self_class"`): first class defining `m` along the single-inheritance chain found in the
               source file; that method must itself be a target (with matching constants); a target `D.m` declared for
               a `"self_class": C` is refused when `C` (or a class between) overrides `m`.  Arguments are positional;
               omitted trailing `Option` parameters are `None`.  No monkey-patching, no `__getattr__`.
  A8 constants a `"const"` specialisation describes the function only for calls with exactly those argument values.
  Not modelled: exceptions other than IndexError/AssertionError, recursion depth, running time, memory.

The output depends only on the AST (not on comments, docstrings, blank lines, annotations, line numbers) and on the
target list, and is deterministic.
"""
import ast
import copy
import json
import os
import re
import sys

HERE = os.path.dirname(os.path.abspath(__file__))
VERIF = os.path.dirname(HERE)
TARGETS = os.path.join(HERE, 'gen_targets.json')
GENERATED = os.path.join(VERIF, 'lean', 'Fca', 'Gen', 'Generated.lean')
NAMESPACE = 'Fca.Gen.Lists'


def repo():
    return os.environ.get('FCAPY_REPO', '/repo')


class Untranslatable(Exception):
    def __init__(self, what, node=None):
        self.what = what
        self.line = getattr(node, 'lineno', None)
        self.func = None
        super().__init__(what)

    def __str__(self):
        where = f'{self.func}: ' if self.func else ''
        return f'Untranslatable: {where}{self.what}' + (f' (line {self.line})' if self.line else '')


class _Fallback(Exception):
    """native `if` not possible (a branch introduces / re-types a local): use the expression form"""


# ---------------------------------------------------------------------------------------------- types
BOOL, NAT = ('Bool',), ('Nat',)


def List_(t):
    return ('List', t)


def parse_type(s, records):
    toks = re.findall(r'[A-Za-z_][A-Za-z_0-9.]*|[()×]', s)
    pos = [0]

    def peek():
        return toks[pos[0]] if pos[0] < len(toks) else None

    def eat():
        pos[0] += 1
        return toks[pos[0] - 1]

    def atom():
        t = eat()
        if t == '(':
            r = typ()
            if eat() != ')':
                raise ValueError(f'bad type {s!r}')
            return r
        if t == 'Bool':
            return BOOL
        if t == 'Nat':
            return NAT
        if t in records:
            return ('Rec', t)
        raise ValueError(f'unknown type {t!r} in {s!r}')

    def app():
        if peek() in ('List', 'Option'):
            h = eat()
            return (h, atom())
        return atom()

    def typ():
        a = app()
        if peek() == '×':
            eat()
            return ('Pair', a, typ())
        return a

    r = typ()
    if pos[0] != len(toks):
        raise ValueError(f'bad type {s!r}')
    return r


def show_type(t, records, top=True):
    k = t[0]
    if k in ('Bool', 'Nat'):
        return k
    if k == 'Rec':
        return records[t[1]]['lean']
    if k in ('List', 'Option'):
        s = f'{k} {show_type(t[1], records, False)}'
    else:
        s = f'{show_type(t[1], records, False)} × {show_type(t[2], records, False)}'
    return s if top else f'({s})'


LEAN_KEYWORDS = set('''at by do else end for from fun have if in let match open show then where with mut def
theorem structure namespace section variable import universe instance class inductive return break continue unless try
catch finally macro syntax notation prefix infix infixl infixr postfix set_option attribute deriving extends private
protected partial unsafe noncomputable abbrev example axiom opaque mutual local using calc nomatch nofun export
Type Sort Prop fun'''.split())


def lname(py):
    return f'«{py}»' if py in LEAN_KEYWORDS else py


# ---------------------------------------------------------------------------------------------- emitted code
class E:
    """a translated expression: prelude statements, a one-line Lean term, its type"""

    def __init__(self, pre, code, ty):
        self.pre, self.code, self.ty = pre, code, ty


class S:
    """one emitted `do` statement; `lines` = [(extra indent, text)]; for binders the first line is the right-hand side"""

    def __init__(self, kind, lines, pat=None, arrow=':='):
        self.kind, self.lines, self.pat, self.arrow = kind, lines, pat, arrow    # kind: let | letmut | set | raw

    def render(self, ind):
        out = []
        head = {'let': f'let {self.pat} {self.arrow} ', 'letmut': f'let mut {self.pat} {self.arrow} ',
                'set': f'{self.pat} {self.arrow} ', 'raw': ''}[self.kind]
        for k, (d, txt) in enumerate(self.lines):
            out.append('  ' * (ind + d) + (head if k == 0 else '') + txt)
        return out


def render(stmts, ind):
    out = []
    for s in stmts:
        out.extend(s.render(ind))
    return out


def flat(stmts, d=0):
    """statements -> [(indent, text)] relative lines"""
    out = []
    for s in stmts:
        head = {'let': f'let {s.pat} {s.arrow} ', 'letmut': f'let mut {s.pat} {s.arrow} ',
                'set': f'{s.pat} {s.arrow} ', 'raw': ''}[s.kind]
        for k, (i, t) in enumerate(s.lines):
            out.append((i + d, (head if k == 0 else '') + t))
    return out


class Var:
    def __init__(self, ty, mut, scope, narrowed=False):
        self.ty, self.mut, self.scope, self.narrowed = ty, mut, scope, narrowed


class Scope:
    def __init__(self, parent, frame, block=False, strict=False):
        # block: body of a `for` / branch of a native `if` (assignments to enclosing variables are mutations);
        # otherwise the root of a frame (function body, branch of an expression-form `if`).
        # strict: a branch of a native `if` that is being tried for a jump-free `if` (must not introduce locals).
        self.parent, self.frame, self.block, self.strict = parent, frame, block, strict
        self.vars, self.dead, self.assigned = {}, set(), []
        self.end = parent.end if parent is not None else (10 ** 9, 0)    # where the frame ends (line, column)

    def lookup(self, name):
        s = self
        while s is not None:
            if name in s.vars:
                return s.vars[name]
            if name in s.dead:
                return 'dead'
            s = s.parent
        return None


class Dead(ast.stmt):
    """marker left where a statically decided `if` dropped an unreachable branch (emitted as a comment)"""
    _fields = ()

    def __init__(self, text, like):
        super().__init__()
        self.text = text
        ast.copy_location(self, like)


def has_jump(stmts):
    return any(isinstance(n, (ast.Return, ast.Break, ast.Continue)) for s in stmts for n in ast.walk(s))


def is_docstring(s):
    return isinstance(s, Dead) or isinstance(s, ast.Expr) and isinstance(s.value, ast.Constant) and isinstance(s.value.value, str)


# ---------------------------------------------------------------------------------------------- the translator
class FunctionTranslator:
    def __init__(self, fn, target, cfg, done, classes):
        # done: [dict(qualname, lean, consts, params (names after self), types, ret)] of the targets translated so far
        # classes: {class name: ClassDef} of the source file (to resolve `self.m` along the single-inheritance chain)
        self.fn, self.target, self.cfg, self.done, self.classes = copy.deepcopy(fn), target, cfg, done, classes
        self.records = cfg['records']
        self.consts = dict(target.get('const', {}))        # parameters fixed to a constant (specialisation)
        self.ntemp = 0
        fn = self.fn
        names = {n.id for n in ast.walk(fn) if isinstance(n, ast.Name)} | {a.arg for a in fn.args.args}
        self.tprefix = 't'
        while any(re.fullmatch(re.escape(self.tprefix) + r'\d+', n) for n in names):
            self.tprefix += '_'
        self.frames = 0

    # ---- helpers
    def find_nested(self, fn):
        # positions of assignments nested in a for/if block: a declaration before one of them must be `let mut`
        self.nested = {}
        for blk in ast.walk(fn):
            if isinstance(blk, (ast.For, ast.If)):
                for sub in blk.body + blk.orelse:
                    for n in ast.walk(sub):
                        if isinstance(n, ast.Assign):
                            for t in n.targets:
                                for nm in ast.walk(t):
                                    if isinstance(nm, ast.Name):
                                        self.nested.setdefault(nm.id, []).append((n.lineno, n.col_offset))

    def ty(self, s):
        return parse_type(s, self.records)

    def show(self, t, top=True):
        return show_type(t, self.records, top)

    def temp(self):
        self.ntemp += 1
        return f'{self.tprefix}{self.ntemp}'

    def needs_mut(self, name, pos, sc):
        """is `name`, bound at source position `pos`, re-assigned later inside a nested block of the same frame?"""
        return any(pos < p <= sc.end for p in self.nested.get(name, []))

    def bad(self, what, node):
        raise Untranslatable(what, node)

    def new_frame(self):
        self.frames += 1
        return self.frames

    # ---- expressions
    def expr(self, n, sc):
        m = getattr(self, 'e_' + type(n).__name__, None)
        if m is None:
            self.bad(f'expression `{type(n).__name__}`', n)
        return m(n, sc)

    def e_Constant(self, n, sc):
        v = n.value
        if v is True or v is False:
            return E([], 'true' if v else 'false', BOOL)
        if isinstance(v, int) and v >= 0:
            return E([], str(v), NAT)
        self.bad(f'constant {v!r}', n)

    def e_Name(self, n, sc):
        if n.id in self.consts and sc.lookup(n.id) is None:
            c = self.consts[n.id]
            return E([], ('true' if c else 'false') if isinstance(c, bool) else str(c), BOOL if isinstance(c, bool) else NAT)
        v = sc.lookup(n.id)
        if v is None:
            self.bad(f'unknown name `{n.id}`', n)
        if v == 'dead':
            self.bad(f'`{n.id}` is read after the block that bound it', n)
        return E([], lname(n.id), v.ty)

    def e_Attribute(self, n, sc):
        r = self.expr(n.value, sc)
        if r.ty[0] != 'Rec' or n.attr not in self.records[r.ty[1]]['fields']:
            self.bad(f'attribute `.{n.attr}`', n)
        f = self.records[r.ty[1]]['fields'][n.attr]
        code = f'{r.code}{f["lean"]}' if f['lean'].startswith('.') else f'({f["lean"]} {r.code})'
        return E(r.pre, code, self.ty(f['type']))

    def e_Subscript(self, n, sc):
        if isinstance(n.slice, (ast.Slice, ast.Tuple)):
            self.bad('slice / tuple subscript', n)
        a, i = self.expr(n.value, sc), self.expr(n.slice, sc)
        if a.ty[0] != 'List' or i.ty != NAT:
            self.bad(f'subscript of {self.show(a.ty)} by {self.show(i.ty)}', n)
        t = self.temp()
        return E(a.pre + i.pre + [S('let', [(0, f'Fca.Gen.idx {a.code} {i.code}')], t, '←')], t, a.ty[1])

    def e_UnaryOp(self, n, sc):
        x = self.expr(n.operand, sc)
        if isinstance(n.op, ast.Not) and x.ty == BOOL:
            return E(x.pre, f'(!{x.code})', BOOL)
        self.bad(f'unary `{type(n.op).__name__}` on {self.show(x.ty)}', n)

    def e_BoolOp(self, n, sc):
        op = '&&' if isinstance(n.op, ast.And) else '||'
        xs = [self.expr(v, sc) for v in n.values]
        if any(x.ty != BOOL for x in xs):
            self.bad('`and/or` on non-bool operands', n)
        acc = xs[-1]
        for x in reversed(xs[:-1]):          # right-nested, short-circuit
            if acc.pre:
                t = self.temp()
                br = flat(acc.pre, 2) + [(2, f'pure {acc.code}')]
                if op == '&&':
                    lines = [(0, f'(if {x.code} then do')] + br + [(1, 'else pure false)')]
                else:
                    lines = [(0, f'(if {x.code} then pure true else do')] + br[:-1] + [(2, br[-1][1] + ')')]
                acc = E(x.pre + [S('let', lines, t, '←')], t, BOOL)
            else:
                acc = E(x.pre, f'({x.code} {op} {acc.code})', BOOL)
        return acc

    def e_BinOp(self, n, sc):
        a, b = self.expr(n.left, sc), self.expr(n.right, sc)
        pre, o = a.pre + b.pre, type(n.op)
        if o in (ast.BitAnd, ast.BitOr) and a.ty == BOOL and b.ty == BOOL:
            return E(pre, f'({a.code} {"&&" if o is ast.BitAnd else "||"} {b.code})', BOOL)
        if o is ast.Add and a.ty == NAT and b.ty == NAT:
            return E(pre, f'({a.code} + {b.code})', NAT)
        if o is ast.Add and a.ty[0] == 'List' and a.ty == b.ty:
            return E(pre, f'({a.code} ++ {b.code})', a.ty)
        if o is ast.Mult and a.ty[0] == 'List' and b.ty == NAT:
            return E(pre, f'(Fca.Gen.listMul {a.code} {b.code})', a.ty)
        self.bad(f'`{o.__name__}` on {self.show(a.ty)}, {self.show(b.ty)}', n)

    def none_test(self, n, sc):
        """`x is None` / `x is not None` on an Option-typed NAME -> (name, True if `is None`) else None"""
        if isinstance(n, ast.Compare) and len(n.ops) == 1 and isinstance(n.ops[0], (ast.Is, ast.IsNot)) \
                and isinstance(n.comparators[0], ast.Constant) and n.comparators[0].value is None \
                and isinstance(n.left, ast.Name):
            v = sc.lookup(n.left.id)
            if isinstance(v, Var) and v.ty[0] == 'Option':
                return n.left.id, isinstance(n.ops[0], ast.Is)
        return None

    def e_Compare(self, n, sc):
        if len(n.ops) != 1:
            self.bad('chained comparison', n)
        nt = self.none_test(n, sc)
        if nt:
            return E([], f'(Option.{"isNone" if nt[1] else "isSome"} {lname(nt[0])})', BOOL)
        a, b, o = self.expr(n.left, sc), self.expr(n.comparators[0], sc), type(n.ops[0])
        pre = a.pre + b.pre
        if o in (ast.Eq, ast.NotEq) and a.ty == b.ty and 'Rec' not in str(a.ty):
            return E(pre, f'({a.code} {"==" if o is ast.Eq else "!="} {b.code})', BOOL)
        sym = {ast.Lt: '<', ast.LtE: '≤', ast.Gt: '>', ast.GtE: '≥'}.get(o)
        if sym and a.ty == NAT and b.ty == NAT:
            return E(pre, f'(decide ({a.code} {sym} {b.code}))', BOOL)
        self.bad(f'comparison `{o.__name__}` on {self.show(a.ty)}, {self.show(b.ty)}', n)

    def cond_expr(self, test, sc, mk_then, mk_else, node):
        """shared by `x if c else y`: returns E; mk_* : scope -> E"""
        nt = self.none_test(test, sc)
        if nt:
            name, is_none = nt
            inner = Scope(sc, sc.frame)
            inner.vars[name] = Var(sc.lookup(name).ty[1], False, inner, narrowed=True)
            e_none, e_some = (mk_then(sc), mk_else(inner)) if is_none else (mk_else(sc), mk_then(inner))
            if e_none.ty != e_some.ty:
                self.bad('branches of a conditional have different types', node)
            if not e_none.pre and not e_some.pre:
                return E([], f'(match {lname(name)} with | none => {e_none.code} | some {lname(name)} => {e_some.code})',
                         e_none.ty)
            t = self.temp()
            lines = [(0, f'(match {lname(name)} with')] + [(1, '| none => do')] + flat(e_none.pre, 2) + \
                [(2, f'pure {e_none.code}'), (1, f'| some {lname(name)} => do')] + flat(e_some.pre, 2) + \
                [(2, f'pure {e_some.code})')]
            return E([S('let', lines, t, '←')], t, e_none.ty)
        c = self.expr(test, sc)
        if c.ty != BOOL:
            self.bad('condition is not a bool (truthiness of other types is not translated)', test)
        a, b = mk_then(sc), mk_else(sc)
        if a.ty != b.ty:
            self.bad('branches of a conditional have different types', node)
        if not a.pre and not b.pre:
            return E(c.pre, f'(if {c.code} then {a.code} else {b.code})', a.ty)
        t = self.temp()
        lines = [(0, f'(if {c.code} then do')] + flat(a.pre, 2) + [(2, f'pure {a.code}'), (1, 'else do')] + \
            flat(b.pre, 2) + [(2, f'pure {b.code})')]
        return E(c.pre + [S('let', lines, t, '←')], t, a.ty)

    def e_IfExp(self, n, sc):
        return self.cond_expr(n.test, sc, lambda s: self.expr(n.body, s), lambda s: self.expr(n.orelse, s), n)

    def e_List(self, n, sc):
        xs = [self.expr(v, sc) for v in n.elts]
        if not xs:
            self.bad('empty list display (its element type is unknown)', n)
        if any(x.ty != xs[0].ty for x in xs):
            self.bad('list display with elements of different types', n)
        return E([s for x in xs for s in x.pre], '[' + ', '.join(x.code for x in xs) + ']', List_(xs[0].ty))

    def e_Tuple(self, n, sc):
        if len(n.elts) != 2:
            self.bad('tuple that is not a pair', n)
        a, b = self.expr(n.elts[0], sc), self.expr(n.elts[1], sc)
        return E(a.pre + b.pre, f'({a.code}, {b.code})', ('Pair', a.ty, b.ty))

    def pattern(self, tgt, ty, sc, node):
        """bind a for/comprehension/assignment target against a type: returns the Lean pattern, declares names"""
        if isinstance(tgt, ast.Name):
            sc.vars[tgt.id] = Var(ty, False, sc)
            return '_' if tgt.id == '_' else lname(tgt.id)
        if isinstance(tgt, ast.Tuple) and len(tgt.elts) == 2 and ty[0] == 'Pair':
            return f'({self.pattern(tgt.elts[0], ty[1], sc, node)}, {self.pattern(tgt.elts[1], ty[2], sc, node)})'
        self.bad(f'target pattern does not match {self.show(ty)}', node)

    def e_ListComp(self, n, sc):
        if len(n.generators) != 1:
            self.bad('comprehension with several `for` clauses', n)
        g = n.generators[0]
        if g.is_async:
            self.bad('async comprehension', n)
        it = self.expr(g.iter, sc)
        if it.ty[0] != 'List':
            self.bad(f'iteration over {self.show(it.ty)}', g.iter)
        inner = Scope(sc, sc.frame)
        pat = self.pattern(g.target, it.ty[1], inner, n)
        conds = [self.expr(c, inner) for c in g.ifs]
        body = self.expr(n.elt, inner)
        if any(c.ty != BOOL for c in conds):
            self.bad('comprehension condition is not a bool', n)
        if conds:
            if body.pre or any(c.pre for c in conds):
                self.bad('comprehension with `if` whose element or condition may raise', n)
            c = ' && '.join(x.code for x in conds)
            return E(it.pre, f'(List.filterMap (fun {pat} => if {c} then some {body.code} else none) {it.code})',
                     List_(body.ty))
        if not body.pre:
            return E(it.pre, f'(List.map (fun {pat} => {body.code}) {it.code})', List_(body.ty))
        t = self.temp()
        lines = [(0, f'List.mapM (fun {pat} => do')] + flat(body.pre, 2) + [(2, f'pure {body.code}) {it.code}')]
        return E(it.pre + [S('let', lines, t, '←')], t, List_(body.ty))

    def e_Call(self, n, sc):
        if n.keywords:
            self.bad('keyword arguments', n)
        f = n.func
        if isinstance(f, ast.Name) and sc.lookup(f.id) is None:
            args = n.args
            if f.id == 'isinstance' and self.static_eval(n) is False:
                return E([], 'false', BOOL)
            xs = [self.expr(a, sc) for a in args]
            pre = [s for x in xs for s in x.pre]
            tys = [x.ty for x in xs]
            one = xs[0].code if xs else None
            if f.id == 'len' and len(xs) == 1 and tys[0][0] == 'List':
                return E(pre, f'(Fca.Gen.len {one})', NAT)
            if f.id in ('all', 'any') and tys == [List_(BOOL)]:
                return E(pre, f'(Fca.Gen.py{f.id.capitalize()} {one})', BOOL)
            if f.id == 'sum' and tys == [List_(BOOL)]:
                return E(pre, f'(Fca.Gen.pySumB {one})', NAT)
            if f.id == 'sum' and tys == [List_(NAT)]:
                return E(pre, f'(Fca.Gen.pySum {one})', NAT)
            if f.id == 'int' and tys == [BOOL]:
                return E(pre, f'(Fca.Gen.intOfBool {one})', NAT)
            if f.id == 'bool' and tys == [BOOL]:
                return E(pre, one, BOOL)
            if f.id == 'range' and tys == [NAT]:
                return E(pre, f'(Fca.Gen.range {one})', List_(NAT))
            if f.id == 'zip' and len(xs) == 2 and tys[0][0] == 'List' and tys[1][0] == 'List':
                return E(pre, f'(Fca.Gen.zip {xs[0].code} {xs[1].code})', List_(('Pair', tys[0][1], tys[1][1])))
            if f.id == 'enumerate' and len(xs) == 1 and tys[0][0] == 'List':
                return E(pre, f'(Fca.Gen.enumerate {one})', List_(('Pair', NAT, tys[0][1])))
            self.bad(f'call `{f.id}(' + ', '.join(self.show(t) for t in tys) + ')`', n)
        if isinstance(f, ast.Attribute) and f.attr == '__class__' and isinstance(f.value, ast.Name):
            r = self.expr(f.value, sc)
            ctor = self.records.get(r.ty[1], {}).get('ctor') if r.ty[0] == 'Rec' else None
            if ctor and len(n.args) == 1:
                x = self.expr(n.args[0], sc)
                if x.ty == self.ty(ctor['arg']):
                    return E(x.pre, f'({ctor["lean"]} {x.code})', r.ty)
            self.bad('constructor call', n)
        if isinstance(f, ast.Attribute) and isinstance(f.value, ast.Name) and f.value.id == 'self':
            return self.self_call(n, f, sc)
        self.bad('call of `' + ast.unparse(f) + '`', n)

    def mro(self):
        """the receiver's class and its ancestors (single inheritance inside the source file)"""
        chain, c = [], self.target.get('self_class') or self.target['qualname'].rsplit('.', 1)[0]
        while c in self.classes and c not in chain:
            chain.append(c)
            bases = self.classes[c].bases
            if len(bases) > 1:
                return None
            c = bases[0].id if bases and isinstance(bases[0], ast.Name) else None
        return chain

    def self_call(self, n, f, sc):
        """`self.m(args)`: `m` is looked up along the receiver's classes; it must itself be a translated target"""
        chain = self.mro()
        if chain is None:
            self.bad('method call on a class with several bases', n)
        owner = next((c for c in chain if any(isinstance(d, ast.FunctionDef) and d.name == f.attr
                                              for d in self.classes[c].body)), None)
        if owner is None:
            self.bad(f'call of `self.{f.attr}`: no class of {chain} defines it', n)

        def static(x):
            if isinstance(x, ast.Constant) and isinstance(x.value, (bool, int)):
                return True, x.value
            if isinstance(x, ast.Name) and x.id in self.consts and sc.lookup(x.id) is None:
                return True, self.consts[x.id]
            return False, None
        for d in self.done:
            if d['qualname'] != f'{owner}.{f.attr}' or len(n.args) > len(d['params']):
                continue
            if d['recv'] != chain[0]:
                continue             # translated for a receiver of another class
            given = dict(zip(d['params'], n.args))
            if any((p not in given) or static(given[p]) != (True, c) for p, c in d['consts'].items()):
                continue
            me = self.expr(f.value, sc)
            pre, codes = list(me.pre), [me.code]
            for p in d['params']:
                if p in d['consts']:
                    continue
                if p in given:
                    x = self.expr(given[p], sc)
                    if x.ty != d['types'][p]:
                        self.bad(f'argument `{p}` of `self.{f.attr}` has type {self.show(x.ty)}, declared '
                                 f'{self.show(d["types"][p])}', n)
                    pre += x.pre
                    codes.append(x.code)
                elif d['types'][p][0] == 'Option':
                    codes.append('none')
                else:
                    self.bad(f'argument `{p}` of `self.{f.attr}` is omitted', n)
            t = self.temp()
            return E(pre + [S('let', [(0, f'{NAMESPACE}.{d["lean"]} ' + ' '.join(codes))], t, '←')], t, d['ret'])
        self.bad(f'call of `self.{f.attr}`: `{owner}.{f.attr}` (with these constant arguments) is not a translated target', n)

    # ---- statements
    def bind(self, e, pat, kind):
        """emit `let pat := e` / `pat := e`, folding a trailing temp binder into it"""
        if e.pre and e.pre[-1].kind == 'let' and e.pre[-1].pat == e.code and e.pre[-1].arrow == '←':
            last = e.pre[-1]
            return e.pre[:-1] + [S(kind, last.lines, pat, '←')]
        return e.pre + [S(kind, [(0, e.code)], pat, ':=')]

    def assign_name(self, name, e, sc, node):
        """one `name = e` in scope sc; returns statements"""
        if name == '_' or name == 'self':
            self.bad(f'assignment to `{name}`', node)
        v = sc.lookup(name)
        own = isinstance(v, Var) and v.scope is sc and not v.narrowed
        if own and v.mut and v.ty == e.ty:
            sc.assigned.append(name)
            return self.bind(e, lname(name), 'set')
        if sc.block and isinstance(v, Var) and not own:
            if v.scope.frame != sc.frame:
                self.bad(f'`{name}` of an enclosing scope is assigned inside a loop inside a jump-free `if` branch', node)
            if v.ty == e.ty and v.mut:
                return self.bind(e, lname(name), 'set')      # mutation of a variable of an enclosing block
            if sc.strict:
                raise _Fallback()
            self.bad(f'`{name}` (a parameter, or re-typed) is re-assigned inside a block that contains '
                     f'return/break/continue', node)
        if sc.strict and not own:
            raise _Fallback()        # a branch introduces a local: the `if` must become an expression
        mut = self.needs_mut(name, (node.lineno, node.col_offset), sc)
        sc.vars[name] = Var(e.ty, mut, sc)
        sc.dead.discard(name)
        sc.assigned.append(name)
        return self.bind(e, lname(name), 'letmut' if mut else 'let')

    def s_Assign(self, n, sc):
        if len(n.targets) != 1:
            self.bad('chained assignment', n)
        tgt = n.targets[0]
        if isinstance(tgt, ast.Name):
            return self.assign_name(tgt.id, self.expr(n.value, sc), sc, n)
        if isinstance(tgt, ast.Tuple) and len(tgt.elts) == 2 and all(isinstance(x, ast.Name) for x in tgt.elts) \
                and tgt.elts[0].id != tgt.elts[1].id:
            e = self.expr(n.value, sc)
            if e.ty[0] != 'Pair':
                self.bad('unpacking of a non-pair', n)
            # simultaneous: evaluate the pair first, then bind both names
            t1, t2 = self.temp(), self.temp()
            a1 = self.assign_name(tgt.elts[0].id, E([], t1, e.ty[1]), sc, n)
            a2 = self.assign_name(tgt.elts[1].id, E([], t2, e.ty[2]), sc, n)
            if len(a1) == 1 and len(a2) == 1 and a1[0].kind == 'let' and a2[0].kind == 'let':
                self.ntemp -= 2
                return e.pre + [S('let', [(0, e.code)], f'({a1[0].pat}, {a2[0].pat})', ':=')]
            return e.pre + [S('let', [(0, e.code)], f'({t1}, {t2})', ':=')] + a1 + a2
        self.bad('assignment target `' + ast.unparse(tgt) + '`', n)

    def s_Return(self, n, sc):
        if n.value is None:
            self.bad('bare `return`', n)
        e = self.expr(n.value, sc)
        if e.ty != self.ret:
            self.bad(f'returns {self.show(e.ty)}, declared {self.show(self.ret)}', n)
        return e.pre + [S('raw', [(0, f'return {e.code}')])]

    def s_Break(self, n, sc):
        return [S('raw', [(0, 'break')])]

    def s_Continue(self, n, sc):
        return [S('raw', [(0, 'continue')])]

    def s_Pass(self, n, sc):
        return []

    def s_Expr(self, n, sc):
        if is_docstring(n):
            return []
        self.bad('expression statement `' + ast.unparse(n)[:40] + '`', n)

    def s_Assert(self, n, sc):
        c = self.expr(n.test, sc)
        if c.ty != BOOL:
            self.bad('assert of a non-bool', n)
        return c.pre + [S('raw', [(0, f'Fca.Gen.pyAssert {c.code}')])]

    def s_For(self, n, sc):
        if n.orelse:
            self.bad('`for … else`', n)
        it = self.expr(n.iter, sc)
        if it.ty[0] != 'List':
            self.bad(f'iteration over {self.show(it.ty)}', n.iter)
        inner = Scope(sc, sc.frame, block=True)
        pat = self.pattern(n.target, it.ty[1], inner, n)
        body = self.block(n.body, inner)
        self.leave(inner, sc)
        lines = [(0, f'for {pat} in {it.code} do')] + (flat(body, 1) or [(1, 'pure ()')])
        return it.pre + [S('raw', lines)]

    def leave(self, inner, outer):
        for k in inner.vars:
            if not isinstance(outer.lookup(k), Var):
                outer.dead.add(k)

    def s_If(self, n, sc):
        if has_jump(n.body + n.orelse):
            return self.if_native(n, sc, False)
        snap = self.ntemp
        try:
            return self.if_native(n, sc, True)
        except _Fallback:
            self.ntemp = snap
            if sc.strict:
                raise
        return self.if_expr(n, sc)

    def branches(self, n, sc, mk):
        """the test of an `if` statement and one scope per branch (`x is None` narrows x in the other branch)"""
        nt = self.none_test(n.test, sc)
        if nt:
            name, is_none = nt
            s_none, s_some = mk(), mk()
            s_some.vars[name] = Var(sc.lookup(name).ty[1], False, s_some, narrowed=True)
            return name, None, ((s_none, n.body), (s_some, n.orelse)) if is_none else ((s_none, n.orelse), (s_some, n.body))
        c = self.expr(n.test, sc)
        if c.ty != BOOL:
            self.bad('condition is not a bool (truthiness of other types is not translated)', n.test)
        return None, c, ((mk(), n.body), (mk(), n.orelse))

    def if_native(self, n, sc, strict):
        name, c, ((s1, st1), (s2, st2)) = self.branches(n, sc, lambda: Scope(sc, sc.frame, block=True, strict=strict))
        b1, b2 = self.block(st1, s1), self.block(st2, s2)
        self.leave(s1, sc)
        self.leave(s2, sc)
        if name:
            lines = [(0, f'match {lname(name)} with'), (0, '| none =>')] + (flat(b1, 1) or [(1, 'pure ()')]) + \
                [(0, f'| some {lname(name)} =>')] + (flat(b2, 1) or [(1, 'pure ()')])
            return [S('raw', lines)]
        lines = [(0, f'if {c.code} then')] + (flat(b1, 1) or [(1, 'pure ()')])
        if b2:
            lines += [(0, 'else')] + flat(b2, 1)
        return c.pre + [S('raw', lines)]

    def if_expr(self, n, sc):
        name, c, ((s1, st1), (s2, st2)) = self.branches(n, sc, lambda: Scope(sc, self.new_frame()))
        for s_, st_ in ((s1, st1), (s2, st2)):
            if st_:
                s_.end = (st_[-1].end_lineno, st_[-1].end_col_offset)
        b1, b2 = self.block(st1, s1), self.block(st2, s2)
        W = []
        for w in s1.assigned + s2.assigned:
            if w not in W:
                W.append(w)
        for w in W:
            v1, v2, v0 = s1.lookup(w), s2.lookup(w), sc.lookup(w)
            if not isinstance(v1, Var) or not isinstance(v2, Var):
                self.bad(f'`{w}` is bound in only one branch of an `if`', n)
            if v1.ty != v2.ty:
                self.bad(f'`{w}` has different types at the end of the two branches of an `if`', n)
            if sc.block and isinstance(v0, Var) and v0.scope is not sc:
                self.bad(f'an `if` inside a block both introduces locals and re-assigns the enclosing `{w}`', n)
        tup = lname(W[0]) if len(W) == 1 else '(' + ', '.join(lname(w) for w in W) + ')'
        l1 = flat(b1, 2) + [(2, f'pure {tup}')]
        l2 = flat(b2, 2) + [(2, f'pure {tup})')]
        if name:
            lines = [(0, f'(match {lname(name)} with'), (1, '| none => do')] + l1 + [(1, f'| some {lname(name)} => do')] + l2
            pre = []
        else:
            lines = [(0, f'(if {c.code} then do')] + l1 + [(1, 'else do')] + l2
            pre = c.pre
        out = pre + [S('let', lines, tup, '←')]
        for w in W:
            mut = self.needs_mut(w, (n.end_lineno, n.end_col_offset), sc)
            sc.vars[w] = Var(s1.lookup(w).ty, mut, sc)
            sc.dead.discard(w)
            sc.assigned.append(w)
            if mut:
                out.append(S('letmut', [(0, lname(w))], lname(w), ':='))
        return out

    # ---- statically decided tests (specialisation to constant parameters; `isinstance(x, slice)` under A1)
    def static_eval(self, n):
        """True / False when the test is decided by the `const` parameters or the declared types, else None"""
        def val(x):
            if isinstance(x, ast.Constant) and (x.value is None or isinstance(x.value, (bool, int))):
                return True, x.value
            if isinstance(x, ast.Name) and x.id in self.consts:
                return True, self.consts[x.id]
            return False, None
        if isinstance(n, ast.UnaryOp) and isinstance(n.op, ast.Not):
            v = self.static_eval(n.operand)
            return None if v is None else not v
        if isinstance(n, ast.BoolOp):
            vs = [self.static_eval(v) for v in n.values]
            if any(v is None for v in vs):
                return None
            return all(vs) if isinstance(n.op, ast.And) else any(vs)
        if isinstance(n, ast.Compare) and len(n.ops) == 1:
            (ka, a), op, r = val(n.left), n.ops[0], n.comparators[0]
            if not ka:
                return None
            if isinstance(op, (ast.In, ast.NotIn)) and isinstance(r, (ast.Set, ast.Tuple, ast.List)):
                items = [val(x) for x in r.elts]
                if all(k for k, _ in items):
                    hit = any(a == b and (a is None) == (b is None) for _, b in items)
                    return hit if isinstance(op, ast.In) else not hit
                return None
            kb, b = val(r)
            if not kb:
                return None
            if isinstance(op, (ast.Is, ast.IsNot)) and (a is None or b is None):
                return ((a is None) == (b is None)) == isinstance(op, ast.Is)
            if isinstance(op, (ast.Eq, ast.NotEq)):
                return (a == b) == isinstance(op, ast.Eq)
            return None
        if isinstance(n, ast.Call) and isinstance(n.func, ast.Name) and n.func.id == 'isinstance' and not n.keywords \
                and len(n.args) == 2 and isinstance(n.args[0], ast.Name) and isinstance(n.args[1], ast.Name) \
                and n.args[1].id == 'slice' and n.args[0].id in self.target['params']:
            t = self.ty(self.target['params'][n.args[0].id])
            t = t[1] if t[0] == 'Option' else t
            if t[0] in ('List', 'Nat', 'Bool'):
                # assumption A1: a declared list / int / bool is not a slice (re-binding it cannot make it one either:
                # no expression of the translated subset denotes a slice)
                return False
        return None

    def fold(self, stmts):
        """drop the branches of statically decided `if`s (they are NOT translated; a comment is left)"""
        out = []
        for k, s in enumerate(stmts):
            if isinstance(s, ast.If):
                v = self.static_eval(s.test)
                if v is not None:
                    out.append(Dead(f'`{ast.unparse(s.test)}` is statically {v}: the other branch is unreachable, not translated', s))
                    chosen = self.fold(s.body if v else s.orelse)
                    out.extend(chosen)
                    if self.terminates(chosen):
                        if any(not is_docstring(x) for x in stmts[k + 1:]):
                            out.append(Dead('the rest of this block is unreachable, not translated', s))
                        break
                    continue
                s.body, s.orelse = self.fold(s.body), self.fold(s.orelse)
            elif isinstance(s, ast.For):
                s.body = self.fold(s.body)
            out.append(s)
        return out

    def s_Dead(self, n, sc):
        return [S('raw', [(0, '-- ' + n.text)])]

    def block(self, stmts, sc):
        out, stmts, k = [], list(stmts), 0
        while k < len(stmts):
            s = stmts[k]
            if isinstance(s, ast.If) and self.none_test(s.test, sc) and not s.orelse and self.terminates(s.body) \
                    and stmts[k + 1:]:
                # `if x is None: …return` followed by the rest  ==  `if x is None: …return  else: rest` (x narrowed there)
                s2 = ast.If(test=s.test, body=s.body, orelse=stmts[k + 1:])
                ast.copy_location(s2, s)
                s2.end_lineno, s2.end_col_offset = stmts[-1].end_lineno, stmts[-1].end_col_offset
                out.extend(self.s_If(s2, sc))
                break
            m = getattr(self, 's_' + type(s).__name__, None)
            if m is None:
                self.bad(f'statement `{type(s).__name__}`', s)
            out.extend(m(s, sc))
            k += 1
        return out

    # ---- the function
    def terminates(self, stmts):
        stmts = [s for s in stmts if not is_docstring(s) and not isinstance(s, ast.Pass)]
        if not stmts:
            return False
        last = stmts[-1]
        if isinstance(last, ast.Return):
            return True
        return isinstance(last, ast.If) and self.terminates(last.body) and self.terminates(last.orelse)

    def translate(self):
        fn, tg = self.fn, self.target
        a = fn.args
        if a.vararg or a.kwarg or a.kwonlyargs or a.posonlyargs:
            self.bad('*args / **kwargs / keyword-only parameters', fn)
        names = [x.arg for x in a.args]
        if sorted(names) != sorted(list(tg['params']) + list(self.consts)):
            self.bad(f'parameters {names} differ from the declared {sorted(list(tg["params"]) + list(self.consts))}', fn)
        # names bound anywhere in the body (a constant parameter / a statically typed parameter must not be re-bound)
        self.rebound = {t.id for n in ast.walk(fn) for t in ast.walk(n) if isinstance(n, (ast.Assign, ast.For, ast.comprehension))
                        and isinstance(t, ast.Name) and isinstance(t.ctx, ast.Store)}
        if self.rebound & set(self.consts):
            self.bad(f'constant parameter(s) {sorted(self.rebound & set(self.consts))} are re-bound', fn)
        defaults = [None] * (len(names) - len(a.defaults)) + list(a.defaults)
        top = Scope(None, 0)
        sig = []
        self.pnames, self.ptypes = [], {}
        for nm, d in zip(names, defaults):
            if nm in self.consts:
                c = self.consts[nm]
                if not isinstance(c, (bool, int)) or (not isinstance(c, bool) and c < 0):
                    self.bad(f'constant for `{nm}` is not a bool / non-negative int', fn)
                continue
            t = self.ty(tg['params'][nm])
            is_none_default = isinstance(d, ast.Constant) and d.value is None
            if d is not None and not is_none_default:
                self.bad(f'default value of `{nm}` other than None', fn)
            if is_none_default and t[0] != 'Option':
                self.bad(f'`{nm}` defaults to None but is not declared Option', fn)
            top.vars[nm] = Var(t, False, top)
            self.pnames.append(nm)
            self.ptypes[nm] = t
            sig.append(f'({lname(nm)} : {self.show(t)})')
        self.ret = self.ty(tg['returns'])
        self.sig_ok = True          # the declared signature matches the source: callers can be translated against it
        cls, meth = tg['qualname'].rsplit('.', 1) if '.' in tg['qualname'] else (None, tg['qualname'])
        if tg.get('self_class') and cls != tg['self_class']:
            chain = self.mro() or []
            owner = next((c for c in chain if any(isinstance(d, ast.FunctionDef) and d.name == meth
                                                  for d in self.classes[c].body)), None)
            if owner != cls:
                self.bad(f'`{meth}` of a {tg["self_class"]} receiver resolves to {owner}.{meth}, not to {cls}.{meth}', fn)
        fn.body = self.fold(fn.body)
        self.find_nested(fn)
        if not self.terminates(fn.body):
            self.bad('the function may fall off its end (returns None)', fn)
        body = self.block(fn.body, top)
        head = f'def {tg["lean"]} ' + ' '.join(sig) + f' : Except Fca.PyErr {self.show(self.ret, False)} := do'
        return [head] + render(body, 1)


BUILTINS_USED = {'len', 'all', 'any', 'sum', 'int', 'bool', 'range', 'zip', 'enumerate', 'isinstance', 'slice'}


def module_level_names(tree):
    out = set()
    for s in tree.body:
        if isinstance(s, (ast.Import, ast.ImportFrom)):
            out |= {(a.asname or a.name).split('.')[0] for a in s.names}
        elif isinstance(s, (ast.FunctionDef, ast.AsyncFunctionDef, ast.ClassDef)):
            out.add(s.name)
        else:
            out |= {n.id for n in ast.walk(s) if isinstance(n, ast.Name) and isinstance(n.ctx, ast.Store)}
    return out


def find_function(tree, qualname):
    node = tree
    for part in qualname.split('.'):
        nxt = [c for c in node.body if isinstance(c, (ast.ClassDef, ast.FunctionDef, ast.AsyncFunctionDef))
               and c.name == part]
        if len(nxt) != 1:
            raise Untranslatable(f'`{qualname}` not found (or defined more than once)')
        node = nxt[0]
    if not isinstance(node, ast.FunctionDef):
        raise Untranslatable(f'`{qualname}` is not a plain function')
    if any(not (isinstance(d, ast.Name) and d.id in ('staticmethod', 'abstractmethod')) for d in node.decorator_list):
        raise Untranslatable(f'`{qualname}` is decorated')
    return node


def load_config(path=TARGETS):
    return json.load(open(path))


def translate_all(cfg=None, root=None):
    """-> (blocks: {lean name: text or None}, errors: {lean name: Untranslatable}, order: [lean names])"""
    cfg = cfg or load_config()
    root = root or repo()
    trees, done, blocks, errors, order = {}, [], {}, {}, []
    for tg in cfg['targets']:
        order.append(tg['lean'])
        try:
            if tg['file'] not in trees:
                try:
                    trees[tg['file']] = ast.parse(open(os.path.join(root, tg['file'])).read())
                except (OSError, SyntaxError) as e:
                    raise Untranslatable(f'cannot parse {tg["file"]}: {type(e).__name__}')
            tree = trees[tg['file']]
            classes = {c.name: c for c in tree.body if isinstance(c, ast.ClassDef)}
            shadowed = BUILTINS_USED & module_level_names(tree)
            if shadowed:
                raise Untranslatable(f'{tg["file"]} re-binds the builtin name(s) {sorted(shadowed)} at module level')
            ft = FunctionTranslator(find_function(tree, tg['qualname']), tg, cfg, done, classes)
            try:
                lines = ft.translate()
            finally:
                # callers are translated against the DECLARED signature even when this body is refused, so that one
                # untranslatable function does not drag the functions calling it out of the subset as well
                if getattr(ft, 'sig_ok', False):
                    done.append(dict(qualname=tg['qualname'], lean=tg['lean'], consts=ft.consts, types=ft.ptypes,
                                     ret=ft.ret, params=[x.arg for x in ft.fn.args.args][1:],
                                     recv=tg.get('self_class') or tg['qualname'].rsplit('.', 1)[0]))
            blocks[tg['lean']] = '\n'.join(lines) + '\n'
        except (Untranslatable, _Fallback) as e:
            if isinstance(e, _Fallback):
                e = Untranslatable('an `if` nested in a loop introduces locals')
            e.func = tg['qualname'] + ''.join(f' [{k} = {v}]' for k, v in sorted(tg.get('const', {}).items()))
            errors[tg['lean']] = e
            blocks[tg['lean']] = None
    return blocks, errors, order


def describe(t):
    """`file:qualname [axis = 1] [self : C]` — how a target is named in comments"""
    extra = ''.join(f' [{k} = {v}]' for k, v in sorted(t.get('const', {}).items()))
    extra += f' [self : {t["self_class"]}]' if t.get('self_class') else ''
    return f'{t["file"]}:{t["qualname"]}{extra}'


MARK = '-- @target '


def assemble(cfg, blocks, order):
    by = {t['lean']: t for t in cfg['targets']}
    srcs = sorted({f'{t["file"]}:{t["qualname"]}' for t in cfg['targets'] if blocks.get(t['lean'])})
    out = ['-- GENERATED by harness/py2lean.py from ' + ', '.join(srcs) + '; do not edit',
           '-- (regenerate with `python harness/genside.py --regen`; equivalence with the hand-written models: Fca/Gen/Equiv.lean, EquivOps.lean)',
           'import Fca.Gen.Rt', '', f'namespace {NAMESPACE}', '']
    for name in order:
        if not blocks.get(name):
            continue
        t = by[name]
        out.append(f'{MARK}{name} <- {describe(t)} (serves {", ".join(t["props"])})')
        out.append(blocks[name])
    out.append(f'end {NAMESPACE}')
    return '\n'.join(out) + '\n'


def split_blocks(text):
    """generated text -> {lean name: block text} (inverse of `assemble` for the per-target parts)"""
    res, cur = {}, None
    for line in text.split('\n'):
        if line.startswith(MARK):
            cur = line[len(MARK):].split(' ')[0]
            res[cur] = []
        elif line.startswith('end ' + NAMESPACE):
            cur = None
        elif cur is not None:
            res[cur].append(line)
    return {k: '\n'.join(v).rstrip('\n') + '\n' for k, v in res.items()}


if __name__ == '__main__':
    cfg_ = load_config()
    blocks_, errors_, order_ = translate_all(cfg_)
    sys.stdout.write(assemble(cfg_, blocks_, order_))
    for k_, e_ in errors_.items():
        print(f'-- {k_}: {e_}', file=sys.stderr)

"""py2lean — a small Python → Lean 4 translator for a RESTRICTED, explicitly enumerated subset of Python.

It regenerates, from the CURRENT Python source of the functions listed in `harness/gen_targets.json`, the Lean
definitions of `lean/Fca/Gen/Generated*.lean` (one file per `"unit"` of the target list: `Generated.lean` for
`fcapy/context/bintable.py`, `GeneratedCtx.lean` for `fcapy/context/formal_context.py`).  `lean/Fca/Gen/Equiv*.lean` prove
every generated definition equal to the hand-written model (`f_eq_model`), so every property theorem about the model
transfers to the source-derived definition.  Anything outside the subset is REFUSED with `Untranslatable(construct, line)` — the
translator never guesses.

WHAT IS TRANSLATED (everything else raises `Untranslatable`)
  statements   assignment to local names (`x = e`, `a, b = e1, e2`, `a, b = pair`; `x = []` when the target declares the
               type of `x` under `"locals"`), `if/elif/else`, `for pat in iter` (no `else:` clause), `break`, `continue`,
               `return e` (`return None` / `return e` into a declared `Option` result), `assert e`, `pass`, a docstring;
               `x.append(e)` and `x |= e` (set update) on an un-aliased local list / set (A5);
               `try: B  except E [as e]: raise E(message)` (A9).
  expressions  names, `True/False`, non-negative integer literals, `recv.field` for the declared record fields,
               `a[i]` (list, non-negative index), `x if c else y`, `not/and/or` on bools, `& |` on bools, `+` on ints
               and on lists, `list * int`, one comparison `== != < <= > >=`, `x is None / x is not None` (x declared
               `Option`), list displays, 2-tuples, list comprehensions (one `for`; `if` clauses when neither they nor
               the element can raise; nested comprehensions and tuple targets allowed), and the calls `len all any sum
               int(bool) bool(bool) range(n) zip(a, b) enumerate(a) list(a) set(a)`, `x in a / x not in a` (a list, or a
               `set(…)` — which supports nothing else), `d[k]` for a declared `Dict K V`, printable string constants,
               `xs[k:]` (literal k >= 0), `p[0] / p[1]` of a pair, `not xs` on a list (emptiness), `< <= > >=`, `min(a, b)`,
               `max(a, b)` on `Num`, `int(n)` of an int, `a | b`, `a & b`, `a == b` on sets, `all(e for x in xs)` /
               `any(…)` over a generator (short-circuit: `Gen.allM / anyM`), comprehensions whose `if` or element may raise
               (`Gen.filterMapM`: conditions left to right, then the element),
               `recv.m(...)` / the read of a `@property` `recv.m` when `recv` is `self` or a record-typed expression and
               `m` is itself a target for that receiver class, `self.__class__(rows)` when the record declares a constructor.
  control flow Lean `do`-notation in the monad `Except Fca.PyErr`: `for … do`, `break`, `continue`, early `return`,
               `let mut` for locals re-assigned inside a loop / branch.  An `if` that introduces or re-types locals
               (and contains no `return/break/continue`) becomes `let (w₁, …) ← (if/match … pure (w₁, …))`.
               `if x is None … else …` becomes `match x with | none => … | some x => …` (x is narrowed in the branch;
               `if x is None: …return` followed by more statements puts those statements in the `some` branch).
  units        a target belongs to a `"unit"` (one generated file each); a unit may add parameters to every one of its
               definitions (`"extra_params"`, passed along by calls inside the unit: the set-iteration order `ord` of
               the `Poset` unit), and a record may add implicit type parameters (`"tparams"`).
  specialising a target may fix parameters to constants (`"const": {"axis": 1}`): the parameter disappears from the Lean
               signature, and `if`s whose test is decided by the constants (`axis is None`, `axis == 0`, `axis not in
               {None, 0, 1}`, `not`/`and`/`or` of those) keep only the live branch — the dead branch is NOT translated
               (a comment is left), statements after a live `return` are dropped.  A constant may be `None` (then the
               parameter can only be tested, not used as a value).  The same mechanism decides, from the DECLARED types
               (A1), `isinstance(x, slice)` (False for a declared list / int / bool), `isinstance(x, Number)` (False for a
               declared pair / list / set, True for `Num` / `Nat`; only when the module binds `Number` by
               `from numbers import Number` and nowhere else, and `x` is not re-bound), and `type(a) == type(b)` /
               `!=` for two record parameters (A2) — in `if` statements and in `x if c else y`.

WHAT IS ASSUMED (this file joins the trusted base; each item is a modelling decision, not something proved)
  A1 types     parameters have the types declared in `gen_targets.json` (`Bool`, `Nat`, `String`, `List T`, `Option T`,
               `A × B`, `Dict K V`, a record).  A parameter default must be `None` (declared `Option`), a bool or a
               non-negative int of the declared type; a `List T` argument may be passed where `Option (List T)` is declared.  In particular integers are NON-NEGATIVE (`Nat`): `a[i]` is `Gen.idx a i`, which raises
               `IndexError` when `i ≥ len(a)`; Python's wrap-around for negative indexes is out of scope.  `int` never
               overflows (Python ints are unbounded, so is `Nat`); `-` is refused (`Nat` subtraction truncates).
               `Num` is a number on which only `< <= > >= == min max` are used; it is carried as `Int` (as in the
               hand-written model `Fca/Model/PS.lean`): the values are assumed to be totally ordered and exactly
               comparable — Python ints, or floats that are not NaN (`float('inf')` would be an extra element of the
               order; none of the translated functions produces it).
               `isinstance(x, slice)` is `False` for an `x` declared as a list: slice arguments of `_get_row /
               _get_column` are outside the translated functions.
  A2 receiver  a record-typed value is an instance of EXACTLY the record's Python class (not of a subclass).
               `self` / `other` are records: `recv.data : List (List Bool)`, `recv.height = len(recv.data)`,
               `recv.width` = the stored width, `recv.shape = (height, width)` — i.e. the Python properties
               `height/width/shape` return what `AbstractBinTable.data.setter` stored, and `len(data[i]) = width` is
               the well-formedness hypothesis `Table.WF` of the theorems, not of the translator.
               `self.__class__(rows)` is `Table.ofRows rows` (rows, width of the first row); `_validate_data` is assumed
               to accept `rows` (it does for rectangular lists of bools — again `WF` on the theorem side).
               A record may name its Python class (`"class"`, `"file"`): then `recv.m(…)` on an expression of that
               record type is resolved in that class (A7).  The record `Ctx` is a `FormalContext` whose `_data` is a
               `BinTableLists` (the lists backend — the other backends are not translated); `_object_names /
               _attribute_names` are the name tuples, and `_object_names_i_map / _attribute_names_i_map` are what the
               setters of `object_names / attribute_names` store: `{name: idx for idx, name in enumerate(names)}`
               (`Fca.Gen.enumDict`; the setters themselves are not translated).  `data`, `n_objects`, `n_attributes`
               are NOT assumed: they are `@property` targets, translated from their source.
  A3 builtins  `list(a)` of a list is `a` (a copy — invisible without mutation, A5); `set(a)` is carried as the list `a`
               and supports only `in / not in` (`List.contains`; iteration, `len`, `==` on a set are refused: order and
               multiplicity are not represented); `x in a` on a list compares with `==`; `d[k]` on a `Dict` looks up the
               LAST pair with key `k` of an association list (insertion order: a later binding overwrites) and raises
               `KeyError` when there is none; strings are compared with `==` only.
               A `Set T` value is a list up to membership: `a | b`, `a & b`, `a == b` (mutual inclusion) and `in` are
               insensitive to order and repetition; nothing that depends on them (`len`, iteration, `sorted`) is
               translated.  `min(a, b)` / `max(a, b)` return the FIRST minimal / maximal argument.
               `bool & bool`, `bool | bool`, `a and b`, `a or b`, `not a` on bools are `&& || !` (`and/or` evaluate the
               right operand only when needed; `& |` always evaluate both, left first); `all/any` of a list of bools
               are `List.all/any id`; `sum` of bools counts `True`, `sum` of ints adds; `int(True) = 1`;
               `range(n)` is the list `0..n-1`, `zip` stops at the shorter argument, `enumerate` counts from 0 — all
               used as iterables only (a `range`/`zip` object is never compared, sliced, or mutated);
               `[x] * n` repeats; `==` on lists/tuples/bools/ints is structural equality; `assert` raises
               `AssertionError` (Python is not run with `-O`).  (A module that re-binds one of these builtin names is refused.)
  A4 order     sub-expressions are evaluated left to right, comprehension elements in order; the first exception wins.
  A5 aliasing  there is none: the only mutation of an object in the subset is `x.append(e)` on a local list that nobody
               else can see — `x` is not a parameter, every binding of `x` is a fresh list (display, comprehension,
               `list(…)`, `+`, `*`), and every read of `x` other than as the receiver of `append` comes after the last
               `x.append` and outside every loop containing one; it is translated as `x = x + [e]`.  Everything else
               (item assignment, `+=`, `append` on anything else) is refused, so Python's reference semantics and
               Lean's value semantics agree.
  A6 scoping   a name first bound inside a `for`/`if` block and read after the block is refused (Lean blocks are scoped);
               a name bound in only one branch of an `if` and read later is refused (possible `UnboundLocalError`).
  A7 calls     `recv.m(args)` for a record-typed `recv` other than `self` is resolved in the class the record declares
               (`"class"`, `"file"`), the same way.  `self.m(args)` is resolved the way Python does for an instance of the receiver's class (the class of the
               target, or its `"self_class"`): first class defining `m` along the single-inheritance chain found in the
               source file; that method must itself be a target (with matching constants); a target `D.m` declared for
               a `"self_class": C` is refused when `C` (or a class between) overrides `m`.  Arguments are positional;
               omitted trailing `Option` parameters are `None`.  No monkey-patching, no `__getattr__`.
  A8 constants a `"const"` specialisation describes the function only for calls with exactly those argument values.
  A10 sets     the order in which Python walks a set (`list(s)`, `for x in list(s)`) is unspecified: it is the explicit
               parameter `ord : List Nat → List Nat` of every definition of a unit that declares `"order_param"` (the
               hand-written model and its theorems quantify over the same `ord`); `list(s)` is `ord s`.  A unit without
               that declaration refuses `list(s)`.  Set comprehensions `{e for x in xs if c}` and displays `{a, b}` are
               the corresponding lists read as sets; `frozenset(s)` / `copy(s)` (only when the module binds `copy` by
               `from copy import copy`) are `s`; `a - b` is `Gen.setDiff`; `len(s) == 0` / `!= 0` is emptiness — every
               other use of `len(s)` is refused.  `FSet T` is a `frozenset`: `x |= e`, `x &= e`, `x -= e` only re-bind
               `x`; on a `Set T` (a mutable `set`) they update in place and fall under A5.
  A13 set size  a unit declaring `"sets_nodup"` (the `Poset` unit) keeps every set a DUPLICATE-FREE list, by construction:
               there a set comprehension must be `{x for x in range(…) if …}`, a set display has one element, a list is
               never turned into a set, `|` appends only the new elements, `&` and `-` filter; set-typed parameters are
               sets.  Only there `len(s)` is translated (the length of the list); `for x in s` walks `ord s` (A10).
               The idiom `if x is None or c: x = e` (no `else`, `x` a declared `Option T`, `e : T`) leaves `x : T`:
               it becomes `match x with | none => e | some x => if c then e else x`.  `e if c else None` is an `Option`.
  A11 functions a record field declared with `"args"/"ret"` holds a function (`POSet._leq_func`): calling it is an ordinary
               application — the function is assumed pure, total and of the declared type (an exception raised by a
               user-supplied `leq_func` is not modelled); it cannot be used as a value.  `"tvars"` declares type
               variables (`Elem` ↦ `α`): values of such a type can only be passed around.
  A12 POSet    the record `POSet` is a poset built with `use_cache=False`: `__init__` then leaves `leq_elements`,
               `descendants`, `ancestors`, `children`, `parents` un-rebound, so `self.m(…)` is the class's method `m`
               (A7).  `len(self)` is `self.__len__()`, itself a target.
  A9 errors    only the CLASS of an exception is modelled (`Fca.PyErr`), not its message or chaining.  Hence
               `try: B  except E [as e]: raise E(message)` — one handler, no `else/finally`, `E` one of KeyError /
               IndexError / AssertionError / ValueError / TypeError, the same class re-raised, `message` string
               constants / f-strings of plain names (cannot raise) — is translated as `B`.  Every other `try` is refused.
  Not modelled: exceptions other than IndexError/AssertionError, recursion depth, running time, memory.

The output depends only on the AST (not on comments, docstrings, blank lines, annotations, line numbers) and on the
target list, and is deterministic.
"""
import ast
import copy
import json
import os
import re
import sys

HERE = os.path.dirname(os.path.abspath(__file__))
VERIF = os.path.dirname(HERE)
TARGETS = os.path.join(HERE, 'gen_targets.json')
GENERATED = os.path.join(VERIF, 'lean', 'Fca', 'Gen', 'Generated.lean')
NAMESPACE = 'Fca.Gen.Lists'


def repo():
    return os.environ.get('FCAPY_REPO', '/repo')


class Untranslatable(Exception):
    def __init__(self, what, node=None):
        self.what = what
        self.line = getattr(node, 'lineno', None)
        self.func = None
        super().__init__(what)

    def __str__(self):
        where = f'{self.func}: ' if self.func else ''
        return f'Untranslatable: {where}{self.what}' + (f' (line {self.line})' if self.line else '')


class _Fallback(Exception):
    """native `if` not possible (a branch introduces / re-types a local): use the expression form"""


# ---------------------------------------------------------------------------------------------- types
BOOL, NAT, STRING, NUM = ('Bool',), ('Nat',), ('String',), ('Num',)


def List_(t):
    return ('List', t)


TVARS = {}          # type variables of the target list (`"tvars": {"Elem": "α"}`), set by load_config


def parse_type(s, records):
    toks = re.findall(r'[A-Za-z_][A-Za-z_0-9.]*|[()×]', s)
    pos = [0]

    def peek():
        return toks[pos[0]] if pos[0] < len(toks) else None

    def eat():
        pos[0] += 1
        return toks[pos[0] - 1]

    def atom():
        t = eat()
        if t == '(':
            r = typ()
            if eat() != ')':
                raise ValueError(f'bad type {s!r}')
            return r
        if t == 'Bool':
            return BOOL
        if t == 'Nat':
            return NAT
        if t == 'String':
            return STRING
        if t == 'Num':
            return NUM
        if t in records:
            return ('Rec', t)
        if t in TVARS:
            return ('TVar', t)
        raise ValueError(f'unknown type {t!r} in {s!r}')

    def app():
        if peek() in ('List', 'Option', 'Set', 'FSet'):
            h = eat()
            return (h, atom())
        if peek() == 'Dict':
            eat()
            k = atom()
            return ('Dict', k, atom())
        return atom()

    def typ():
        a = app()
        if peek() == '×':
            eat()
            return ('Pair', a, typ())
        return a

    r = typ()
    if pos[0] != len(toks):
        raise ValueError(f'bad type {s!r}')
    return r


def show_type(t, records, top=True):
    k = t[0]
    if k in ('Bool', 'Nat', 'String'):
        return k
    if k == 'Num':
        return 'Int'
    if k == 'Rec':
        return records[t[1]]['lean'] if top or ' ' not in records[t[1]]['lean'] else '(' + records[t[1]]['lean'] + ')'
    if k == 'TVar':
        return TVARS[t[1]]
    if k in ('List', 'Option'):
        s = f'{k} {show_type(t[1], records, False)}'
    elif k in ('Set', 'FSet'):         # a Python set / frozenset: a list up to membership
        s = f'List {show_type(t[1], records, False)}'
    elif k == 'Dict':        # a Python dict read by `d[k]` only: an association list (the LAST binding of a key counts)
        s = f'List ({show_type(t[1], records, False)} × {show_type(t[2], records, False)})'
    else:
        s = f'{show_type(t[1], records, False)} × {show_type(t[2], records, False)}'
    return s if top else f'({s})'


LEAN_KEYWORDS = set('''at by do else end for from fun have if in let match open show then where with mut def
theorem structure namespace section variable import universe instance class inductive return break continue unless try
catch finally macro syntax notation prefix infix infixl infixr postfix set_option attribute deriving extends private
protected partial unsafe noncomputable abbrev example axiom opaque mutual local using calc nomatch nofun export
Type Sort Prop fun'''.split())


def lname(py):
    return f'«{py}»' if py in LEAN_KEYWORDS else py


# ---------------------------------------------------------------------------------------------- emitted code
class E:
    """a translated expression: prelude statements, a one-line Lean term, its type"""

    def __init__(self, pre, code, ty):
        self.pre, self.code, self.ty = pre, code, ty


class S:
    """one emitted `do` statement; `lines` = [(extra indent, text)]; for binders the first line is the right-hand side"""

    def __init__(self, kind, lines, pat=None, arrow=':='):
        self.kind, self.lines, self.pat, self.arrow = kind, lines, pat, arrow    # kind: let | letmut | set | raw

    def render(self, ind):
        out = []
        head = {'let': f'let {self.pat} {self.arrow} ', 'letmut': f'let mut {self.pat} {self.arrow} ',
                'set': f'{self.pat} {self.arrow} ', 'raw': ''}[self.kind]
        for k, (d, txt) in enumerate(self.lines):
            out.append('  ' * (ind + d) + (head if k == 0 else '') + txt)
        return out


def render(stmts, ind):
    out = []
    for s in stmts:
        out.extend(s.render(ind))
    return out


def flat(stmts, d=0):
    """statements -> [(indent, text)] relative lines"""
    out = []
    for s in stmts:
        head = {'let': f'let {s.pat} {s.arrow} ', 'letmut': f'let mut {s.pat} {s.arrow} ',
                'set': f'{s.pat} {s.arrow} ', 'raw': ''}[s.kind]
        for k, (i, t) in enumerate(s.lines):
            out.append((i + d, (head if k == 0 else '') + t))
    return out


class Var:
    def __init__(self, ty, mut, scope, narrowed=False):
        self.ty, self.mut, self.scope, self.narrowed = ty, mut, scope, narrowed


class Scope:
    def __init__(self, parent, frame, block=False, strict=False):
        # block: body of a `for` / branch of a native `if` (assignments to enclosing variables are mutations);
        # otherwise the root of a frame (function body, branch of an expression-form `if`).
        # strict: a branch of a native `if` that is being tried for a jump-free `if` (must not introduce locals).
        self.parent, self.frame, self.block, self.strict = parent, frame, block, strict
        self.vars, self.dead, self.assigned = {}, set(), []
        self.tail = parent is None     # nothing of the function runs after this scope's statements (a `let` may shadow)
        self.end = parent.end if parent is not None else (10 ** 9, 0)    # where the frame ends (line, column)

    def lookup(self, name):
        s = self
        while s is not None:
            if name in s.vars:
                return s.vars[name]
            if name in s.dead:
                return 'dead'
            s = s.parent
        return None


class Dead(ast.stmt):
    """marker left where a statically decided `if` dropped an unreachable branch (emitted as a comment)"""
    _fields = ()

    def __init__(self, text, like):
        super().__init__()
        self.text = text
        ast.copy_location(self, like)


def has_jump(stmts):
    return any(isinstance(n, (ast.Return, ast.Break, ast.Continue)) for s in stmts for n in ast.walk(s))


def is_docstring(s):
    return isinstance(s, Dead) or isinstance(s, ast.Expr) and isinstance(s.value, ast.Constant) and isinstance(s.value.value, str)


# ---------------------------------------------------------------------------------------------- the translator
class FunctionTranslator:
    def __init__(self, fn, target, cfg, done, classes, get_classes=None):
        # done: [dict(qualname, lean, consts, params (names after self), types, ret)] of the targets translated so far
        # classes: {class name: ClassDef} of the source file (to resolve `self.m` along the single-inheritance chain)
        self.fn, self.target, self.cfg, self.done, self.classes = copy.deepcopy(fn), target, cfg, done, classes
        self.records = cfg['records']
        self.copy_ok = False           # `copy` is `copy.copy` in the module of the target (set by translate_all)
        self.number_ok = False         # `Number` is `numbers.Number` in the module of the target (set by translate_all)
        self.get_classes = get_classes or (lambda file: self.bad(f'classes of {file} are not available'))
        self.consts = dict(target.get('const', {}))        # parameters fixed to a constant (specialisation)
        self.ntemp = 0
        fn = self.fn
        names = {n.id for n in ast.walk(fn) if isinstance(n, ast.Name)} | {a.arg for a in fn.args.args}
        self.tprefix = 't'
        while any(re.fullmatch(re.escape(self.tprefix) + r'\d+', n) for n in names):
            self.tprefix += '_'
        self.frames = 0

    # ---- helpers
    def find_nested(self, fn):
        # positions of assignments nested in a for/if block: a declaration before one of them must be `let mut`
        self.nested = {}
        for blk in ast.walk(fn):
            if isinstance(blk, (ast.For, ast.If)):
                for sub in blk.body + blk.orelse:
                    for n in ast.walk(sub):
                        if isinstance(n, ast.Assign):
                            for t in n.targets:
                                for nm in ast.walk(t):
                                    if isinstance(nm, ast.Name):
                                        self.nested.setdefault(nm.id, []).append((n.lineno, n.col_offset))

    def ty(self, s):
        return parse_type(s, self.records)

    def show(self, t, top=True):
        return show_type(t, self.records, top)

    def temp(self):
        self.ntemp += 1
        return f'{self.tprefix}{self.ntemp}'

    def needs_mut(self, name, pos, sc):
        """is `name`, bound at source position `pos`, re-assigned later inside a nested block of the same frame?"""
        return any(pos < p <= sc.end for p in self.nested.get(name, []))

    def bad(self, what, node):
        raise Untranslatable(what, node)

    def new_frame(self):
        self.frames += 1
        return self.frames

    # ---- expressions
    def expr(self, n, sc):
        m = getattr(self, 'e_' + type(n).__name__, None)
        if m is None:
            self.bad(f'expression `{type(n).__name__}`', n)
        return m(n, sc)

    def e_Constant(self, n, sc):
        v = n.value
        if v is True or v is False:
            return E([], 'true' if v else 'false', BOOL)
        if isinstance(v, int) and v >= 0:
            return E([], str(v), NAT)
        if isinstance(v, str) and all(32 <= ord(ch) < 127 and ch not in '"\\' for ch in v):
            return E([], '"' + v + '"', STRING)
        self.bad(f'constant {v!r}', n)

    def e_Name(self, n, sc):
        if n.id in self.consts and sc.lookup(n.id) is None:
            c = self.consts[n.id]
            if c is None:
                self.bad(f'the constant parameter `{n.id}` = None is used as a value', n)
            return E([], ('true' if c else 'false') if isinstance(c, bool) else str(c), BOOL if isinstance(c, bool) else NAT)
        v = sc.lookup(n.id)
        if v is None:
            self.bad(f'unknown name `{n.id}`', n)
        if v == 'dead':
            self.bad(f'`{n.id}` is read after the block that bound it', n)
        return E([], lname(n.id), v.ty)

    def e_Attribute(self, n, sc):
        snap = self.ntemp
        r = self.expr(n.value, sc)
        if r.ty[0] == 'Rec' and n.attr not in self.records[r.ty[1]]['fields']:
            self.ntemp = snap
            return self.method_call(n, n.value, n.attr, [], sc, prop=True)      # a `@property` that is itself a target
        if r.ty[0] != 'Rec':
            self.bad(f'attribute `.{n.attr}`', n)
        f = self.records[r.ty[1]]['fields'][n.attr]
        if 'args' in f:
            self.bad(f'the function field `.{n.attr}` used other than by calling it', n)
        code = f'{r.code}{f["lean"]}' if f['lean'].startswith('.') else f'({f["lean"]} {r.code})'
        return E(r.pre, code, self.ty(f['type']))

    def e_Subscript(self, n, sc):
        if isinstance(n.slice, ast.Slice):
            sl = n.slice
            a = self.expr(n.value, sc)
            if a.ty[0] == 'List' and sl.upper is None and sl.step is None and isinstance(sl.lower, ast.Constant) \
                    and type(sl.lower.value) is int and sl.lower.value >= 0:
                return E(a.pre, f'(List.drop {sl.lower.value} {a.code})', a.ty)      # `xs[k:]`, k a literal >= 0
            self.bad('slice other than `xs[k:]` with a literal k >= 0', n)
        if isinstance(n.slice, ast.Tuple):
            self.bad('tuple subscript', n)
        if isinstance(n.slice, ast.Constant) and type(n.slice.value) is int:
            a = self.expr(n.value, sc)
            if a.ty[0] == 'Pair':
                if n.slice.value not in (0, 1):
                    self.bad('component of a pair other than [0] / [1]', n)
                return E(a.pre, f'{a.code}.{n.slice.value + 1}' if re.fullmatch(r'[\w«».]+', a.code) else f'({a.code}).{n.slice.value + 1}',
                         a.ty[1 + n.slice.value])
            a_done = a
        else:
            a_done = None
        a, i = a_done or self.expr(n.value, sc), self.expr(n.slice, sc)
        if a.ty[0] == 'Dict' and i.ty == a.ty[1]:
            t = self.temp()
            return E(a.pre + i.pre + [S('let', [(0, f'Fca.Gen.dictGet {a.code} {i.code}')], t, '←')], t, a.ty[2])
        if a.ty[0] != 'List' or i.ty != NAT:
            self.bad(f'subscript of {self.show(a.ty)} by {self.show(i.ty)}', n)
        t = self.temp()
        return E(a.pre + i.pre + [S('let', [(0, f'Fca.Gen.idx {a.code} {i.code}')], t, '←')], t, a.ty[1])

    def e_UnaryOp(self, n, sc):
        x = self.expr(n.operand, sc)
        if isinstance(n.op, ast.Not) and x.ty == BOOL:
            return E(x.pre, f'(!{x.code})', BOOL)
        if isinstance(n.op, ast.Not) and x.ty[0] == 'List':
            return E(x.pre, f'(List.isEmpty {x.code})', BOOL)          # `not xs`: a list is falsy iff it is empty
        self.bad(f'unary `{type(n.op).__name__}` on {self.show(x.ty)}', n)

    def e_BoolOp(self, n, sc):
        op = '&&' if isinstance(n.op, ast.And) else '||'
        xs = [self.expr(v, sc) for v in n.values]
        if any(x.ty != BOOL for x in xs):
            self.bad('`and/or` on non-bool operands', n)
        acc = xs[-1]
        for x in reversed(xs[:-1]):          # right-nested, short-circuit
            if acc.pre:
                t = self.temp()
                br = flat(acc.pre, 2) + [(2, f'pure {acc.code}')]
                if op == '&&':
                    lines = [(0, f'(if {x.code} then do')] + br + [(1, 'else pure false)')]
                else:
                    lines = [(0, f'(if {x.code} then pure true else do')] + br[:-1] + [(2, br[-1][1] + ')')]
                acc = E(x.pre + [S('let', lines, t, '←')], t, BOOL)
            else:
                acc = E(x.pre, f'({x.code} {op} {acc.code})', BOOL)
        return acc

    def e_BinOp(self, n, sc):
        a, b = self.expr(n.left, sc), self.expr(n.right, sc)
        pre, o = a.pre + b.pre, type(n.op)
        if o in (ast.BitAnd, ast.BitOr) and a.ty == BOOL and b.ty == BOOL:
            return E(pre, f'({a.code} {"&&" if o is ast.BitAnd else "||"} {b.code})', BOOL)
        if o in (ast.BitAnd, ast.BitOr, ast.Sub) and a.ty[0] in ('Set', 'FSet') and b.ty[0] in ('Set', 'FSet') \
                and a.ty[1] == b.ty[1] and self.eq_type(a.ty[1]):
            fn = {ast.BitAnd: 'setInter', ast.BitOr: 'setUnion', ast.Sub: 'setDiff'}[o]
            return E(pre, f'(Fca.Gen.{fn} {a.code} {b.code})', a.ty)       # the result has the class of the LEFT operand
        if o is ast.Add and a.ty == NAT and b.ty == NAT:
            return E(pre, f'({a.code} + {b.code})', NAT)
        if o is ast.Add and a.ty[0] == 'List' and a.ty == b.ty:
            return E(pre, f'({a.code} ++ {b.code})', a.ty)
        if o is ast.Mult and a.ty[0] == 'List' and b.ty == NAT:
            return E(pre, f'(Fca.Gen.listMul {a.code} {b.code})', a.ty)
        self.bad(f'`{o.__name__}` on {self.show(a.ty)}, {self.show(b.ty)}', n)

    def none_test(self, n, sc):
        """`x is None` / `x is not None` on an Option-typed NAME -> (name, True if `is None`) else None"""
        if isinstance(n, ast.Compare) and len(n.ops) == 1 and isinstance(n.ops[0], (ast.Is, ast.IsNot)) \
                and isinstance(n.comparators[0], ast.Constant) and n.comparators[0].value is None \
                and isinstance(n.left, ast.Name):
            v = sc.lookup(n.left.id)
            if isinstance(v, Var) and v.ty[0] == 'Option':
                return n.left.id, isinstance(n.ops[0], ast.Is)
        return None

    def e_Compare(self, n, sc):
        if len(n.ops) != 1:
            self.bad('chained comparison', n)
        nt = self.none_test(n, sc)
        if nt:
            return E([], f'(Option.{"isNone" if nt[1] else "isSome"} {lname(nt[0])})', BOOL)
        if isinstance(n.ops[0], (ast.Eq, ast.NotEq)) and isinstance(n.comparators[0], ast.Constant) \
                and n.comparators[0].value == 0 and type(n.comparators[0].value) is int and isinstance(n.left, ast.Call) \
                and isinstance(n.left.func, ast.Name) and n.left.func.id == 'len' and sc.lookup('len') is None \
                and len(n.left.args) == 1 and not n.left.keywords:
            snap = self.ntemp
            x = self.expr(n.left.args[0], sc)
            if x.ty[0] in ('Set', 'FSet'):
                # `len(s) == 0`: emptiness does not depend on order / repetition (any other use of `len(s)` is refused)
                c = f'(List.isEmpty {x.code})'
                return E(x.pre, c if isinstance(n.ops[0], ast.Eq) else f'(!{c})', BOOL)
            self.ntemp = snap
        a, b, o = self.expr(n.left, sc), self.expr(n.comparators[0], sc), type(n.ops[0])
        pre = a.pre + b.pre
        if o in (ast.Eq, ast.NotEq) and a.ty == b.ty and self.eq_type(a.ty):
            return E(pre, f'({a.code} {"==" if o is ast.Eq else "!="} {b.code})', BOOL)
        if o in (ast.In, ast.NotIn) and b.ty[0] in ('List', 'Set', 'FSet') and b.ty[1] == a.ty and self.eq_type(a.ty):
            c = f'(List.contains {b.code} {a.code})'
            return E(pre, c if o is ast.In else f'(!{c})', BOOL)
        sym = {ast.Lt: '<', ast.LtE: '≤', ast.Gt: '>', ast.GtE: '≥'}.get(o)
        if sym and a.ty == b.ty and a.ty in (NAT, NUM):
            return E(pre, f'(decide ({a.code} {sym} {b.code}))', BOOL)
        if o in (ast.Eq, ast.NotEq) and a.ty[0] in ('Set', 'FSet') and b.ty[0] in ('Set', 'FSet') and a.ty[1] == b.ty[1] \
                and self.eq_type(a.ty[1]):
            c = f'(Fca.Gen.setEq {a.code} {b.code})'
            return E(pre, c if o is ast.Eq else f'(!{c})', BOOL)
        self.bad(f'comparison `{o.__name__}` on {self.show(a.ty)}, {self.show(b.ty)}', n)

    def eq_type(self, t):
        """types on which Python `==` is structural equality and Lean has `BEq` (no records, sets, dicts)"""
        return t[0] in ('Bool', 'Nat', 'String', 'Num') or t[0] in ('List', 'Option') and self.eq_type(t[1]) \
            or t[0] == 'Pair' and self.eq_type(t[1]) and self.eq_type(t[2])

    def cond_expr(self, test, sc, mk_then, mk_else, node):
        """shared by `x if c else y`: returns E; mk_* : scope -> E"""
        nt = self.none_test(test, sc)
        if nt:
            name, is_none = nt
            inner = Scope(sc, sc.frame)
            inner.vars[name] = Var(sc.lookup(name).ty[1], False, inner, narrowed=True)
            e_none, e_some = (mk_then(sc), mk_else(inner)) if is_none else (mk_else(sc), mk_then(inner))
            if e_none.ty != e_some.ty:
                self.bad('branches of a conditional have different types', node)
            if not e_none.pre and not e_some.pre:
                return E([], f'(match {lname(name)} with | none => {e_none.code} | some {lname(name)} => {e_some.code})',
                         e_none.ty)
            t = self.temp()
            lines = [(0, f'(match {lname(name)} with')] + [(1, '| none => do')] + flat(e_none.pre, 2) + \
                [(2, f'pure {e_none.code}'), (1, f'| some {lname(name)} => do')] + flat(e_some.pre, 2) + \
                [(2, f'pure {e_some.code})')]
            return E([S('let', lines, t, '←')], t, e_none.ty)
        c = self.expr(test, sc)
        if c.ty != BOOL:
            self.bad('condition is not a bool (truthiness of other types is not translated)', test)
        a, b = mk_then(sc), mk_else(sc)
        if a.ty != b.ty:
            self.bad('branches of a conditional have different types', node)
        if not a.pre and not b.pre:
            return E(c.pre, f'(if {c.code} then {a.code} else {b.code})', a.ty)
        t = self.temp()
        lines = [(0, f'(if {c.code} then do')] + flat(a.pre, 2) + [(2, f'pure {a.code}'), (1, 'else do')] + \
            flat(b.pre, 2) + [(2, f'pure {b.code})')]
        return E(c.pre + [S('let', lines, t, '←')], t, a.ty)

    def e_IfExp(self, n, sc):
        v = self.static_eval(n.test)
        if v is not None:
            return self.expr(n.body if v else n.orelse, sc)       # the dead branch is not translated
        def is_none(x):
            return isinstance(x, ast.Constant) and x.value is None
        if is_none(n.body) != is_none(n.orelse) and not self.none_test(n.test, sc):
            # `e if c else None`: an Option
            c = self.expr(n.test, sc)
            if c.ty != BOOL:
                self.bad('condition is not a bool (truthiness of other types is not translated)', n.test)
            e = self.expr(n.orelse if is_none(n.body) else n.body, sc)
            t = self.temp()
            some = flat(e.pre, 2) + [(2, f'pure (some {e.code})')]
            if is_none(n.body):
                lines = [(0, f'(if {c.code} then pure none else do')] + some[:-1] + [(2, some[-1][1] + ')')]
            else:
                lines = [(0, f'(if {c.code} then do')] + some + [(1, 'else pure none)')]
            return E(c.pre + [S('let', lines, t, '←')], t, ('Option', e.ty))
        return self.cond_expr(n.test, sc, lambda s: self.expr(n.body, s), lambda s: self.expr(n.orelse, s), n)

    def e_List(self, n, sc):
        xs = [self.expr(v, sc) for v in n.elts]
        if not xs:
            self.bad('empty list display (its element type is unknown)', n)
        if any(x.ty != xs[0].ty for x in xs):
            self.bad('list display with elements of different types', n)
        return E([s for x in xs for s in x.pre], '[' + ', '.join(x.code for x in xs) + ']', List_(xs[0].ty))

    def e_Tuple(self, n, sc):
        if len(n.elts) != 2:
            self.bad('tuple that is not a pair', n)
        a, b = self.expr(n.elts[0], sc), self.expr(n.elts[1], sc)
        return E(a.pre + b.pre, f'({a.code}, {b.code})', ('Pair', a.ty, b.ty))

    def pattern(self, tgt, ty, sc, node):
        """bind a for/comprehension/assignment target against a type: returns the Lean pattern, declares names"""
        if isinstance(tgt, ast.Name):
            sc.vars[tgt.id] = Var(ty, False, sc)
            return '_' if tgt.id == '_' else lname(tgt.id)
        if isinstance(tgt, ast.Tuple) and len(tgt.elts) == 2 and ty[0] == 'Pair':
            return f'({self.pattern(tgt.elts[0], ty[1], sc, node)}, {self.pattern(tgt.elts[1], ty[2], sc, node)})'
        self.bad(f'target pattern does not match {self.show(ty)}', node)

    def e_SetComp(self, n, sc):
        """`{e for x in xs if c}`: the list comprehension, read as a set (a list up to membership)"""
        if self.unit_cfg().get('sets_nodup'):
            g = n.generators[0] if len(n.generators) == 1 else None
            src_ok = g is not None and (isinstance(g.iter, ast.Call) and isinstance(g.iter.func, ast.Name) and g.iter.func.id == 'range'
                                        and sc.lookup('range') is None)
            if not (src_ok and isinstance(n.elt, ast.Name) and isinstance(g.target, ast.Name) and n.elt.id == g.target.id):
                self.bad('in a unit whose sets are kept duplicate-free (A13) a set comprehension must be `{x for x in range(…) if …}`', n)
        r = self.e_ListComp(n, sc)
        if not self.eq_type(r.ty[1]):
            self.bad('set of elements without `==`', n)
        return E(r.pre, r.code, ('Set', r.ty[1]))

    def e_Set(self, n, sc):
        xs = [self.expr(v, sc) for v in n.elts]
        if self.unit_cfg().get('sets_nodup') and len(xs) != 1:
            self.bad('in a unit whose sets are kept duplicate-free (A13) a set display must have one element', n)
        if not xs or any(x.ty != xs[0].ty for x in xs) or not self.eq_type(xs[0].ty):
            self.bad('set display that is empty / of mixed types / of elements without `==`', n)
        return E([s_ for x in xs for s_ in x.pre], '[' + ', '.join(x.code for x in xs) + ']', ('Set', xs[0].ty))

    def unit_cfg(self):
        return units(self.cfg)[self.target.get('unit', '')]

    def e_ListComp(self, n, sc):
        if len(n.generators) != 1:
            self.bad('comprehension with several `for` clauses', n)
        g = n.generators[0]
        if g.is_async:
            self.bad('async comprehension', n)
        it = self.expr(g.iter, sc)
        if it.ty[0] != 'List':
            self.bad(f'iteration over {self.show(it.ty)}', g.iter)
        inner = Scope(sc, sc.frame)
        pat = self.pattern(g.target, it.ty[1], inner, n)
        conds = [self.expr(c, inner) for c in g.ifs]
        body = self.expr(n.elt, inner)
        if any(c.ty != BOOL for c in conds):
            self.bad('comprehension condition is not a bool', n)
        if conds and (body.pre or any(c.pre for c in conds)):
            # conditions left to right (the first false one ends the element), then the element; the first exception wins
            t = self.temp()
            lines = [(0, f'Fca.Gen.filterMapM (fun {pat} => do')]
            depth = 2
            for c in conds:
                lines += flat(c.pre, depth) + [(depth, f'if {c.code} then'), ]
                depth += 1
            lines += flat(body.pre, depth) + [(depth, f'pure (some {body.code})')]
            for k in range(len(conds)):
                depth -= 1
                lines += [(depth, 'else pure none')]
            lines[-1] = (lines[-1][0], lines[-1][1] + f') {it.code}')
            return E(it.pre + [S('let', lines, t, '←')], t, List_(body.ty))
        if conds:
            c = ' && '.join(x.code for x in conds)
            return E(it.pre, f'(List.filterMap (fun {pat} => if {c} then some {body.code} else none) {it.code})',
                     List_(body.ty))
        if not body.pre:
            return E(it.pre, f'(List.map (fun {pat} => {body.code}) {it.code})', List_(body.ty))
        t = self.temp()
        lines = [(0, f'List.mapM (fun {pat} => do')] + flat(body.pre, 2) + [(2, f'pure {body.code}) {it.code}')]
        return E(it.pre + [S('let', lines, t, '←')], t, List_(body.ty))

    def e_Call(self, n, sc):
        if n.keywords:
            self.bad('keyword arguments', n)
        f = n.func
        if isinstance(f, ast.Name) and sc.lookup(f.id) is None:
            args = n.args
            if f.id == 'isinstance' and self.static_eval(n) is not None:
                return E([], 'true' if self.static_eval(n) else 'false', BOOL)
            if f.id in ('all', 'any') and len(args) == 1 and isinstance(args[0], ast.GeneratorExp):
                return self.quantifier(f.id, args[0], sc)
            xs = [self.expr(a, sc) for a in args]
            pre = [s for x in xs for s in x.pre]
            tys = [x.ty for x in xs]
            one = xs[0].code if xs else None
            if f.id == 'len' and len(xs) == 1 and tys[0][0] == 'List':
                return E(pre, f'(Fca.Gen.len {one})', NAT)
            if f.id == 'len' and len(xs) == 1 and tys[0][0] in ('Set', 'FSet') and self.unit_cfg().get('sets_nodup'):
                return E(pre, f'(Fca.Gen.len {one})', NAT)        # A13: every set of this unit is a duplicate-free list
            if f.id == 'list' and len(xs) == 1 and tys[0][0] == 'List':
                return E(pre, one, tys[0])               # a copy: indistinguishable without mutation (A5)
            if f.id == 'list' and len(xs) == 1 and tys[0][0] in ('Set', 'FSet'):
                # the iteration order of a set is unspecified: it is the unit's order parameter (A10)
                o = self.unit_cfg().get('order_param')
                if not o or tys[0][1] != NAT:
                    self.bad('`list(s)` of a set: the unit of this target declares no iteration-order parameter', n)
                return E(pre, f'({o} {one})', List_(tys[0][1]))
            if f.id == 'frozenset' and len(xs) == 1 and tys[0][0] == 'List' and self.unit_cfg().get('sets_nodup'):
                self.bad('in a unit whose sets are kept duplicate-free (A13) a list is not turned into a set', n)
            if f.id == 'frozenset' and len(xs) == 1 and tys[0][0] in ('Set', 'FSet', 'List') and self.eq_type(tys[0][1]):
                return E(pre, one, ('FSet', tys[0][1]))
            if f.id == 'copy' and len(xs) == 1 and tys[0][0] in ('Set', 'FSet', 'List') and self.copy_ok:
                return E(pre, one, tys[0])               # `copy.copy`: a shallow copy (A5)
            if f.id == 'len' and len(xs) == 1 and tys[0][0] == 'Rec' and not pre:
                return self.method_call(n, args[0], '__len__', [], sc)        # `len(obj)` is `type(obj).__len__(obj)`
            if f.id in ('set', 'frozenset') and len(xs) == 1 and tys[0][0] == 'List' and self.unit_cfg().get('sets_nodup'):
                self.bad('in a unit whose sets are kept duplicate-free (A13) a list is not turned into a set', n)
            if f.id == 'set' and len(xs) == 1 and tys[0][0] == 'List' and self.eq_type(tys[0][1]):
                return E(pre, f'(Fca.Gen.pySet {one})', ('Set', tys[0][1]))
            if f.id in ('all', 'any') and tys == [List_(BOOL)]:
                return E(pre, f'(Fca.Gen.py{f.id.capitalize()} {one})', BOOL)
            if f.id == 'sum' and tys == [List_(BOOL)]:
                return E(pre, f'(Fca.Gen.pySumB {one})', NAT)
            if f.id == 'sum' and tys == [List_(NAT)]:
                return E(pre, f'(Fca.Gen.pySum {one})', NAT)
            if f.id == 'int' and tys == [NAT]:
                return E(pre, one, NAT)
            if f.id in ('min', 'max') and tys == [NUM, NUM]:
                return E(pre, f'(Fca.Gen.py{f.id.capitalize()}2 {xs[0].code} {xs[1].code})', NUM)
            if f.id == 'int' and tys == [BOOL]:
                return E(pre, f'(Fca.Gen.intOfBool {one})', NAT)
            if f.id == 'bool' and tys == [BOOL]:
                return E(pre, one, BOOL)
            if f.id == 'range' and tys == [NAT]:
                return E(pre, f'(Fca.Gen.range {one})', List_(NAT))
            if f.id == 'zip' and len(xs) == 2 and tys[0][0] == 'List' and tys[1][0] == 'List':
                return E(pre, f'(Fca.Gen.zip {xs[0].code} {xs[1].code})', List_(('Pair', tys[0][1], tys[1][1])))
            if f.id == 'enumerate' and len(xs) == 1 and tys[0][0] == 'List':
                return E(pre, f'(Fca.Gen.enumerate {one})', List_(('Pair', NAT, tys[0][1])))
            self.bad(f'call `{f.id}(' + ', '.join(self.show(t) for t in tys) + ')`', n)
        if isinstance(f, ast.Attribute) and f.attr == '__class__' and isinstance(f.value, ast.Name):
            r = self.expr(f.value, sc)
            ctor = self.records.get(r.ty[1], {}).get('ctor') if r.ty[0] == 'Rec' else None
            if ctor and len(n.args) == 1:
                x = self.expr(n.args[0], sc)
                if x.ty == self.ty(ctor['arg']):
                    return E(x.pre, f'({ctor["lean"]} {x.code})', r.ty)
            self.bad('constructor call', n)
        if isinstance(f, ast.Attribute):
            snap = self.ntemp
            r = self.expr(f.value, sc)
            fld = self.records[r.ty[1]]['fields'].get(f.attr) if r.ty[0] == 'Rec' else None
            if fld is not None and 'args' in fld:
                # a field holding a function (A11: pure, total, of the declared type): an ordinary application
                xs = [self.expr(a, sc) for a in n.args]
                if [x.ty for x in xs] != [self.ty(t) for t in fld['args']]:
                    self.bad(f'call of the function field `.{f.attr}` with arguments of other than the declared types', n)
                code = f'({r.code}{fld["lean"]} ' + ' '.join(x.code for x in xs) + ')'
                return E(r.pre + [s_ for x in xs for s_ in x.pre], code, self.ty(fld['ret']))
            self.ntemp = snap
            return self.method_call(n, f.value, f.attr, n.args, sc)
        self.bad('call of `' + ast.unparse(f) + '`', n)

    def class_chain(self, cls, classes):
        """`cls` and its ancestors (single inheritance inside one source file); None when a class has several bases"""
        chain, c = [], cls
        while c in classes and c not in chain:
            chain.append(c)
            bases = classes[c].bases
            if len(bases) > 1:
                return None
            c = bases[0].id if bases and isinstance(bases[0], ast.Name) else None
        return chain

    def quantifier(self, which, g, sc):
        """`all(e for x in xs)` / `any(…)` over a generator: evaluation STOPS at the first False / True element, so a
        later element that would raise is not evaluated (unlike `all([…])`)"""
        if len(g.generators) != 1 or g.generators[0].ifs or g.generators[0].is_async:
            self.bad('generator with several `for` clauses / an `if`', g)
        it = self.expr(g.generators[0].iter, sc)
        if it.ty[0] != 'List':
            self.bad(f'iteration over {self.show(it.ty)}', g)
        inner = Scope(sc, sc.frame)
        pat = self.pattern(g.generators[0].target, it.ty[1], inner, g)
        body = self.expr(g.elt, inner)
        if body.ty != BOOL:
            self.bad(f'`{which}` over non-bool elements', g)
        if not body.pre:
            return E(it.pre, f'(List.{which} {it.code} (fun {pat} => {body.code}))', BOOL)
        t = self.temp()
        lines = [(0, f'Fca.Gen.{which}M (fun {pat} => do')] + flat(body.pre, 2) + [(2, f'pure {body.code}) {it.code}')]
        return E(it.pre + [S('let', lines, t, '←')], t, BOOL)

    def mro(self):
        """the receiver's class and its ancestors (single inheritance inside the source file)"""
        return self.class_chain(self.target.get('self_class') or self.target['qualname'].rsplit('.', 1)[0], self.classes)

    def method_call(self, n, recv, attr, args, sc, prop=False):
        """`recv.m(args)` (or, with prop, the read of a `@property` `recv.m`): `recv` is `self` or an expression of a
        record type whose Python class is declared (`"class"`, `"file"` of the record); `m` is looked up along that
        class's single-inheritance chain; the method found must itself be a translated target for that receiver class"""
        me = self.expr(recv, sc)
        what = f'`{ast.unparse(recv)}.{attr}`'
        if me.ty[0] != 'Rec':
            self.bad(f'call of {what}: the receiver is not a record', n)
        if isinstance(recv, ast.Name) and recv.id == 'self':
            chain, classes, file = self.mro(), self.classes, self.target['file']
        else:
            rec = self.records[me.ty[1]]
            if 'class' not in rec or 'file' not in rec:
                self.bad(f'call of {what}: the record {me.ty[1]} declares no Python class', n)
            file = rec['file']
            classes = self.get_classes(file)
            chain = self.class_chain(rec['class'], classes)
        if chain is None:
            self.bad('method call on a class with several bases', n)
        owner = next((c for c in chain if any(isinstance(d, ast.FunctionDef) and d.name == attr
                                              for d in classes[c].body)), None)
        if owner is None:
            self.bad(f'{what}: no class of {chain} defines it', n)

        def static(x):
            if isinstance(x, ast.Constant) and (x.value is None or isinstance(x.value, (bool, int))):
                return True, x.value
            if isinstance(x, ast.Name) and x.id in self.consts and sc.lookup(x.id) is None:
                return True, self.consts[x.id]
            return False, None
        for d in self.done:
            if d['qualname'] != f'{owner}.{attr}' or d['file'] != file or len(args) > len(d['params']) \
                    or d['property'] != prop:
                continue
            if d['recv'] != chain[0]:
                continue             # translated for a receiver of another class
            given = dict(zip(d['params'], args))
            if any((p not in given) or static(given[p]) != (True, c) for p, c in d['consts'].items()):
                continue
            extra = units(self.cfg)[d['unit']].get('extra_args')
            if extra and units(self.cfg)[d['unit']].get('extra_params') != self.unit_cfg().get('extra_params'):
                self.bad(f'{what}: the callee takes the extra parameter(s) `{extra}` of its unit, which this unit does not have', n)
            pre, codes = list(me.pre), ([extra] if extra else []) + [me.code]
            for p in d['params']:
                if p in d['consts']:
                    continue
                want = d['types'][p]
                if p in given:
                    x = self.expr(given[p], sc)
                    if want == ('Option', x.ty):
                        x = E(x.pre, f'(some {x.code})', want)       # a value that is not None where None is allowed
                    if x.ty != want:
                        self.bad(f'argument `{p}` of {what} has type {self.show(x.ty)}, declared {self.show(want)}', n)
                    pre += x.pre
                    codes.append(x.code)
                elif p in d['defaults']:
                    c = d['defaults'][p]
                    codes.append(('true' if c else 'false') if isinstance(c, bool) else str(c))
                elif want[0] == 'Option':
                    codes.append('none')
                else:
                    self.bad(f'argument `{p}` of {what} is omitted', n)
            t = self.temp()
            return E(pre + [S('let', [(0, f'{NAMESPACE}.{d["lean"]} ' + ' '.join(codes))], t, '←')], t, d['ret'])
        self.bad(f'{what}: `{owner}.{attr}` ' + ('(a property) ' if prop else '(with these constant arguments) ') +
                 f'is not a translated target for a {chain[0]} receiver', n)

    # ---- statements
    def bind(self, e, pat, kind):
        """emit `let pat := e` / `pat := e`, folding a trailing temp binder into it"""
        if e.pre and e.pre[-1].kind == 'let' and e.pre[-1].pat == e.code and e.pre[-1].arrow == '←':
            last = e.pre[-1]
            return e.pre[:-1] + [S(kind, last.lines, pat, '←')]
        return e.pre + [S(kind, [(0, e.code)], pat, ':=')]

    def assign_name(self, name, e, sc, node):
        """one `name = e` in scope sc; returns statements"""
        if name == '_' or name == 'self':
            self.bad(f'assignment to `{name}`', node)
        v = sc.lookup(name)
        own = isinstance(v, Var) and v.scope is sc and not v.narrowed
        if own and v.mut and v.ty == e.ty:
            sc.assigned.append(name)
            return self.bind(e, lname(name), 'set')
        if sc.block and isinstance(v, Var) and not own:
            if v.scope.frame != sc.frame:
                self.bad(f'`{name}` of an enclosing scope is assigned inside a loop inside a jump-free `if` branch', node)
            if v.ty == e.ty and v.mut:
                return self.bind(e, lname(name), 'set')      # mutation of a variable of an enclosing block
            if sc.strict:
                raise _Fallback()
            if sc.tail:
                # the rest of the function lives in this branch (`if x is None: …return` + rest): a shadowing `let`
                # is seen by everything that can still read the name
                mut = self.needs_mut(name, (node.lineno, node.col_offset), sc)
                sc.vars[name] = Var(e.ty, mut, sc)
                sc.assigned.append(name)
                return self.bind(e, lname(name), 'letmut' if mut else 'let')
            self.bad(f'`{name}` (a parameter, or re-typed) is re-assigned inside a block that contains '
                     f'return/break/continue', node)
        if sc.strict and not own:
            raise _Fallback()        # a branch introduces a local: the `if` must become an expression
        mut = self.needs_mut(name, (node.lineno, node.col_offset), sc)
        sc.vars[name] = Var(e.ty, mut, sc)
        sc.dead.discard(name)
        sc.assigned.append(name)
        return self.bind(e, lname(name), 'letmut' if mut else 'let')

    def s_Assign(self, n, sc):
        if len(n.targets) != 1:
            self.bad('chained assignment', n)
        tgt = n.targets[0]
        if isinstance(tgt, ast.Name) and hasattr(n, 'aug_verdict'):
            v = sc.lookup(tgt.id)
            if not isinstance(v, Var) or v.ty[0] not in ('Set', 'FSet'):
                self.bad('augmented assignment to other than a set', n)
            if v.ty[0] == 'Set' and n.aug_verdict is not None:
                raise n.aug_verdict           # an in-place update of a set that may be aliased (A5)
        if isinstance(tgt, ast.Name):
            if isinstance(n.value, ast.List) and not n.value.elts:
                decl = self.target.get('locals', {}).get(tgt.id)
                if decl is None or self.ty(decl)[0] != 'List':
                    self.bad(f'`{tgt.id} = []`: the element type is unknown (declare it under "locals")', n)
                return self.assign_name(tgt.id, E([], f'([] : {self.show(self.ty(decl))})', self.ty(decl)), sc, n)
            if isinstance(n.value, ast.Call) and isinstance(n.value.func, ast.Name) and n.value.func.id == 'set' \
                    and not n.value.args and not n.value.keywords and sc.lookup('set') is None:
                decl = self.target.get('locals', {}).get(tgt.id)
                if decl is None or self.ty(decl)[0] != 'Set':
                    self.bad(f'`{tgt.id} = set()`: the element type is unknown (declare it under "locals")', n)
                return self.assign_name(tgt.id, E([], f'([] : {self.show(self.ty(decl))})', self.ty(decl)), sc, n)
            return self.assign_name(tgt.id, self.expr(n.value, sc), sc, n)
        if isinstance(tgt, ast.Tuple) and len(tgt.elts) == 2 and all(isinstance(x, ast.Name) for x in tgt.elts) \
                and tgt.elts[0].id != tgt.elts[1].id:
            e = self.expr(n.value, sc)
            if e.ty[0] != 'Pair':
                self.bad('unpacking of a non-pair', n)
            # simultaneous: evaluate the pair first, then bind both names
            t1, t2 = self.temp(), self.temp()
            a1 = self.assign_name(tgt.elts[0].id, E([], t1, e.ty[1]), sc, n)
            a2 = self.assign_name(tgt.elts[1].id, E([], t2, e.ty[2]), sc, n)
            if len(a1) == 1 and len(a2) == 1 and a1[0].kind == 'let' and a2[0].kind == 'let':
                self.ntemp -= 2
                return e.pre + [S('let', [(0, e.code)], f'({a1[0].pat}, {a2[0].pat})', ':=')]
            return e.pre + [S('let', [(0, e.code)], f'({t1}, {t2})', ':=')] + a1 + a2
        self.bad('assignment target `' + ast.unparse(tgt) + '`', n)

    def s_Return(self, n, sc):
        if n.value is None:
            self.bad('bare `return`', n)
        if isinstance(n.value, ast.Constant) and n.value.value is None and self.ret[0] == 'Option':
            return [S('raw', [(0, 'return none')])]
        if isinstance(n.value, ast.List) and not n.value.elts and self.ret[0] == 'List':
            return [S('raw', [(0, 'return []')])]
        e = self.expr(n.value, sc)
        if self.ret == ('Option', e.ty):
            e = E(e.pre, f'(some {e.code})', self.ret)
        if e.ty != self.ret:
            self.bad(f'returns {self.show(e.ty)}, declared {self.show(self.ret)}', n)
        return e.pre + [S('raw', [(0, f'return {e.code}')])]

    def s_Break(self, n, sc):
        return [S('raw', [(0, 'break')])]

    def s_Continue(self, n, sc):
        return [S('raw', [(0, 'continue')])]

    def s_Pass(self, n, sc):
        return []

    def s_Expr(self, n, sc):
        if is_docstring(n):
            return []
        self.bad('expression statement `' + ast.unparse(n)[:40] + '`', n)

    def s_Assert(self, n, sc):
        c = self.expr(n.test, sc)
        if c.ty != BOOL:
            self.bad('assert of a non-bool', n)
        return c.pre + [S('raw', [(0, f'Fca.Gen.pyAssert {c.code}')])]

    def s_For(self, n, sc):
        if n.orelse:
            self.bad('`for … else`', n)
        it = self.expr(n.iter, sc)
        if it.ty[0] in ('Set', 'FSet') and it.ty[1] == NAT and self.unit_cfg().get('order_param'):
            it = E(it.pre, f'({self.unit_cfg()["order_param"]} {it.code})', List_(NAT))     # `for x in s`: A10
        if it.ty[0] != 'List':
            self.bad(f'iteration over {self.show(it.ty)}', n.iter)
        inner = Scope(sc, sc.frame, block=True)
        pat = self.pattern(n.target, it.ty[1], inner, n)
        body = self.block(n.body, inner)
        self.leave(inner, sc)
        lines = [(0, f'for {pat} in {it.code} do')] + (flat(body, 1) or [(1, 'pure ()')])
        return it.pre + [S('raw', lines)]

    def leave(self, inner, outer):
        for k in inner.vars:
            if not isinstance(outer.lookup(k), Var):
                outer.dead.add(k)

    def default_idiom(self, n, sc):
        """`if x is None or c: x = e` (no else; `x` an `Option T` name, `e : T`, `c` evaluated with `x` narrowed): afterwards
        `x : T`.  -> `let x ← match x with | none => e | some x => if c then e else x` (e is translated in both scopes)"""
        t = n.test
        if not (isinstance(t, ast.BoolOp) and isinstance(t.op, ast.Or) and len(t.values) == 2 and not n.orelse
                and len(n.body) == 1 and isinstance(n.body[0], ast.Assign) and len(n.body[0].targets) == 1
                and isinstance(n.body[0].targets[0], ast.Name)):
            return None
        nt = self.none_test(t.values[0], sc)
        if not nt or not nt[1] or nt[0] != n.body[0].targets[0].id or hasattr(n.body[0], 'aug_verdict'):
            return None
        name = nt[0]
        v = sc.lookup(name)
        if not sc.tail and not (v.scope is sc):
            return None
        inner = Scope(sc, sc.frame)
        inner.vars[name] = Var(v.ty[1], False, inner, narrowed=True)
        e_none, c, e_some = self.expr(n.body[0].value, sc), self.expr(t.values[1], inner), self.expr(n.body[0].value, inner)
        if e_none.ty != v.ty[1] or e_some.ty != v.ty[1] or c.ty != BOOL:
            self.bad(f'`if {name} is None or …: {name} = …`: the new value is not of the type {self.show(v.ty[1])}', n)
        lines = [(0, f'(match {lname(name)} with'), (1, '| none => do')] + flat(e_none.pre, 2) + [(2, f'pure {e_none.code}'),
                 (1, f'| some {lname(name)} => do')] + flat(c.pre, 2) + [(2, f'if {c.code} then')] + flat(e_some.pre, 3) + \
            [(3, f'pure {e_some.code}'), (2, f'else pure {lname(name)})')]
        mut = self.needs_mut(name, (n.end_lineno, n.end_col_offset), sc)
        sc.vars[name] = Var(v.ty[1], mut, sc)
        sc.assigned.append(name)
        return [S('letmut' if mut else 'let', lines, lname(name), '←')]

    def s_If(self, n, sc):
        idiom = self.default_idiom(n, sc)
        if idiom is not None:
            return idiom
        if has_jump(n.body + n.orelse):
            return self.if_native(n, sc, False)
        snap = self.ntemp
        try:
            return self.if_native(n, sc, True)
        except _Fallback:
            self.ntemp = snap
            if sc.strict:
                raise
        return self.if_expr(n, sc)

    def branches(self, n, sc, mk):
        """the test of an `if` statement and one scope per branch (`x is None` narrows x in the other branch)"""
        nt = self.none_test(n.test, sc)
        if nt:
            name, is_none = nt
            s_none, s_some = mk(), mk()
            s_some.vars[name] = Var(sc.lookup(name).ty[1], False, s_some, narrowed=True)
            return name, None, ((s_none, n.body), (s_some, n.orelse)) if is_none else ((s_none, n.orelse), (s_some, n.body))
        c = self.expr(n.test, sc)
        if c.ty != BOOL:
            self.bad('condition is not a bool (truthiness of other types is not translated)', n.test)
        return None, c, ((mk(), n.body), (mk(), n.orelse))

    def if_native(self, n, sc, strict):
        name, c, ((s1, st1), (s2, st2)) = self.branches(n, sc, lambda: Scope(sc, sc.frame, block=True, strict=strict))
        for s_, st_ in ((s1, st1), (s2, st2)):
            s_.tail = bool(getattr(n, 'tail_orelse', False)) and st_ is n.orelse and sc.tail
        b1, b2 = self.block(st1, s1), self.block(st2, s2)
        self.leave(s1, sc)
        self.leave(s2, sc)
        if name:
            lines = [(0, f'match {lname(name)} with'), (0, '| none =>')] + (flat(b1, 1) or [(1, 'pure ()')]) + \
                [(0, f'| some {lname(name)} =>')] + (flat(b2, 1) or [(1, 'pure ()')])
            return [S('raw', lines)]
        lines = [(0, f'if {c.code} then')] + (flat(b1, 1) or [(1, 'pure ()')])
        if b2:
            lines += [(0, 'else')] + flat(b2, 1)
        return c.pre + [S('raw', lines)]

    def if_expr(self, n, sc):
        name, c, ((s1, st1), (s2, st2)) = self.branches(n, sc, lambda: Scope(sc, self.new_frame()))
        for s_, st_ in ((s1, st1), (s2, st2)):
            if st_:
                s_.end = (st_[-1].end_lineno, st_[-1].end_col_offset)
        b1, b2 = self.block(st1, s1), self.block(st2, s2)
        W = []
        for w in s1.assigned + s2.assigned:
            if w not in W:
                W.append(w)
        for w in W:
            v1, v2, v0 = s1.lookup(w), s2.lookup(w), sc.lookup(w)
            if not isinstance(v1, Var) or not isinstance(v2, Var):
                self.bad(f'`{w}` is bound in only one branch of an `if`', n)
            if v1.ty != v2.ty:
                self.bad(f'`{w}` has different types at the end of the two branches of an `if`', n)
            if sc.block and isinstance(v0, Var) and v0.scope is not sc:
                self.bad(f'an `if` inside a block both introduces locals and re-assigns the enclosing `{w}`', n)
        tup = lname(W[0]) if len(W) == 1 else '(' + ', '.join(lname(w) for w in W) + ')'
        l1 = flat(b1, 2) + [(2, f'pure {tup}')]
        l2 = flat(b2, 2) + [(2, f'pure {tup})')]
        if name:
            lines = [(0, f'(match {lname(name)} with'), (1, '| none => do')] + l1 + [(1, f'| some {lname(name)} => do')] + l2
            pre = []
        else:
            lines = [(0, f'(if {c.code} then do')] + l1 + [(1, 'else do')] + l2
            pre = c.pre
        out = pre + [S('let', lines, tup, '←')]
        for w in W:
            mut = self.needs_mut(w, (n.end_lineno, n.end_col_offset), sc)
            sc.vars[w] = Var(s1.lookup(w).ty, mut, sc)
            sc.dead.discard(w)
            sc.assigned.append(w)
            if mut:
                out.append(S('letmut', [(0, lname(w))], lname(w), ':='))
        return out

    # ---- statically decided tests (specialisation to constant parameters; `isinstance(x, slice)` under A1)
    def static_eval(self, n):
        """True / False when the test is decided by the `const` parameters or the declared types, else None"""
        def val(x):
            if isinstance(x, ast.Constant) and (x.value is None or isinstance(x.value, (bool, int))):
                return True, x.value
            if isinstance(x, ast.Name) and x.id in self.consts:
                return True, self.consts[x.id]
            return False, None
        if isinstance(n, ast.Compare) and len(n.ops) == 1 and isinstance(n.ops[0], (ast.Eq, ast.NotEq, ast.Is, ast.IsNot)):
            # `type(a) == type(b)` for two record parameters of the same Python class (A2: a record-typed value is an
            # instance of exactly the record's class)
            def cls_of(x):
                if isinstance(x, ast.Call) and isinstance(x.func, ast.Name) and x.func.id == 'type' and not x.keywords \
                        and len(x.args) == 1 and isinstance(x.args[0], ast.Name) and x.args[0].id in self.target['params'] \
                        and x.args[0].id not in getattr(self, 'rebound', ()):
                    t = self.ty(self.target['params'][x.args[0].id])
                    if t[0] == 'Rec':
                        if x.args[0].id == 'self':
                            return self.target.get('self_class') or self.target['qualname'].rsplit('.', 1)[0]
                        return self.records[t[1]].get('class')
                return None
            ca, cb = cls_of(n.left), cls_of(n.comparators[0])
            if ca is not None and cb is not None:
                return (ca == cb) == isinstance(n.ops[0], (ast.Eq, ast.Is))
        if isinstance(n, ast.UnaryOp) and isinstance(n.op, ast.Not):
            v = self.static_eval(n.operand)
            return None if v is None else not v
        if isinstance(n, ast.BoolOp):
            vs = [self.static_eval(v) for v in n.values]
            if any(v is None for v in vs):
                return None
            return all(vs) if isinstance(n.op, ast.And) else any(vs)
        if isinstance(n, ast.Compare) and len(n.ops) == 1:
            (ka, a), op, r = val(n.left), n.ops[0], n.comparators[0]
            if not ka:
                return None
            if isinstance(op, (ast.In, ast.NotIn)) and isinstance(r, (ast.Set, ast.Tuple, ast.List)):
                items = [val(x) for x in r.elts]
                if all(k for k, _ in items):
                    hit = any(a == b and (a is None) == (b is None) for _, b in items)
                    return hit if isinstance(op, ast.In) else not hit
                return None
            kb, b = val(r)
            if not kb:
                return None
            if isinstance(op, (ast.Is, ast.IsNot)) and (a is None or b is None):
                return ((a is None) == (b is None)) == isinstance(op, ast.Is)
            if isinstance(op, (ast.Eq, ast.NotEq)):
                return (a == b) == isinstance(op, ast.Eq)
            return None
        if isinstance(n, ast.Call) and isinstance(n.func, ast.Name) and n.func.id == 'isinstance' and not n.keywords \
                and len(n.args) == 2 and isinstance(n.args[0], ast.Name) and isinstance(n.args[1], ast.Name) \
                and n.args[1].id == 'slice' and n.args[0].id in self.target['params']:
            t = self.ty(self.target['params'][n.args[0].id])
            t = t[1] if t[0] == 'Option' else t
            if t[0] in ('List', 'Nat', 'Bool'):
                # assumption A1: a declared list / int / bool is not a slice (re-binding it cannot make it one either:
                # no expression of the translated subset denotes a slice)
                return False
        if isinstance(n, ast.Call) and isinstance(n.func, ast.Name) and n.func.id == 'isinstance' and not n.keywords \
                and len(n.args) == 2 and isinstance(n.args[0], ast.Name) and isinstance(n.args[1], ast.Name) \
                and n.args[1].id == 'Number' and self.number_ok and n.args[0].id in self.target['params'] \
                and n.args[0].id not in getattr(self, 'rebound', ()):
            t = self.ty(self.target['params'][n.args[0].id])
            t = t[1] if t[0] == 'Option' else t
            if t[0] in ('Pair', 'List', 'Set'):
                return False          # assumption A1: a declared tuple / list / set is not a `numbers.Number`
            if t[0] in ('Num', 'Nat'):
                return True
        return None

    def fold(self, stmts):
        """drop the branches of statically decided `if`s (they are NOT translated; a comment is left)"""
        out = []
        for k, s in enumerate(stmts):
            if isinstance(s, ast.If):
                v = self.static_eval(s.test)
                if v is not None:
                    out.append(Dead(f'`{ast.unparse(s.test)}` is statically {v}: the other branch is unreachable, not translated', s))
                    chosen = self.fold(s.body if v else s.orelse)
                    out.extend(chosen)
                    if self.terminates(chosen):
                        if any(not is_docstring(x) for x in stmts[k + 1:]):
                            out.append(Dead('the rest of this block is unreachable, not translated', s))
                        break
                    continue
                s.body, s.orelse = self.fold(s.body), self.fold(s.orelse)
            elif isinstance(s, ast.For):
                s.body = self.fold(s.body)
            out.append(s)
        return out

    # ---- pre-pass: `try … except E: raise E(…)` and `x.append(e)` on an un-aliased local list
    ERR_CLASSES = ('KeyError', 'IndexError', 'AssertionError', 'ValueError', 'TypeError')

    def harmless_message(self, x):
        """an exception argument whose evaluation cannot raise or have effects: a string constant, or an f-string of
        plain local names without conversions / format specs"""
        if isinstance(x, ast.Constant) and isinstance(x.value, str):
            return True
        return isinstance(x, ast.JoinedStr) and all(
            isinstance(v, ast.Constant) or isinstance(v, ast.FormattedValue) and isinstance(v.value, ast.Name)
            and v.conversion == -1 and v.format_spec is None for v in x.values)

    def untry(self, stmts):
        """`try: B  except E [as e]: raise E(message)` (one handler, no else/finally) is `B` as far as exception CLASSES
        go: an `E` raised in B leaves as an `E` (only its message changes, and messages are not modelled); every other
        exception propagates unchanged.  The `try` is replaced by its body (a comment is left)."""
        out = []
        for s_ in stmts:
            for fld in ('body', 'orelse'):
                if isinstance(s_, (ast.For, ast.If, ast.Try)) and getattr(s_, fld, None):
                    setattr(s_, fld, self.untry(getattr(s_, fld)))
            if isinstance(s_, ast.Try):
                h = s_.handlers[0] if len(s_.handlers) == 1 else None
                ok = h is not None and not s_.orelse and not s_.finalbody and isinstance(h.type, ast.Name) \
                    and h.type.id in self.ERR_CLASSES and len(h.body) == 1 and isinstance(h.body[0], ast.Raise) \
                    and h.body[0].cause is None and isinstance(h.body[0].exc, ast.Call) \
                    and isinstance(h.body[0].exc.func, ast.Name) and h.body[0].exc.func.id == h.type.id \
                    and not h.body[0].exc.keywords and all(self.harmless_message(a) for a in h.body[0].exc.args)
                if not ok:
                    self.bad('`try` other than `try: … except E: raise E(message)`', s_)
                if h.name and any(isinstance(x, ast.Name) and x.id == h.name for b in s_.body for x in ast.walk(b)):
                    self.bad(f'`{h.name}` (bound by `except … as`) is also a name of the `try` body', s_)
                out.append(Dead(f'`try: … except {h.type.id}: raise {h.type.id}(…)`: the class of the exception is unchanged, '
                                f'the body is translated in place', s_))
                out.extend(s_.body)
            else:
                out.append(s_)
        return out

    def unappend(self, fn):
        """`x.append(e)` as a statement becomes `x = x + [e]` when `x` is a local list nobody else can see (A5):
        `x` is not a parameter, every binding of `x` is a fresh list (display, comprehension, `list(…)`, `+`, `*`), and
        every other read of `x` comes after the last `x.append` and outside every loop that contains one."""
        apps = {}
        for st in ast.walk(fn):
            if isinstance(st, ast.Expr) and isinstance(st.value, ast.Call) and isinstance(st.value.func, ast.Attribute) \
                    and st.value.func.attr == 'append' and isinstance(st.value.func.value, ast.Name):
                if len(st.value.args) != 1 or st.value.keywords:
                    self.bad('`append` with other than one argument', st)
                apps.setdefault(st.value.func.value.id, []).append(st)
            elif isinstance(st, ast.AugAssign):
                # `x |= e` / `x &= e` / `x -= e` update a `set` IN PLACE (the same discipline as `append`), but only
                # re-bind a `frozenset`; which one `x` is, is known when the statement is translated (s_Assign)
                if not (isinstance(st.op, (ast.BitOr, ast.BitAnd, ast.Sub)) and isinstance(st.target, ast.Name)):
                    self.bad('augmented assignment other than `x |= e`, `x &= e`, `x -= e` on a set', st)
                apps.setdefault(st.target.id, []).append(st)
        if not apps:
            return
        params = {a.arg for a in fn.args.args}
        loops = [l for l in ast.walk(fn) if isinstance(l, ast.For)]
        deferred = {}
        for x, sts in apps.items():
            try:
                self.alias_discipline(fn, x, sts, params, loops)
            except Untranslatable as e:
                if all(isinstance(st, ast.AugAssign) for st in sts):
                    deferred[x] = e          # harmless if `x` turns out to be a frozenset
                else:
                    raise
        self.rewrite_mutations(fn, apps, deferred)

    def alias_discipline(self, fn, x, sts, params, loops):
        if x in params:
            self.bad(f'`{x}.append` / `{x} |= …`: `{x}` is a parameter (the caller could see the mutation)', sts[0])
        recv_ids = {id(st.value.func.value) for st in sts if isinstance(st, ast.Expr)}
        last = max((st.lineno, st.col_offset) for st in sts)
        app_loops = [l for l in loops if any(any(st is y for y in ast.walk(l)) for st in sts)]
        for a in ast.walk(fn):
            if isinstance(a, (ast.Assign, ast.For, ast.comprehension)):
                tg = a.targets if isinstance(a, ast.Assign) else [a.target]
                if any(isinstance(t, ast.Name) and t.id == x for t0 in tg for t in ast.walk(t0)):
                    fresh = isinstance(a, ast.Assign) and len(a.targets) == 1 and isinstance(a.targets[0], ast.Name) and (
                        isinstance(a.value, (ast.List, ast.ListComp))
                        or isinstance(a.value, ast.BinOp) and isinstance(a.value.op, (ast.Add, ast.Mult, ast.BitOr, ast.BitAnd))
                        or isinstance(a.value, ast.Call) and isinstance(a.value.func, ast.Name)
                        and a.value.func.id in ('list', 'set'))
                    if not fresh:
                        self.bad(f'`{x}.append` / `{x} |= …`: `{x}` is not always bound to a fresh list / set', a)
            if isinstance(a, ast.Name) and a.id == x and isinstance(a.ctx, ast.Load) and id(a) not in recv_ids:
                if (a.lineno, a.col_offset) <= last or any(any(a is y for y in ast.walk(l)) for l in app_loops):
                    self.bad(f'`{x}` is read where a later `{x}.append` / `{x} |= …` could be seen through an alias', a)

    def rewrite_mutations(self, fn, apps, deferred):
        class R(ast.NodeTransformer):
            def visit_Expr(self_, st):
                if any(st is y for ys in apps.values() for y in ys):
                    x = st.value.func.value.id
                    new = ast.Assign(targets=[ast.Name(id=x, ctx=ast.Store())],
                                     value=ast.BinOp(left=ast.Name(id=x, ctx=ast.Load()), op=ast.Add(),
                                                     right=ast.List(elts=[st.value.args[0]], ctx=ast.Load())))
                    ast.copy_location(new, st)
                    for y in ast.walk(new):
                        if not hasattr(y, 'lineno'):
                            ast.copy_location(y, st)
                    new.end_lineno, new.end_col_offset = st.end_lineno, st.end_col_offset
                    return new
                return st

            def visit_AugAssign(self_, st):
                new = ast.Assign(targets=[ast.Name(id=st.target.id, ctx=ast.Store())],
                                 value=ast.BinOp(left=ast.Name(id=st.target.id, ctx=ast.Load()), op=st.op, right=st.value))
                new.aug_verdict = deferred.get(st.target.id)
                ast.copy_location(new, st)
                for y in ast.walk(new):
                    if not hasattr(y, 'lineno'):
                        ast.copy_location(y, st)
                new.end_lineno, new.end_col_offset = st.end_lineno, st.end_col_offset
                return new
        R().visit(fn)

    def s_Dead(self, n, sc):
        return [S('raw', [(0, '-- ' + n.text)])]

    def block(self, stmts, sc):
        out, stmts, k = [], list(stmts), 0
        while k < len(stmts):
            s = stmts[k]
            if isinstance(s, ast.If) and self.none_test(s.test, sc) and not s.orelse and self.terminates(s.body) \
                    and stmts[k + 1:]:
                # `if x is None: …return` followed by the rest  ==  `if x is None: …return  else: rest` (x narrowed there)
                s2 = ast.If(test=s.test, body=s.body, orelse=stmts[k + 1:])
                ast.copy_location(s2, s)
                s2.end_lineno, s2.end_col_offset = stmts[-1].end_lineno, stmts[-1].end_col_offset
                s2.tail_orelse = True
                out.extend(self.s_If(s2, sc))
                break
            m = getattr(self, 's_' + type(s).__name__, None)
            if m is None:
                self.bad(f'statement `{type(s).__name__}`', s)
            out.extend(m(s, sc))
            k += 1
        return out

    # ---- the function
    def terminates(self, stmts):
        stmts = [s for s in stmts if not is_docstring(s) and not isinstance(s, ast.Pass)]
        if not stmts:
            return False
        last = stmts[-1]
        if isinstance(last, ast.Return):
            return True
        return isinstance(last, ast.If) and self.terminates(last.body) and self.terminates(last.orelse)

    def translate(self):
        fn, tg = self.fn, self.target
        a = fn.args
        if a.vararg or a.kwarg or a.kwonlyargs or a.posonlyargs:
            self.bad('*args / **kwargs / keyword-only parameters', fn)
        names = [x.arg for x in a.args]
        if sorted(names) != sorted(list(tg['params']) + list(self.consts)):
            self.bad(f'parameters {names} differ from the declared {sorted(list(tg["params"]) + list(self.consts))}', fn)
        # names bound anywhere in the body (a constant parameter / a statically typed parameter must not be re-bound)
        self.rebound = {t.id for n in ast.walk(fn) for t in ast.walk(n) if isinstance(n, (ast.Assign, ast.For, ast.comprehension))
                        and isinstance(t, ast.Name) and isinstance(t.ctx, ast.Store)}
        if self.rebound & set(self.consts):
            self.bad(f'constant parameter(s) {sorted(self.rebound & set(self.consts))} are re-bound', fn)
        defaults = [None] * (len(names) - len(a.defaults)) + list(a.defaults)
        top = Scope(None, 0)
        sig = []
        self.pnames, self.ptypes, self.defaults = [], {}, {}
        for nm, d in zip(names, defaults):
            if nm in self.consts:
                c = self.consts[nm]
                if c is not None and (not isinstance(c, (bool, int)) or (not isinstance(c, bool) and c < 0)):
                    self.bad(f'constant for `{nm}` is not None / a bool / a non-negative int', fn)
                continue
            t = self.ty(tg['params'][nm])
            is_none_default = isinstance(d, ast.Constant) and d.value is None
            if d is not None and not is_none_default:
                ok = isinstance(d, ast.Constant) and (isinstance(d.value, bool) and t == BOOL or
                                                      type(d.value) is int and d.value >= 0 and t == NAT)
                if not ok:
                    self.bad(f'default value of `{nm}` other than None / a bool / a non-negative int of the declared type', fn)
                self.defaults[nm] = d.value
            if is_none_default and t[0] != 'Option':
                self.bad(f'`{nm}` defaults to None but is not declared Option', fn)
            top.vars[nm] = Var(t, False, top)
            self.pnames.append(nm)
            self.ptypes[nm] = t
            sig.append(f'({lname(nm)} : {self.show(t)})')
        self.ret = self.ty(tg['returns'])
        self.sig_ok = True          # the declared signature matches the source: callers can be translated against it
        cls, meth = tg['qualname'].rsplit('.', 1) if '.' in tg['qualname'] else (None, tg['qualname'])
        if tg.get('self_class') and cls != tg['self_class']:
            chain = self.mro() or []
            owner = next((c for c in chain if any(isinstance(d, ast.FunctionDef) and d.name == meth
                                                  for d in self.classes[c].body)), None)
            if owner != cls:
                self.bad(f'`{meth}` of a {tg["self_class"]} receiver resolves to {owner}.{meth}, not to {cls}.{meth}', fn)
        fn.body = self.untry(fn.body)
        self.unappend(fn)
        fn.body = self.fold(fn.body)
        self.find_nested(fn)
        if not self.terminates(fn.body):
            self.bad('the function may fall off its end (returns None)', fn)
        body = self.block(fn.body, top)
        tps = []
        for t_ in list(self.ptypes.values()) + [self.ret]:
            for r_ in re.findall(r"'Rec', '(\w+)'", repr(t_)):
                tp = self.records[r_].get('tparams')
                if tp and tp not in tps:
                    tps.append(tp)
        if self.unit_cfg().get('extra_params'):
            tps.append(self.unit_cfg()['extra_params'])
        head = f'def {tg["lean"]} ' + ' '.join(tps + sig) + f' : Except Fca.PyErr {self.show(self.ret, False)} := do'
        return [head] + render(body, 1)


BUILTINS_USED = {'frozenset', 'type', 'min', 'max', 'len', 'all', 'any', 'sum', 'int', 'bool', 'range', 'zip', 'enumerate', 'isinstance', 'slice', 'list', 'set',
                 'KeyError', 'IndexError', 'AssertionError', 'ValueError', 'TypeError'}


def module_level_names(tree):
    out = set()
    for s in tree.body:
        if isinstance(s, (ast.Import, ast.ImportFrom)):
            out |= {(a.asname or a.name).split('.')[0] for a in s.names}
        elif isinstance(s, (ast.FunctionDef, ast.AsyncFunctionDef, ast.ClassDef)):
            out.add(s.name)
        else:
            out |= {n.id for n in ast.walk(s) if isinstance(n, ast.Name) and isinstance(n.ctx, ast.Store)}
    return out


def find_function(tree, qualname, prop=False):
    """the FunctionDef of `qualname`; with prop: the getter of the `@property` of that name (its `@name.setter /
    .deleter` companions are ignored: the translated code only reads the property)"""
    node = tree
    parts = qualname.split('.')
    for k, part in enumerate(parts):
        nxt = [c for c in node.body if isinstance(c, (ast.ClassDef, ast.FunctionDef, ast.AsyncFunctionDef))
               and c.name == part]
        if prop and k == len(parts) - 1:
            def is_companion(c):
                return isinstance(c, ast.FunctionDef) and len(c.decorator_list) == 1 \
                    and isinstance(c.decorator_list[0], ast.Attribute) and isinstance(c.decorator_list[0].value, ast.Name) \
                    and c.decorator_list[0].value.id == part and c.decorator_list[0].attr in ('setter', 'deleter')
            nxt = [c for c in nxt if not is_companion(c)]
        if len(nxt) != 1:
            raise Untranslatable(f'`{qualname}` not found (or defined more than once)')
        node = nxt[0]
    if not isinstance(node, ast.FunctionDef):
        raise Untranslatable(f'`{qualname}` is not a plain function')
    decos = [d.id if isinstance(d, ast.Name) else None for d in node.decorator_list]
    if prop:
        if decos != ['property']:
            raise Untranslatable(f'`{qualname}` is not a plain `@property`')
    elif any(d not in ('staticmethod', 'abstractmethod') for d in decos):
        raise Untranslatable(f'`{qualname}` is decorated')
    return node


def load_config(path=TARGETS):
    cfg = json.load(open(path))
    TVARS.clear()
    TVARS.update(cfg.get('tvars', {}))
    return cfg


def translate_all(cfg=None, root=None):
    """-> (blocks: {lean name: text or None}, errors: {lean name: Untranslatable}, order: [lean names])"""
    cfg = cfg or load_config()
    root = root or repo()
    trees, done, blocks, errors, order = {}, [], {}, {}, []

    def get_tree(file):
        if file not in trees:
            try:
                trees[file] = ast.parse(open(os.path.join(root, file)).read())
            except (OSError, SyntaxError) as e:
                raise Untranslatable(f'cannot parse {file}: {type(e).__name__}')
        return trees[file]

    def get_classes(file):
        return {c.name: c for c in get_tree(file).body if isinstance(c, ast.ClassDef)}
    for tg in cfg['targets']:
        order.append(tg['lean'])
        try:
            tree = get_tree(tg['file'])
            classes = get_classes(tg['file'])
            shadowed = BUILTINS_USED & module_level_names(tree)
            if shadowed:
                raise Untranslatable(f'{tg["file"]} re-binds the builtin name(s) {sorted(shadowed)} at module level')
            ft = FunctionTranslator(find_function(tree, tg['qualname'], bool(tg.get('property'))), tg, cfg, done, classes,
                                    get_classes)
            def imported_once(name, module):
                return sum(1 for s_ in tree.body for a_ in getattr(s_, 'names', [])
                           if isinstance(s_, (ast.Import, ast.ImportFrom)) and (a_.asname or a_.name) == name) == 1 \
                    and any(isinstance(s_, ast.ImportFrom) and s_.module == module and s_.level == 0
                            and any(a_.name == name and a_.asname is None for a_ in s_.names) for s_ in tree.body) \
                    and name not in {x.id for s_ in tree.body if not isinstance(s_, (ast.Import, ast.ImportFrom, ast.ClassDef, ast.FunctionDef))
                                     for x in ast.walk(s_) if isinstance(x, ast.Name) and isinstance(x.ctx, ast.Store)} \
                    and not any(isinstance(s_, (ast.ClassDef, ast.FunctionDef)) and s_.name == name for s_ in tree.body)
            ft.copy_ok = imported_once('copy', 'copy')
            ft.number_ok = sum(1 for s_ in tree.body for a_ in getattr(s_, 'names', [])
                               if isinstance(s_, (ast.Import, ast.ImportFrom)) and (a_.asname or a_.name) == 'Number') == 1 \
                and any(isinstance(s_, ast.ImportFrom) and s_.module == 'numbers' and s_.level == 0
                        and any(a_.name == 'Number' and a_.asname is None for a_ in s_.names) for s_ in tree.body) \
                and 'Number' not in {x.id for s_ in tree.body if not isinstance(s_, (ast.Import, ast.ImportFrom, ast.ClassDef, ast.FunctionDef))
                                     for x in ast.walk(s_) if isinstance(x, ast.Name) and isinstance(x.ctx, ast.Store)} \
                and not any(isinstance(s_, (ast.ClassDef, ast.FunctionDef)) and s_.name == 'Number' for s_ in tree.body)
            try:
                lines = ft.translate()
            finally:
                # callers are translated against the DECLARED signature even when this body is refused, so that one
                # untranslatable function does not drag the functions calling it out of the subset as well
                if getattr(ft, 'sig_ok', False):
                    done.append(dict(qualname=tg['qualname'], lean=tg['lean'], consts=ft.consts, types=ft.ptypes,
                                     ret=ft.ret, params=[x.arg for x in ft.fn.args.args][1:], file=tg['file'],
                                     property=bool(tg.get('property')), defaults=ft.defaults, unit=tg.get('unit', ''),
                                     recv=tg.get('self_class') or tg['qualname'].rsplit('.', 1)[0]))
            blocks[tg['lean']] = '\n'.join(lines) + '\n'
        except (Untranslatable, _Fallback) as e:
            if isinstance(e, _Fallback):
                e = Untranslatable('an `if` nested in a loop introduces locals')
            e.func = tg['qualname'] + ''.join(f' [{k} = {v}]' for k, v in sorted(tg.get('const', {}).items()))
            errors[tg['lean']] = e
            blocks[tg['lean']] = None
    return blocks, errors, order


def describe(t):
    """`file:qualname [axis = 1] [self : C]` — how a target is named in comments"""
    extra = ''.join(f' [{k} = {v}]' for k, v in sorted(t.get('const', {}).items()))
    extra += f' [self : {t["self_class"]}]' if t.get('self_class') else ''
    return f'{t["file"]}:{t["qualname"]}{extra}'


MARK = '-- @target '


DEFAULT_UNITS = {'': {'file': 'Generated.lean', 'imports': ['Fca.Gen.Rt']}}


def units(cfg):
    """unit name -> {file (under lean/Fca/Gen/), imports}; a target belongs to the unit named by its "unit" (default '')"""
    return cfg.get('units') or DEFAULT_UNITS


def unit_path(cfg, unit):
    return os.path.join(VERIF, 'lean', 'Fca', 'Gen', units(cfg)[unit]['file'])


def unit_module(cfg, unit):
    return 'Fca.Gen.' + units(cfg)[unit]['file'][:-len('.lean')]


def assemble(cfg, blocks, order, unit=''):
    by = {t['lean']: t for t in cfg['targets']}
    mine = [n for n in order if by[n].get('unit', '') == unit]
    srcs = sorted({f'{by[n]["file"]}:{by[n]["qualname"]}' for n in mine if blocks.get(n)})
    out = ['-- GENERATED by harness/py2lean.py from ' + ', '.join(srcs) + '; do not edit',
           '-- (regenerate with `python harness/genside.py --regen`; equivalence with the hand-written models: Fca/Gen/Equiv*.lean)']
    out += [f'import {m}' for m in units(cfg)[unit]['imports']] + ['', f'namespace {NAMESPACE}', '']
    for name in mine:
        if not blocks.get(name):
            continue
        t = by[name]
        out.append(f'{MARK}{name} <- {describe(t)} (serves {", ".join(t["props"])})')
        out.append(blocks[name])
    out.append(f'end {NAMESPACE}')
    return '\n'.join(out) + '\n'


def split_blocks(text):
    """generated text -> {lean name: block text} (inverse of `assemble` for the per-target parts)"""
    res, cur = {}, None
    for line in text.split('\n'):
        if line.startswith(MARK):
            cur = line[len(MARK):].split(' ')[0]
            res[cur] = []
        elif line.startswith('end ' + NAMESPACE):
            cur = None
        elif cur is not None:
            res[cur].append(line)
    return {k: '\n'.join(v).rstrip('\n') + '\n' for k, v in res.items()}


if __name__ == '__main__':
    cfg_ = load_config()
    blocks_, errors_, order_ = translate_all(cfg_)
    for u_ in units(cfg_):
        sys.stdout.write(assemble(cfg_, blocks_, order_, u_))
    for k_, e_ in errors_.items():
        print(f'-- {k_}: {e_}', file=sys.stderr)

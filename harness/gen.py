"""Shared generators: every random choice derives from one `random.Random(seed)`."""
import itertools
import random


def all_tables(n, m):
    """All n×m 0/1 tables (rows as lists of ints)."""
    for bits in itertools.product((0, 1), repeat=n * m):
        yield [list(bits[i * m:(i + 1) * m]) for i in range(n)]


def tables_upto(nmax, mmax, nmin=1, mmin=1, cells=None):
    for n in range(nmin, nmax + 1):
        for m in range(mmin, mmax + 1):
            if cells is not None and n * m > cells:
                continue
            yield from all_tables(n, m)


def ordered_sublists(items, kmax=None):
    """All duplicate-free ordered selections (so unsorted selections are covered)."""
    items = list(items)
    kmax = len(items) if kmax is None else min(kmax, len(items))
    for k in range(kmax + 1):
        yield from (list(p) for p in itertools.permutations(items, k))


def sorted_sublists(items):
    items = list(items)
    for k in range(len(items) + 1):
        yield from (list(c) for c in itertools.combinations(items, k))


STRUCTURED = ('random', 'random', 'random', 'nominal', 'ordinal', 'contranominal', 'duprows', 'dupcols',
              'alltrue', 'allfalse', 'emptyrow', 'fullcol')


def random_table(rng, nmax, mmax, nmin=1, mmin=1):
    """A random table from a mix of densities and structured families."""
    n, m = rng.randint(nmin, nmax), rng.randint(mmin, mmax)
    fam = rng.choice(STRUCTURED)
    d = rng.choice((0.2, 0.5, 0.8))
    t = [[int(rng.random() < d) for _ in range(m)] for _ in range(n)]
    if fam == 'nominal':
        t = [[int(j == i % m) for j in range(m)] for i in range(n)]
    elif fam == 'ordinal':
        t = [[int(j <= i % m) for j in range(m)] for i in range(n)]
    elif fam == 'contranominal':
        t = [[int(j != i % m) for j in range(m)] for i in range(n)]
    elif fam == 'duprows' and n > 1:
        t[rng.randrange(n)] = list(t[rng.randrange(n)])
    elif fam == 'dupcols' and m > 1:
        a, b = rng.randrange(m), rng.randrange(m)
        for r in t:
            r[a] = r[b]
    elif fam == 'alltrue':
        t = [[1] * m for _ in range(n)]
    elif fam == 'allfalse':
        t = [[0] * m for _ in range(n)]
    elif fam == 'emptyrow':
        t[rng.randrange(n)] = [0] * m
    elif fam == 'fullcol':
        a = rng.randrange(m)
        for r in t:
            r[a] = 1
    return t


def random_sel(rng, n, allow_none=False):
    """Random duplicate-free ordered selection from range(n) (or None)."""
    if allow_none and rng.random() < 0.3:
        return None
    k = rng.randint(0, n)
    return rng.sample(range(n), k)


def is_mixed(rows):
    flat = [v for r in rows for v in r]
    return 0 < sum(flat) < len(flat)


def shrink_table_case(case, row_keys=(), col_keys=()):
    """Generic shrinks of a dict case with 'rows' and index-list fields that refer to rows / columns."""
    rows = case['rows']
    n, m = len(rows), (len(rows[0]) if rows else 0)

    def remap(xs, k):
        if xs is None:
            return None
        return [x - (x > k) for x in xs if x != k]
    if n > 1:
        for i in range(n):
            c = dict(case)
            c['rows'] = rows[:i] + rows[i + 1:]
            for key in row_keys:
                c[key] = remap(case.get(key), i)
            yield c
    if m > 1:
        for j in range(m):
            c = dict(case)
            c['rows'] = [r[:j] + r[j + 1:] for r in rows]
            for key in col_keys:
                c[key] = remap(case.get(key), j)
            yield c
    for key in tuple(row_keys) + tuple(col_keys):
        xs = case.get(key)
        if xs:
            for i in range(len(xs)):
                c = dict(case)
                c[key] = xs[:i] + xs[i + 1:]
                yield c
    for i in range(n):
        for j in range(m):
            if rows[i][j]:
                c = dict(case)
                c['rows'] = [list(r) for r in rows]
                c['rows'][i][j] = 0
                yield c


# ---------------------------------------------------------------------------------------------------------
# class H4 (DESIGN section 14): edits that change the content but keep a hash the library could validate a memo by
# ---------------------------------------------------------------------------------------------------------
def adler_collide_name(name):
    """A different string of the same length with the same zlib.adler32 *wherever it is embedded in a longer text*:
    (+1, -2, +1) on three consecutive characters keeps both running sums ('bdb' -> 'cbc').  None when no position
    of `name` allows it (needs three consecutive characters whose shifted versions stay plain letters/digits)."""
    def ok(ch):
        return ch.isalnum() and ord(ch) < 128
    for i in range(len(name) - 2):
        a, b, c = name[i], name[i + 1], name[i + 2]
        for sa, sb, sc in ((1, -2, 1), (-1, 2, -1)):
            try:
                a2, b2, c2 = chr(ord(a) + sa), chr(ord(b) + sb), chr(ord(c) + sc)
            except ValueError:
                continue
            if ok(a) and ok(b) and ok(c) and ok(a2) and ok(b2) and ok(c2):
                return name[:i] + a2 + b2 + c2 + name[i + 3:]
    return None


def fixed_hash_text(objs, attrs, rows):
    """the text FormalContext.hash_fixed feeds to zlib.adler32 (rows as 0/1 lists)"""
    return str(list(objs)) + str(list(attrs)) + str([[bool(v) for v in r] for r in rows])


def adler_collide_rows(objs, attrs, rows, limit=200000):
    """A DIFFERENT 0/1 table of the same shape whose FormalContext.hash_fixed() equals that of `rows` (same names);
    None if the bounded search finds none.  Deterministic (enumeration order of itertools.product)."""
    import zlib
    n, m = len(rows), len(rows[0]) if rows else 0
    if n * m == 0 or n * m > 20:
        return None
    target = zlib.adler32(fixed_hash_text(objs, attrs, rows).encode())
    k = 0
    for t in all_tables(n, m):
        k += 1
        if k > limit:
            return None
        if t != [list(r) for r in rows] and zlib.adler32(fixed_hash_text(objs, attrs, t).encode()) == target:
            return t
    return None


def pyhash_collide_value(v):
    """A different number with the same CPython hash: -1 <-> -2 (ints and floats).  None otherwise."""
    if isinstance(v, bool):
        return None
    if isinstance(v, int) and v in (-1, -2):
        return -3 - v
    if isinstance(v, float) and v in (-1.0, -2.0):
        return -3.0 - v
    return None

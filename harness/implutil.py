"""Helpers for calling the real FCApy (imported from /repo's working tree)."""
import functools

BACKENDS = ('BinTableLists', 'BinTableBitarray', 'BinTableNumpy')
SHORT = {'BinTableLists': 'lists', 'BinTableBitarray': 'bitarray', 'BinTableNumpy': 'numpy'}


def to_int(x):
    return int(x)


def ints(xs):
    return [int(x) for x in xs]


def bools01(xs):
    return [int(bool(x)) for x in xs]


def exc_name(e):
    return type(e).__name__


@functools.lru_cache(maxsize=256)
def _ctx(rows_key, be, objs, attrs):
    from fcapy.context import FormalContext
    data = [[bool(v) for v in r] for r in rows_key]
    return FormalContext(data=data, object_names=list(objs) if objs is not None else None,
                         attribute_names=list(attrs) if attrs is not None else None, backend=be)


def make_context(rows, be, objs=None, attrs=None):
    return _ctx(tuple(tuple(r) for r in rows), be, tuple(objs) if objs is not None else None,
                tuple(attrs) if attrs is not None else None)

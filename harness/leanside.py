"""Lean side of a check: build, proof-obligation audit, and the line-protocol driver."""
import json
import os
import re
import subprocess
import time

VERIF = os.path.dirname(os.path.dirname(os.path.abspath(__file__)))
LEAN_DIR = os.path.join(VERIF, 'lean')
DRIVER = os.path.join(LEAN_DIR, '.lake', 'build', 'bin', 'fcadriver')
ALLOWED_AXIOMS = {'propext', 'Classical.choice', 'Quot.sound'}
FORBIDDEN = re.compile(r'\bsorry\b|\badmit\b|^\s*axiom\s|native_decide|bv_decide|implemented_by|\bunsafe\s|maxHeartbeats\s+0')


def _env():
    e = dict(os.environ)
    e.pop('PYTHONPATH', None)
    return e


def build(targets=('Fca', 'fcadriver'), timeout=3600):
    """`lake build` (no-op when up to date). Returns (ok, output)."""
    p = subprocess.run(['lake', 'build', *targets], cwd=LEAN_DIR, env=_env(),
                       stdout=subprocess.PIPE, stderr=subprocess.STDOUT, text=True, timeout=timeout)
    return p.returncode == 0, p.stdout


def strip_comments(src):
    """Remove `/- ... -/` (nested) and `-- ...` comments."""
    out, i, depth, n = [], 0, 0, len(src)
    while i < n:
        if src.startswith('/-', i):
            depth += 1
            i += 2
        elif depth and src.startswith('-/', i):
            depth -= 1
            i += 2
        elif depth:
            if src[i] == '\n':
                out.append('\n')
            i += 1
        elif src.startswith('--', i):
            while i < n and src[i] != '\n':
                i += 1
        else:
            out.append(src[i])
            i += 1
    return ''.join(out)


def theorems_of(path):
    """Fully qualified names of the `theorem`s declared in a Props file."""
    src = strip_comments(open(path).read())
    ns, names = [], []
    for line in src.split('\n'):
        m = re.match(r'\s*namespace\s+(\S+)', line)
        if m:
            ns.append(m.group(1))
            continue
        m = re.match(r'\s*end\s+(\S+)\s*$', line)
        if m and ns and ns[-1].split('.')[-1] == m.group(1).split('.')[-1]:
            ns.pop()
            continue
        m = re.match(r'\s*(?:private\s+|protected\s+)?theorem\s+([^\s:({\[]+)', line)
        if m:
            names.append('.'.join(ns + [m.group(1)]))
    return names


def forbidden_hits():
    hits = []
    for root, _, files in os.walk(LEAN_DIR):
        if '.lake' in root:
            continue
        for f in files:
            if not f.endswith('.lean'):
                continue
            p = os.path.join(root, f)
            for k, line in enumerate(strip_comments(open(p).read()).split('\n'), 1):
                if FORBIDDEN.search(line):
                    hits.append(f'{os.path.relpath(p, LEAN_DIR)}:{k}: {line.strip()}')
    return hits


def audit(prop, extra_modules=()):
    """Check the proof obligations of one property.

    Returns dict(obligations, discharged, theorems=[{name, axioms, ok}], problems=[...], partial=[...]).
    """
    res = dict(obligations=0, discharged=0, theorems=[], problems=[], partial=[])
    ok, out = build()
    if not ok:
        res['problems'].append('lake build failed: ' + out[-2000:])
    props_file = os.path.join(LEAN_DIR, 'Fca', 'Props', f'{prop}.lean')
    if not os.path.exists(props_file):
        res['problems'].append(f'missing {props_file}')
        return res
    names = theorems_of(props_file)
    res['obligations'] = len(names)
    res['partial'] = [n for n in names if n.endswith('_partial')]
    hits = forbidden_hits()
    if hits:
        res['problems'].append('forbidden constructs: ' + '; '.join(hits[:10]))
    if not ok or not names:
        if not names:
            res['problems'].append('no theorems found')
        return res
    audit_dir = os.path.join(LEAN_DIR, '.lake', 'audit')
    os.makedirs(audit_dir, exist_ok=True)
    af = os.path.join(audit_dir, f'Audit_{prop}_{os.getpid()}.lean')
    with open(af, 'w') as f:
        f.write(f'import Fca.Props.{prop}\n')
        for m in extra_modules:
            f.write(f'import {m}\n')
        for n in names:
            f.write(f'#print axioms {n}\n')
    p = subprocess.run(['lake', 'env', 'lean', af], cwd=LEAN_DIR, env=_env(),
                       stdout=subprocess.PIPE, stderr=subprocess.STDOUT, text=True, timeout=1800)
    os.unlink(af)
    text = p.stdout.replace('\n  ', ' ').replace('\n ', ' ')
    found = {}
    for m in re.finditer(r"'([^']+)' depends on axioms: \[([^\]]*)\]", text):
        found[m.group(1)] = [a.strip() for a in m.group(2).split(',') if a.strip()]
    for m in re.finditer(r"'([^']+)' does not depend on any axioms", text):
        found[m.group(1)] = []
    for n in names:
        if n not in found:
            res['theorems'].append(dict(name=n, axioms=None, ok=False))
            res['problems'].append(f'theorem {n} does not check: ' + p.stdout[-800:])
            continue
        bad = [a for a in found[n] if a not in ALLOWED_AXIOMS]
        good = not bad
        res['theorems'].append(dict(name=n, axioms=found[n], ok=good))
        if good:
            res['discharged'] += 1
        else:
            res['problems'].append(f'theorem {n} depends on non-standard axioms {bad}')
    return res


def leanchecker(prop):
    """Independent re-check of the compiled .olean of the property's module (thorough tier)."""
    t0 = time.time()
    p = subprocess.run(['lake', 'env', 'leanchecker', f'Fca.Props.{prop}'], cwd=LEAN_DIR, env=_env(),
                       stdout=subprocess.PIPE, stderr=subprocess.STDOUT, text=True, timeout=3600)
    return p.returncode == 0, p.stdout[-1500:], time.time() - t0


def drive(requests, timeout=3600):
    """Send JSON requests (list of dicts) to the driver; return list of reply dicts."""
    if not requests:
        return []
    data = '\n'.join(json.dumps(r, separators=(',', ':')) for r in requests) + '\n'
    p = subprocess.run([DRIVER], input=data, stdout=subprocess.PIPE, stderr=subprocess.PIPE,
                       text=True, timeout=timeout)
    lines = p.stdout.split('\n')
    if lines and lines[-1] == '':
        lines.pop()
    if p.returncode != 0 or len(lines) != len(requests):
        raise RuntimeError(f'driver failed: rc={p.returncode} got {len(lines)} replies for '
                           f'{len(requests)} requests; stderr={p.stderr[-500:]}')
    return [json.loads(l) for l in lines]

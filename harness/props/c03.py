"""C03 — lattice order, covers, top/bottom, meet and join are those of extent inclusion."""
import glob
import itertools
import json
import os
import random

import gen as G
from implutil import ints, make_context, exc_name

RULE = ('case = (boolean table, construction algorithm in {default=Lindig, CbO, Sofia with non-binding limit}); for the '
        'lattice built by the REAL from_context: every concept (descendants/ancestors/children/parents), top/bottom, '
        'listing order, get_chains(), meet/join (and the supremum/infimum aliases) of every ordered selection of <=3 '
        'concepts (capped by a seeded sample on big lattices) and of the empty selection; exhaustive over all tables of '
        'the tier scope x 3 algorithms, then seeded random/structured tables up to 6x6 and tall tables 11-13 x 1-3 (two-digit object indexes in the sort key); plus dynamic lattices (built by add, pruned, merged) and HISTORIES on one lattice object '
        '(looks = every order query + joins/meets + dict views + chains, remove/del, add with and without fill_up_cache, no-op adds; '
        'half of them with a hostile caller mutating returned containers in place), whose intermediate and final states are '
        'judged by the spec for the CURRENT content; non-trivial = table neither '
        'all-true nor all-false; distinct = distinct (table, algorithm, dynamic/history program)')
EXHAUSTIVE = {'quick': 'all tables n,m<=3 (682) x {Lindig, CbO, Sofia} x all concepts x all ordered selections of <=3 concepts',
              'thorough': 'all tables with n*m<=12, n,m<=4 (9418) x 3 algorithms x all concepts x all ordered selections of <=3 concepts'}
EXPLANATION = ('every observable except the chain decomposition is pinned uniquely by the property, so the implementation\'s '
               'answers are compared with the Lean-side spec (extent inclusion, lowerCovers/upperCovers, intersections of '
               'extents/intents); chains and listing are judged by the Lean checkers chainsOk/listingOk; the Lean theorems '
               'Fca.C03.* prove model = spec for every concept list that enumerates allConcepts t (incl. chains_correct: the '
               'model\'s get_chains is accepted by chainsOk), lindig_path_correct proves the children_dict initialisation + '
               're-indexing model (run with the proved fuel closedFuel n) yields the spec relations of the sorted list, and '
               'pruned_relations/pruned_top_bottom cover lattices after deletions; the Lindig cache model is also compared '
               'with the implementation\'s caches on every default-algorithm case')
ASSUMPTIONS = ['the concept list is a duplicate-free enumeration of all concepts of the table (C02; re-checked here on every case '
               'by Spec.isConceptList)',
               'query indexes are valid concept indexes; Sofia is run with its default limit L_max=100 >= number of concepts']
TRUSTED = ['Python set/frozenset algebra and sorted() (stable, tuples compared lexicographically, str by code point)']
CHUNK = 60
REQUESTS_NEED_IMPL = True
IMPL_TIME_LIMIT_S = float(os.environ.get('VERIF_IMPL_LIMIT_S', '15'))  # per case; a normal case takes milliseconds (get_chains has unbounded loops)
_LIMIT = [IMPL_TIME_LIMIT_S]  # lowered to 3 s in a process once a case has hit the limit

ALGOS = (None, 'CbO', 'Sofia')
HERE = os.path.dirname(os.path.abspath(__file__))
CORPUS = os.path.join(os.path.dirname(os.path.dirname(HERE)), 'corpus', 'C03')


def _corpus():
    for p in sorted(glob.glob(os.path.join(CORPUS, '*.json'))):
        try:
            c = json.load(open(p))
            c['stream'] = 'corpus'
            yield c
        except Exception:
            continue


def _tall_table(rng):
    """11-13 objects; two attribute extents of equal size that differ first in a one-digit vs. a two-digit index."""
    n, m = rng.randint(11, 13), rng.randint(2, 3)
    x, y = rng.randint(2, 9), rng.randint(10, n - 1)
    common = [g for g in (0, 1) if rng.random() < 0.5]
    rows = [[int(rng.random() < 0.3) for _ in range(m)] for _ in range(n)]
    for g in range(n):
        rows[g][0] = int(g in common or g == x)
        rows[g][1] = int(g in common or g == y)
    return rows


def gen(tier, seed, boost=False):
    rng = random.Random(seed * 1000003 + 303)
    yield from _corpus()
    for rows in G.tables_upto(3, 3):
        for algo in ALGOS:
            yield dict(stream='exhaustive', rows=rows, algo=algo, sub_seed=0)
    if tier == 'thorough' or boost:
        for rows in G.tables_upto(4, 4, cells=12):
            if len(rows) <= 3 and len(rows[0]) <= 3:
                continue
            for algo in ALGOS:
                yield dict(stream='exhaustive-large', rows=rows, algo=algo, sub_seed=0)
    # dynamically constructed lattices: built by add() in a seeded order / a concept removed and added back
    rd = random.Random(seed * 7919 + 33)
    tabs = [rows for rows in G.tables_upto(3, 3) if G.is_mixed(rows)]
    rd.shuffle(tabs)
    tabs = tabs[:150 if tier == 'quick' else 450] + [G.random_table(rd, 6, 5, nmin=3, mmin=3) for _ in range(120 if tier == 'quick' else 1500)]
    for rows in tabs:
        for how in ('build', 'readd', 'del', 'del', 'merge', 'merge'):
            yield dict(stream='dynamic', rows=rows, algo='CbO', sub_seed=rd.randrange(1 << 30), dyn=[how, rd.randrange(1 << 30)])
    # larger, mostly non-graded lattices built concept by concept in several orders
    for _ in range(150 if tier == 'quick' else 2000):
        rows = G.random_table(rd, 7, 6, nmin=5, mmin=4)
        for _k in range(3):
            yield dict(stream='dynamic-large', rows=rows, algo='CbO', sub_seed=rd.randrange(1 << 30), dyn=['build', rd.randrange(1 << 30)])
    # histories on ONE lattice object (any algorithm): looks (all queries, joins/meets, dict views, chains), remove/del,
    # add with and without fill_up_cache, no-op adds; half of them with a hostile caller that mutates returned
    # containers in place; judged: up to two intermediate states and the final state (complete or pruned)
    rh = random.Random(seed * 104729 + 71)
    htabs = [rows for rows in G.tables_upto(3, 3) if G.is_mixed(rows)]
    rh.shuffle(htabs)
    htabs = htabs[:220 if tier == 'quick' else 600] + \
        [G.random_table(rh, 6, 5, nmin=3, mmin=3) for _ in range(160 if tier == 'quick' else 2500)]
    for rows in htabs:
        for hostile in (0, 1):
            yield dict(stream='history', rows=rows, algo=rh.choice(ALGOS), sub_seed=rh.randrange(1 << 30),
                       hist=[rh.randrange(1 << 30), hostile])
    nrand = 150 if tier == 'quick' else 3000
    if boost:
        nrand *= 3
    for _ in range(nrand):
        rows = G.random_table(rng, 6, 6)
        s = rng.randrange(1 << 30)
        for algo in ALGOS:
            yield dict(stream='random', rows=rows, algo=algo, sub_seed=s)
    # tall tables (11-13 objects): the sort key compares the comma-joined decimal strings of the extents, which
    # differs from numeric order only once an index has two digits ("10" < "2")
    for _ in range(60 if tier == 'quick' else 600):
        rows = _tall_table(rng)
        s = rng.randrange(1 << 30)
        for algo in ALGOS:
            yield dict(stream='random-tall', rows=rows, algo=algo, sub_seed=s)


def _subsets(n, sub_seed):
    """ordered duplicate-free selections of <= 3 concept indexes (all of them on small lattices)."""
    out = [[]]
    out += [[i] for i in range(n)]
    pairs = [list(p) for p in itertools.permutations(range(n), 2)]
    triples = None
    if n <= 8:
        triples = [list(p) for p in itertools.permutations(range(n), 3)]
    rng = random.Random(sub_seed * 7919 + n)
    if len(pairs) > 300:
        pairs = rng.sample(pairs, 300)
    if triples is None:
        triples = [rng.sample(range(n), 3) for _ in range(200)] if n >= 3 else []
    out += pairs + triples
    # a few larger selections (the property quantifies over all non-empty subsets)
    if n >= 4:
        for _ in range(10):
            out.append(rng.sample(range(n), rng.randint(4, min(n, 6))))
    return out


def _opt(x):
    return None if x is None else int(x)



def _poke(v, r):
    """a hostile-but-legal caller: in-place mutation of a RETURNED value when it is a mutable container.
    On the correct code the order queries return frozensets / fresh containers, so this changes nothing."""
    try:
        if isinstance(v, set):
            k = r.randrange(3)
            if k == 0 and v:
                v.clear()
            elif k == 1 and v:
                v.pop()
            else:
                v.add(r.randrange(0, 3))
                v.add(997)
        elif isinstance(v, list):
            for x in v:
                if isinstance(x, (set, list, dict)):
                    _poke(x, r)
            if v and r.random() < 0.5:
                v.pop()
            else:
                v.append(997)
        elif isinstance(v, dict):
            for x in list(v.values()):
                if isinstance(x, (set, list, dict)):
                    _poke(x, r)
            if v and r.random() < 0.5:
                v.pop(next(iter(v)))
            else:
                v[997] = frozenset()
    except Exception:
        pass


def _snapshot(L, sub_seed, subs=None, poke=None):
    """every order observable of the lattice as it is now (canonical); `poke` = RNG of the hostile caller or None"""
    def q(v):
        rec = sorted(ints(v))
        if poke is not None and poke.random() < 0.5:
            _poke(v, poke)
        return rec

    def qd(d):
        rec = {int(k): sorted(ints(v)) for k, v in d.items()}
        if poke is not None and poke.random() < 0.5:
            _poke(d, poke)
        return rec
    n = len(L)
    rng_ = range(n)
    out = dict(
        cs=[[ints(x.extent_i), ints(x.intent_i)] for x in L],
        elems_same=[[ints(x.extent_i), ints(x.intent_i)] for x in L.elements] == [[ints(x.extent_i), ints(x.intent_i)] for x in L],
        desc=[q(L.descendants(i)) for i in rng_],
        anc=[q(L.ancestors(i)) for i in rng_],
        children=[q(L.children(i)) for i in rng_],
        parents=[q(L.parents(i)) for i in rng_],
        top=_opt(L.top), bottom=_opt(L.bottom),
    )
    try:
        chs = L.get_chains()
        out['chains'] = [ints(ch) for ch in chs]
        if poke is not None:
            _poke(chs, poke)
    except Exception as e:
        if poke is None:
            raise
        out['chains'] = []
    # dict views must agree with the per-element queries
    out['dicts_same'] = (
        qd(L.children_dict) == dict(enumerate(out['children']))
        and qd(L.parents_dict) == dict(enumerate(out['parents']))
        and qd(L.descendants_dict) == dict(enumerate(out['desc']))
        and qd(L.ancestors_dict) == dict(enumerate(out['anc'])))
    if subs is None:
        subs = _subsets(n, sub_seed)
    out['subsets'] = subs
    meets, joins, alias_ok = [], [], True
    for S in subs:
        arg = list(S)
        try:
            mt = _opt(L.meet(arg))
        except Exception as e:
            mt = {'err': exc_name(e)}
        try:
            jn = _opt(L.join(arg))
        except Exception as e:
            jn = {'err': exc_name(e)}
        meets.append(mt)
        joins.append(jn)
        if len(S) == 2:
            alias_ok = alias_ok and _opt(L.infimum(list(S))) == mt and _opt(L.supremum(list(S))) == jn
        if arg != list(S):
            alias_ok = False        # the caller's index list was modified
    out['meets'], out['joins'], out['alias_ok'] = meets, joins, alias_ok
    return out


def _small_subsets(n, r):
    """the selections a look asks joins/meets for (they are asked again on the final lattice)"""
    out = [[]] + [[i] for i in range(n)]
    pairs = [list(p) for p in itertools.permutations(range(n), 2)]
    out += pairs if len(pairs) <= 60 else r.sample(pairs, 60)
    if n >= 3:
        out += [r.sample(range(n), 3) for _ in range(25)]
    if n >= 4:
        out += [r.sample(range(n), r.randint(4, min(n, 6))) for _ in range(4)]
    return out


def _history(L, hist, sub_seed):
    """A seeded program of public calls on ONE lattice object: looks (every order query, joins/meets, dict views,
    chains; optionally with a hostile caller mutating the returned containers in place), remove / del of inner
    concepts, add (with and without fill_up_cache; of a removed concept or of one that is present = no-op).
    Returns (lattice, judged intermediate snapshots, step names, final list is pruned?)."""
    seed, hostile = hist
    r = random.Random(seed)
    steps, pre, removed = [], [], []

    def look(judged):
        poke = r if (hostile and r.random() < 0.7) else None
        snap = _snapshot(L, sub_seed, subs=_small_subsets(len(L), r), poke=poke)
        steps.append('look' + (':poke' if poke is not None else ''))
        if judged and poke is None and len(pre) < 2:
            pre.append(snap)

    def inner():
        return [i for i in range(len(L)) if i not in (L.top, L.bottom)]

    if r.random() < 0.7:
        look(judged=False)       # the freshly built lattice is what the plain streams judge
    for _ in range(r.randint(1, 4)):
        k = r.random()
        if k < 0.45 and inner():
            i = r.choice(inner())
            x = L[i]
            if r.random() < 0.5:
                del L[i]
                steps.append('del')
            else:
                L.remove(x)
                steps.append('remove')
            removed.append(x)
        elif k < 0.8 and removed:
            x = removed.pop(r.randrange(len(removed)))
            fill = r.random() < 0.5
            L.add(x, fill_up_cache=fill)
            steps.append('add' if fill else 'add:nofill')
        elif k < 0.9:
            x = L[r.randrange(len(L))]
            fill = r.random() < 0.5
            L.add(x, fill_up_cache=fill)      # already present: must be a no-op
            steps.append('add-present' if fill else 'add-present:nofill')
        if r.random() < 0.75:
            look(judged=True)
    if removed and r.random() < 0.75:
        r.shuffle(removed)
        for x in removed:
            fill = r.random() < 0.5
            L.add(x, fill_up_cache=fill)
            steps.append('add' if fill else 'add:nofill')
            if r.random() < 0.3:
                look(judged=False)
        removed = []
    return L, pre, steps, bool(removed)


class NonTermination(BaseException):
    """the implementation did not answer within the per-case time limit (a loop that does not terminate)"""


def _guarded(seconds, f):
    import signal

    def on_alarm(signum, frame):
        raise NonTermination(f'no answer within {seconds}s')
    old = signal.signal(signal.SIGALRM, on_alarm)
    signal.setitimer(signal.ITIMER_REAL, seconds)
    try:
        return f()
    finally:
        signal.setitimer(signal.ITIMER_REAL, 0)
        signal.signal(signal.SIGALRM, old)


def impl(c):
    import fcapy.lattice, fcapy.algorithms.concept_construction, fcapy.visualizer.line_visualizers  # noqa: imports are not timed
    try:
        return _guarded(_LIMIT[0], lambda: _impl(c))
    except NonTermination as e:
        _LIMIT[0] = 3.0
        return {'err': 'NonTermination', 'msg': str(e)}


def _impl(c):
    from fcapy.lattice import ConceptLattice
    from fcapy.algorithms import concept_construction as cca
    K = make_context(c['rows'], 'BinTableBitarray')
    try:
        L = ConceptLattice.from_context(K, algo=c['algo'])
        dyn = c.get('dyn')
        if dyn:
            # lattices that are not the direct product of from_context: built concept by concept, or with a concept
            # removed and added back after some order queries (lazily filled caches)
            r = random.Random(dyn[1])
            cs = list(L)
            if dyn[0] == 'build' and len(cs) >= 2:
                inner = cs[1:-1]
                r.shuffle(inner)
                L = ConceptLattice([cs[0], cs[-1]])
                for x in inner:
                    L.add(x)
            elif dyn[0] == 'del' and len(cs) >= 3:
                # a pruned lattice: some order queries (lazily filled caches), then concepts deleted
                for _ in range(r.randint(0, 5)):
                    i = r.randrange(len(L))
                    r.choice([L.children, L.parents, L.descendants, L.ancestors])(i)
                for _ in range(r.randint(1, 2)):
                    inner_i = [i for i in range(len(L)) if i not in (L.top, L.bottom)]
                    if not inner_i:
                        break
                    if r.random() < 0.5:
                        del L[r.choice(inner_i)]
                    else:
                        L.remove(L[r.choice(inner_i)])
                    for _k in range(r.randint(0, 2)):
                        r.choice([L.children, L.parents])(r.randrange(len(L)))
            elif dyn[0] == 'merge' and len(cs) >= 3:
                # remove some inner concepts (some of them re-added and removed again, with and without cache filling),
                # then merge the full concept list back in: concepts that are already present (top and bottom
                # included) are no-ops, the missing ones are inserted
                for _ in range(r.randint(1, 3)):
                    inner_i = [i for i in range(len(L)) if i not in (L.top, L.bottom)]
                    if not inner_i:
                        break
                    x = L[r.choice(inner_i)]
                    L.remove(x)
                    if r.random() < 0.5:
                        L.add(x, fill_up_cache=r.random() < 0.5)
                        if r.random() < 0.6:
                            L.remove(x)
                order = list(cs)
                r.shuffle(order)
                for x in order:
                    L.add(x, fill_up_cache=r.random() < 0.6)
            elif dyn[0] == 'readd' and len(cs) >= 3:
                for _ in range(r.randint(0, 4)):
                    i = r.randrange(len(L))
                    r.choice([L.children, L.parents, L.descendants, L.ancestors])(i)
                for _ in range(r.randint(1, 2)):
                    inner_i = [i for i in range(len(L)) if i not in (L.top, L.bottom)]
                    x = L[r.choice(inner_i)]
                    L.remove(x)
                    for _k in range(r.randint(0, 2)):
                        r.choice([L.children, L.parents])(r.randrange(len(L)))
                    L.add(x)
        hist = c.get('hist')
        pre, steps, final_pruned = [], [], False
        if hist:
            L, pre, steps, final_pruned = _history(L, hist, c.get('sub_seed', 0))
        out = _snapshot(L, c.get('sub_seed', 0))
        if hist:
            out['pre'], out['steps'], out['final_pruned'] = pre, steps, final_pruned
        if c['algo'] is None and not dyn and not hist:
            R = cca.lindig_algorithm(K)
            out['lindig'] = dict(
                cs0=[[ints(x.extent_i), ints(x.intent_i)] for x in R],
                children0=[[int(k), sorted(ints(v))] for k, v in R._cache_children.items()])
        return out
    except Exception as e:
        return {'err': exc_name(e), 'msg': str(e)[:200]}


def requests(c, io):
    rows = c['rows']
    if 'err' in io:
        return []
    reqs = [dict(op='C03.lattice', rows=rows, w=len(rows[0]), cs=io['cs'], subsets=io['subsets'],
                 chains=io['chains'], lindig=io.get('lindig'))]
    for snap in io.get('pre', []):
        reqs.append(dict(op='C03.lattice', rows=rows, w=len(rows[0]), cs=snap['cs'], subsets=snap['subsets'],
                         chains=snap['chains'], lindig=None))
    return reqs


def _first_diff(a, b):
    for k, (x, y) in enumerate(zip(a, b)):
        if x != y:
            return k, x, y
    return None, len(a), len(b)


def _judge_state(snap, r, P, where):
    """relations, top/bottom (and, when the list is complete, meets/joins) of one recorded state against the spec"""
    if not r['hypSub']:
        return P('concepts', where + f'not a duplicate-free list of concepts of the table: {snap["cs"]}')
    for m_, s_ in (('desc', 'sdesc'), ('anc', 'sanc'), ('children', 'lower'), ('parents', 'upper')):
        if r[m_] != r[s_]:
            return dict(ok=False, kind='harness', detail=where + f'model {m_} {r[m_]} != spec {r[s_]}')
    for f, s_, name in (('desc', 'sdesc', 'descendants'), ('anc', 'sanc', 'ancestors'),
                        ('children', 'lower', 'children'), ('parents', 'upper', 'parents')):
        if snap[f] != r[s_]:
            i, x, y = _first_diff(snap[f], r[s_])
            return P(name, where + f'{name}({i}) = {x}, extent inclusion within the list gives {y}; concepts {snap["cs"]}')
    if [snap['top']] != r['stop'] or [snap['bottom']] != r['sbottom']:
        return P('top', where + f'top/bottom = {snap["top"]}/{snap["bottom"]}, expected {r["stop"]}/{r["sbottom"]}')
    if not snap['dicts_same'] or not snap['elems_same']:
        return P('dicts', where + 'dict views differ from the per-element queries')
    if r['hyp']:
        for k, S in enumerate(snap['subsets']):
            sm = r['smeets'][k] if S else r['sbottom']
            sj = r['sjoins'][k] if S else r['stop']
            if [snap['meets'][k]] != sm:
                return P('meet', where + f'meet({S}) = {snap["meets"][k]}, the concept with the intersection of the extents is {sm}')
            if [snap['joins'][k]] != sj:
                return P('join', where + f'join({S}) = {snap["joins"][k]}, the concept with the intersection of the intents is {sj}')
        if not snap['alias_ok']:
            return P('alias', where + 'supremum/infimum differ from join/meet (or the index list passed was modified)')
    return None


def judge(c, io, rep):
    if 'err' in io:
        return dict(ok=False, kind='property', what='raise',
                    detail=f'from_context/query raised {io["err"]}: {io.get("msg")}')
    P = lambda what, detail: dict(ok=False, kind='property', what=what, detail=detail)
    hist = bool(c.get('hist'))
    # intermediate states of a history (between two mutations): judged like any other lattice with that content
    for k, snap in enumerate(io.get('pre', [])):
        v = _judge_state(snap, rep[1 + k], P, f'history {io.get("steps")}: intermediate state {k}: ')
        if v is not None:
            return v
    r = rep[0]
    if hist:
        P0 = P
        P = lambda what, detail: P0(what, f'after the history {io.get("steps")}: ' + detail)
    pruned = (bool(c.get('dyn')) and c['dyn'][0] == 'del') or (hist and io.get('final_pruned'))
    if pruned:
        # a sub-list of the concepts (top and bottom kept): the order relations are still those of extent inclusion
        # within the list; meet/join/chains/listing are not judged here (theorems Fca.C03.pruned_relations /
        # pruned_top_bottom: model = spec for every duplicate-free list of concepts of the table)
        if not r['hypSub']:
            return P('concepts', f'after deletions the list is not a duplicate-free list of concepts of the table: {io["cs"]}')
        for m_, s_ in (('desc', 'sdesc'), ('anc', 'sanc'), ('children', 'lower'), ('parents', 'upper')):
            if r[m_] != r[s_]:
                return dict(ok=False, kind='harness', detail=f'pruned: model {m_} {r[m_]} != spec {r[s_]}')
        if [r['top']] != r['stop'] or [r['bottom']] != r['sbottom'] or not r['orderIndep']:
            return dict(ok=False, kind='harness', detail='pruned: model top/bottom/order-independence inconsistent with spec')
        for f, s_, name in (('desc', 'sdesc', 'descendants'), ('anc', 'sanc', 'ancestors'),
                            ('children', 'lower', 'children'), ('parents', 'upper', 'parents')):
            if io[f] != r[s_]:
                i, x, y = _first_diff(io[f], r[s_])
                return P(name, f'after deletions {name}({i}) = {x}, extent inclusion within the list gives {y}; concepts {io["cs"]}')
        if [io['top']] != r['stop'] or [io['bottom']] != r['sbottom']:
            return P('top', f'after deletions top/bottom = {io["top"]}/{io["bottom"]}, expected {r["stop"]}/{r["sbottom"]}')
        if not io['dicts_same'] or not io['elems_same']:
            return P('dicts', 'dict views differ from the per-element queries')
        return dict(ok=True)
    if not r['hyp']:
        return P('concepts', f'the constructed lattice does not list every concept of the table exactly once: {io["cs"]}')
    # the theorems say model = spec under the hypothesis: a difference is a harness/model error
    for m, s in (('desc', 'sdesc'), ('anc', 'sanc'), ('children', 'lower'), ('parents', 'upper')):
        if r[m] != r[s]:
            return dict(ok=False, kind='harness', detail=f'model {m} {r[m]} != spec {r[s]}')
    dyn = bool(c.get('dyn')) or hist
    if [r['top']] != r['stop'] or [r['bottom']] != r['sbottom'] or not r['orderIndep'] or (not r['modelChainsOk'] and not dyn):
        return dict(ok=False, kind='harness', detail=f'model top/bottom/order-independence/chains inconsistent with spec: {r["top"]} '
                                                      f'{r["stop"]} {r["bottom"]} {r["sbottom"]} {r["orderIndep"]} {r["modelChainsOk"]}')
    n = len(io['cs'])
    subs = io['subsets']
    for k, S in enumerate(subs):
        sm = r['smeets'][k] if S else r['sbottom']
        sj = r['sjoins'][k] if S else r['stop']
        if [r['meets'][k]] != sm or [r['joins'][k]] != sj:
            return dict(ok=False, kind='harness', detail=f'model meet/join of {S}: {r["meets"][k]}/{r["joins"][k]} spec {sm}/{sj}')
    # implementation vs spec (the property)
    for f, s, name in (('desc', 'sdesc', 'descendants'), ('anc', 'sanc', 'ancestors'),
                       ('children', 'lower', 'children'), ('parents', 'upper', 'parents')):
        if io[f] != r[s]:
            i, x, y = _first_diff(io[f], r[s])
            return P(name, f'{name}({i}) = {x}, extent inclusion gives {y}; concepts {io["cs"]}')
    if [io['top']] != r['stop']:
        return P('top', f'top = {io["top"]} but the concept with all objects is {r["stop"]}')
    if [io['bottom']] != r['sbottom']:
        return P('bottom', f'bottom = {io["bottom"]} but the concept with extent (all attributes)\' is {r["sbottom"]}')
    if not r['listingOk'] and not dyn:
        return P('listing', f'listing not by non-increasing support with top first and bottom last: {io["cs"]}')
    for k, S in enumerate(subs):
        sm = r['smeets'][k] if S else r['sbottom']
        sj = r['sjoins'][k] if S else r['stop']
        if [io['meets'][k]] != sm:
            return P('meet', f'meet({S}) = {io["meets"][k]}, the concept with the intersection of the extents is {sm}')
        if [io['joins'][k]] != sj:
            return P('join', f'join({S}) = {io["joins"][k]}, the concept with the intersection of the intents is {sj}')
    if not io['alias_ok']:
        return P('alias', 'supremum/infimum differ from join/meet')
    if not r['chainsOk']:
        return P('chains', f'get_chains() = {io["chains"]} is not a chain decomposition from the top by parent->child steps')
    if not io['dicts_same'] or not io['elems_same']:
        return P('dicts', 'children_dict/parents_dict/descendants_dict/ancestors_dict or iteration differ from the per-element queries')
    # observables the property does not pin: correspondence with the model
    C = lambda what, detail: dict(ok=False, kind='correspondence', what=what, detail=detail)
    if dyn:     # the listing order of an incrementally built lattice is the insertion order: nothing more is pinned
        return dict(ok=True)
    if r['sorted'] != io['cs']:
        return C('sort', f'listing {io["cs"]} is not what sort_concepts (model) gives: {r["sorted"]}')
    if r['chains'] != io['chains']:
        return C('chains', f'get_chains() = {io["chains"]}, model {r["chains"]}')
    if c['algo'] is None:
        l = r['lindig']
        if l is None or 'err' in l:
            return C('lindig', f'model of the children_dict initialisation failed: {l}')
        if l['elems'] != io['cs']:
            return C('lindig', f'model re-sorting {l["elems"]} != listing {io["cs"]}')
        for f, g in (('children', 'children'), ('descendants', 'desc'), ('parents', 'parents'), ('ancestors', 'anc')):
            if l[f] != io[g]:
                return C('lindig', f're-indexed cache {f}: model {l[f]} != implementation {io[g]}')
        if l['top'] != io['top'] or l['bottom'] != io['bottom']:
            return C('lindig', f're-indexed top/bottom: model {l["top"]}/{l["bottom"]} != {io["top"]}/{io["bottom"]}')
    return dict(ok=True)


def nontrivial(c):
    return G.is_mixed(c['rows'])


def key(c):
    return [c['rows'], c['algo'], c.get('dyn'), c.get('hist')]


def branch(c, io, rep):
    algo = c['algo'] or 'Lindig'
    if 'err' in io:
        return [c['stream'], f'{algo}:err']
    n = len(io['cs'])
    out = [c['stream'], f'{algo}:concepts={n if n < 9 else "9+"}']
    if rep and rep[0].get('lindig') and 'map' in rep[0]['lindig']:
        m = rep[0]['lindig']['map']
        out.append('lindig:perm=' + ('identity' if m == sorted(m) else 'nontrivial'))
    if any(x is None for x in io['meets'] + io['joins']):
        out.append('meet/join=None')
    out.append(f'chains={min(len(io["chains"]), 5)}')
    if c.get('hist'):
        st = io.get('steps', [])
        out.append('history:' + ('hostile-caller' if c['hist'][1] else 'plain') + (':final-pruned' if io.get('final_pruned') else ':final-complete'))
        for a in sorted(set(x.split(':')[0] + (':nofill' if x.endswith('nofill') else '') + (':poke' if x.endswith('poke') else '') for x in st)):
            out.append('history-step:' + a)
        out.append(f'history:judged-intermediate-states={len(io.get("pre", []))}')
    return out


def signature(c, io, rep, v):
    return f"C03:{c['algo'] or 'Lindig'}:{'history:' if c.get('hist') else ''}{v.get('kind')}:{v.get('what', '?')}"


def shrink(c):
    yield from G.shrink_table_case(c)

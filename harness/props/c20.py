"""C20 — a decision lattice converted from a regression tree predicts as the tree does; scaling is linear and pure."""
import copy
import inspect
import itertools
import json
import math
import os
import random
import struct
from fractions import Fraction

RULE = ('case = (numeric table X on a dyadic grid, integer targets y, how the tree is fitted: DecisionTreeRegressor(max_depth, '
        'random_state) or estimator #e of a 3-tree bootstrapped RandomForestRegressor(max_depth, random_state)); the fitted tree '
        'arrays are read back from sklearn and sent to the Lean model as exact rationals; non-trivial = the fitted tree has at '
        'least one split (>= 3 nodes); distinct = distinct (X, y, fit parameters); the malformed stream perturbs the arrays of a '
        'fitted tree (orphan node, feature out of range, contradictory / non-separating thresholds) and only compares '
        'implementation and model (exception class or predictions); the growth stream fits trees with every non-default growth '
        'parameter (max_leaf_nodes = best-first builder with non-pre-order node numbering, min_samples_leaf, ccp_alpha, '
        'splitter=random, max_features, ExtraTree, members of forests with max_leaf_nodes and of gradient boosting), on small and '
        'on two-digit-sized contexts and on values that float32 cannot represent (0.1, 19.99); the renumber stream feeds the '
        'converter hand-renumbered arrays of a fitted tree (level order, right-child-first) and judges against the descent on '
        'the arrays; every non-malformed case also runs aliasing histories: product/quotient mutated by +=, *=, lattice.add, '
        'then the original re-asked, and vice versa; the returned prediction array mutated in place then re-asked; the '
        'eps-scale stream is about the number grid: thresholds at |t| = 2^23, 2^24, 2^31, 2^53, 1e15, 1e300, 1e-12, denormals and '
        '0, as fitted trees (float32-exact training values, adjacent float32 numbers) and as hand-written arrays, with objects '
        'exactly on a threshold and one float64 ulp above / below it, in-bag and out-of-bag (`probe`: three such objects are '
        'added to the context for every split of the fitted tree; `train`: the tree is grown on a subset of the rows), and '
        'tables mixing a column in the millions with a column in thousandths; the ulp-probe stream adds the same probes to '
        'ordinary random tables; the mixed-scale stream (H3) is about ONE tree whose thresholds live on very different scales: '
        'fitted trees on tables with a huge-scale column (2^60 + k 2^40, k 2^20, 2^100 + k 2^80, negative ones) next to a '
        'tiny-scale one (k 2^-10, k 2^-16, 1 + k 2^-12) - whole table, training subset, forest member, best-first builder - '
        'and one column holding float32 neighbours at three scales, with `ulp` or `ladder` probes (objects 2^k float64 ulps '
        'above / below every threshold, k = 0..51, so that a gap or an overlap of ANY width between the two child intervals '
        'contains an object), and hand-written trees with 3-5 splits whose thresholds are drawn from all scales and signs '
        '(2^60 .. denormals) with a row that reaches every node and ladder objects around every threshold; the size stream '
        '(H8) crosses 64/65 and 128/129 on objects, features, nodes = concepts = generator records (every object its own '
        'leaf; forest members, best-first numbering, a training subset with probes) and has one tree with 1039 nodes; every '
        'non-malformed, non-size case also asks the converted lattice about ANOTHER context over the same columns (held-out '
        'objects: recombined values, objects on / one ulp around thresholds, far outside, a repeated object); the '
        'interaction stream has targets that are a pure interaction of the columns (XOR / checkerboard / parity, alone or '
        'nested below an ordinary split; balanced cells, dyadic values): CART then makes zero-gain splits, i.e. internal '
        'nodes whose value equals the parent\'s (delta exactly 0) with a whole subtree below; the target-scale stream (H3 '
        'applied to the TARGET) refits the small tree families with y * 2^k, k in {-28,-26,-24,-20,-10,20,40,60}, with y on a '
        'large offset (5 + 2^-23 s, 2^40 + s), as forest members too, rewrites the node values of fitted trees to scales '
        'sklearn refuses to split (v * 2^-60 .. 2^-24, with offsets; sibling leaf values 1-3 ulps apart) and has hand-written '
        'maximally unbalanced trees whose deltas shrink geometrically over up to 50 binades, all with the scaling constants '
        '2^30, 2^-30, 1e9')
EXHAUSTIVE = {
    'quick': 'all one-column tables with 1..3 rows over the grid {0,1,2} x all targets over {0,1,3}, unbounded depth (819 trees)',
    'thorough': 'quick scope + all 2-column tables with 1..3 rows over {0,1} x all targets over {0,1,3} at depths 1 and None, '
                'and all one-column tables with 4 rows over {0,1,2} x targets over {0,1,3}'}
EXPLANATION = ('the property is judged on the implementation\'s own outputs: DL.predict(K) vs tree.predict(X), the stored '
               'decisions summed along every object\'s path vs the tree\'s value, (DL*c).predict / (DL/c).predict and their '
               'in-place histories vs c * tree.predict; "up to floating-point rounding" is the rounding unit of the tree\'s OWN '
               'numbers, 2^-51 * max|node value| * (depth+4)^2 (times |c| for c-fold predictions) - there is no absolute '
               'tolerance anywhere, so a delta that is dropped or rounded shows at every scale of the targets; decisions are '
               'compared EXACTLY with the model (a delta is one correctly rounded subtraction); and the original DL unchanged (decisions, '
               'predictions, identity of the returned object). The Lean theorems Fca.C20.* prove, for every well-formed tree '
               'array set and every row, that the model\'s traced generator records are the row\'s root-to-leaf path and the sum '
               'of deltas is the leaf value (dl_predict_eq_tree, full: worklist invariant + parse inversion); the run compares the model with the implementation on: parsed decisions, concept '
               'extents, lattice top, generator records, predictions, scaled predictions; and feeds the implementation\'s own '
               'generator records to the Lean checker `checkRecs` (records containing row g == nodes on g\'s path). '
               'The left end of a right child\'s interval is the successor map `nxt` of the theorems: the harness reads the '
               'converter\'s default `eps`; `None` (the repaired code) = `np.nextafter(thr, inf)`, a number (the code before '
               'the repair of D23) = `thr + eps` in float64; either way every threshold\'s successor travels to the model as an '
               'exact rational, interval ends of generators are compared EXACTLY, and `wellFormed` (thr < nxt thr; no value of '
               'the context strictly between) is evaluated by the driver on every case. There is no public way to pass an '
               'explicit eps (`from_decision_tree` calls the private parser without it), so that mode is covered by the '
               'theorem `dl_predict_eq_tree_eps` only.  Prediction of a context OTHER than the one of the conversion '
               '(dl_predict_other_context) is compared with the descent on the arrays, with sklearn on float32-exact rows and '
               'with the model (predictions, records); a difference there is reported as a correspondence failure because '
               'the property speaks about the objects of the conversion context only.  Cases with >= 600 nodes are answered '
               'by the driver on its cheap path (wellFormed, descent, checker of the implementation\'s records), without the '
               'model run.  Hand-written trees with a node no row reaches (they arise only when a failing case is shrunk) are '
               'outside the property: implementation and model are compared, nothing else.')
ASSUMPTIONS = [
    'cells are single numbers (IntervalPS stores them as (x, x)); data and thresholds lie on a dyadic grid so float comparisons '
    'are exact; node values are the exact rational values of sklearn\'s float64 means',
    'number grid (decidable `wellFormed`, checked per case; it holds for every float64 table when nxt = nextafter): each '
    'threshold is below its successor and no value of the context lies strictly between the two',
    'sklearn\'s own `predict` casts the data to float32: where a cell is not float32-representable (the ulp probes, hand-written '
    'arrays) the tree\'s prediction is the float64 descent `x[feature] <= threshold` on the fitted arrays; on every row whose '
    'cells are float32-exact that descent is also compared with sklearn\'s `predict`',
    'every node of a fitted tree is reached by at least one row of the context (decidable `fitted`, checked per case)',
    'iteration over equal Python sets built the same way yields the same order (the root\'s duplicate generator records collapse '
    'under set())',
    'negative feature indexes (Python wrap-around) are outside the scope',
]
TRUSTED = ['sklearn fitting (the fitted arrays are input data); sklearn `predict` is compared with the model\'s standard descent '
           'on every case', 'numpy float64 arithmetic of the deltas and of the final sum (tolerance 1e-9 relative)',
           'POSet/Lattice top and bottom detection is modelled by its specification (unique maximal / minimal extent)',
           '`np.nextafter(t, inf)` is the IEEE-754 successor of the float64 `t` (cross-checked on every threshold against '
           '`math.nextafter` and against the bit pattern + 1)']
CHUNK = 60
FAST_NODES = 600     # from that many tree nodes on, the driver skips the (quadratic) model run, see Drv/C20 "fast"
REQUESTS_NEED_IMPL = True

# 0.09375 = 3/32 stands for "0.1" on the dyadic grid; 1 (int), 1.0 and -1.0 are the neutral / sign constants, where a
# "nothing to do" shortcut could hand back the operand itself instead of a copy
CONSTS = [2.0, -3.0, 0.5, 0.09375, 7.0, 1, 1.0, -1.0]
K1, K2 = 2.5, 3.0      # in-place factors applied to the product / quotient afterwards (2.5 = 5/2 is dyadic)
GRIDS = ([0, 1], [0, 1, 2, 3], [0, 0.5, 1, 1.5, 2, 2.5], [-2, -1, 0, 1, 2], [0, 0.25, 0.5, 4, 8])
YS = ([0, 1], [0, 1, 2, 3, 4, 6, 8, -4], [0, 2, 4, 8, 16], [-1, 0, 1], [0, 3, 6, 12, 24, -12])
DEPTHS = (1, 2, 3, None)


def frac(x):
    n, d = float(x).as_integer_ratio()
    return [n, d]


def F(x):
    return Fraction(*float(x).as_integer_ratio())


def _mk_case(stream, X, y, kind='tree', depth=None, seed=0, est=0, mut=None, params=None, renum=None, train=None,
             probe=None, arrays=None, light=False, vmap=None, consts=None):
    c = dict(stream=stream, X=X, y=y, kind=kind, depth=depth, seed=seed, est=est)
    if vmap:
        c['vmap'] = vmap              # the node VALUES of the fitted tree are rewritten (same shape, same thresholds):
                                      # {'k': e, 'off': b}: v -> b + v * 2**e;  {'ulp': B, 'j': j}: v -> B moved j * rank(v) ulps
    if consts:
        c['consts'] = consts          # 'big': the scaling constants 2**30, 2**-30, 1e9, -3
    if light:
        c['light'] = int(light)       # big case: that many scaling constants only (True = 1), no aliasing histories
    if train is not None:
        c['train'] = train            # rows the tree is grown on (the other rows of the context are out-of-bag objects)
    if probe:
        c['probe'] = probe            # 'ulp': for every split add objects on the threshold and one float64 ulp above / below;
                                      # 'ladder': ... and 2**k float64 ulps above / below, k up to 51 (a gap or an overlap of
                                      # ANY width between the two child intervals swallows one of them)
    if arrays is not None:
        c['arrays'] = arrays          # kind == 'arrays': a hand-written tree in sklearn's array form
    if mut is not None:
        c['mut'] = mut
    if params:
        c['params'] = params          # further keyword arguments of the sklearn estimator (non-default growth)
    if renum:
        c['renum'] = renum            # hand-renumbered arrays of the fitted tree: 'bfs' | 'mirror'
    return c


# float32-exact values around a threshold at 1e-3: in-bag 0 and B_SUB, threshold THR_SUB (their float32 midpoint), and an
# object 3 float32-ulps (3.5e-10 < eps) above the threshold
B_SUB, THR_SUB, X_SUB = 0.0020000000949949026, 0.0010000000474974513, 0.0010000003967434168


def succ(t):
    """The IEEE-754 successor of the float64 `t` (towards +inf), without numpy."""
    t = float(t)
    if t == 0.0:
        return 5e-324
    bits = struct.unpack('<q', struct.pack('<d', t))[0]
    return struct.unpack('<d', struct.pack('<q', bits + 1 if t > 0 else bits - 1))[0]


def pred_(t):
    return -succ(-float(t))


def _ord(t):
    """Position of the float64 `t` on the (signed) float64 grid: consecutive floats have consecutive positions."""
    b = struct.unpack('<Q', struct.pack('<d', float(t)))[0]
    return -(b & (2 ** 63 - 1)) if b >> 63 else b


_ORD_MAX = _ord(1.7976931348623157e308)


def ulp_shift(t, d):
    """The float64 `d` grid steps above (d > 0) / below (d < 0) `t`, clamped to the finite floats."""
    o = max(-_ORD_MAX, min(_ORD_MAX, _ord(t) + d))
    return struct.unpack('<d', struct.pack('<Q', o if o >= 0 else (-o) | (1 << 63)))[0]


# distances (in float64 ulps) of the 'ladder' probes from a threshold: 1, 2, 16, ... 2**51 (2**29 = one float32 ulp,
# 2**52 = the next binade): whatever the width of a gap / an overlap between the two child intervals, one rung is inside
LADDER = (0, 1, 4, 12, 22, 28, 29, 36, 44, 51)


def _ladder(t):
    return [float(t)] + [ulp_shift(t, sg * 2 ** k) for k in LADDER for sg in (1, -1)]


CONSTS_BIG = [2.0 ** 30, 2.0 ** -30, 1e9, -3.0]


def consts_of(c):
    if c.get('consts') == 'big':
        return CONSTS_BIG
    return CONSTS[:max(1, int(c['light']))] if c.get('light') else CONSTS


def _vmap(arr, vm):
    a = copy.deepcopy(arr)
    if 'ulp' in vm:
        rank = {v: i for i, v in enumerate(sorted(set(a['value'])))}
        a['value'] = [ulp_shift(vm['ulp'], vm['j'] * rank[v]) for v in a['value']]
    else:
        a['value'] = [float(vm.get('off', 0.0)) + float(v) * 2.0 ** vm['k'] for v in a['value']]
    return a


def _f32(v):
    import numpy as np
    return float(np.float32(v))


def _f32_next(v, k=1):
    import numpy as np
    x = np.float32(v)
    for _ in range(k):
        x = np.nextafter(x, np.float32(np.inf))
    return float(x)


def _stump(thr, vals=(2.0, 1.0, 5.0)):
    return dict(left=[1, -1, -1], right=[2, -1, -1], feature=[0, -2, -2], threshold=[float(thr), -2.0, -2.0],
                value=[float(v) for v in vals])


def _around(t):
    """Objects on the threshold, one and two ulps around it, and clearly on either side."""
    t = float(t)
    far = max(abs(t) * 0.5, 1.0) if abs(t) < 1e300 else 5e299
    return [t, succ(t), pred_(t), succ(succ(t)), pred_(pred_(t)), t - far, t + far]


# |threshold| at which an absolute step of 1e-9 vanishes (>= 2**23) or overshoots (tiny scales, denormals), and plain ones
SCALES = (1.0, 0.1, 2.0 ** 23, 2.0 ** 24, 2.0 ** 24 + 2, 2.0 ** 31, 2.0 ** 53, 1e15, 1e300, 1e308, 1e-12,
          3e-9, 2.2250738585072014e-308, 2.5e-310, 5e-324, 0.0)


def _eps_scale_cases(rng):
    """The number grid.  D23 (repaired): the right child of a split used to start at `thr + 1e-9` - an ABSOLUTE step.
    (a) for |thr| >= 2**23, thr + 1e-9 == thr in float64: an object equal to the threshold matched BOTH child premises;
    (b) an object in (thr, thr + 1e-9) matched NEITHER.  Such objects arise from sklearn's float32 cast, as out-of-bag
    objects of a bootstrapped forest member, or simply on small scales.  All cases are judged like any other case."""
    big = [[16777216.0], [16777220.0], [16777218.0]]
    sub = [[0.0], [B_SUB], [X_SUB]]
    for sd in (0, 1):
        yield _mk_case('eps-scale', big, [0.0, 4.0, 4.0], kind='forest', seed=sd, est=1)
        yield _mk_case('eps-scale', big + [[0.0]], [0.0, 4.0, 4.0, -8.0], kind='forest', seed=sd, est=1)
        yield _mk_case('eps-scale', sub + [[1.0]], [0.0, 1.0, 1.0, 5.0], kind='forest', seed=sd, est=1)
    yield _mk_case('eps-scale', sub, [0.0, 1.0, 1.0], kind='forest', seed=1, est=1)
    yield _mk_case('eps-scale', [[33554433.0], [33554436.0]], [0.0, 1.0])
    # (A) hand-written arrays: a stump at every scale and sign, objects on / around the threshold (all of them count as
    #     rows of the context the tree is "fitted" on: every node is reached)
    for t0 in SCALES:
        for t in ((t0, -t0) if t0 else (0.0,)):
            X = [[v] for v in _around(t)] + ([[-0.0]] if t == 0.0 else [])
            yield _mk_case('eps-scale', X, [0.0] * len(X), kind='arrays', arrays=_stump(t))
    # (B) hand-written arrays: two splits on one column whose thresholds are NEIGHBOURS on the float64 grid (the node
    #     between them holds exactly one number: its accumulated premise collapses to a single value), and two splits on
    #     two columns of very different scale
    for t0 in (1.0, 2.0 ** 24, 1e15, 1e300, 1e-12, 5e-324, -2.0 ** 31, -1e-12, 0.0):
        t1, t2 = pred_(t0), t0
        arr = dict(left=[1, 2, -1, -1, -1], right=[4, 3, -1, -1, -1], feature=[0, 0, -2, -2, -2],
                   threshold=[t2, t1, -2.0, -2.0, -2.0], value=[3.0, 2.0, 0.0, 4.0, 8.0])
        X = [[v] for v in (t1, t2, succ(t2), pred_(t1), succ(succ(t2)))]
        yield _mk_case('eps-scale', X, [0.0] * len(X), kind='arrays', arrays=arr)
    for ta, tb in ((2.0 ** 24, 2.0 ** -10), (3000000.0, 0.003), (1e15, 1e-12), (-1e300, 5e-324), (2.0 ** 31, 0.0)):
        arr = dict(left=[1, 2, -1, -1, 5, -1, -1], right=[4, 3, -1, -1, 6, -1, -1], feature=[0, 1, -2, -2, 1, -2, -2],
                   threshold=[ta, tb, -2.0, -2.0, succ(tb), -2.0, -2.0], value=[3.0, 2.0, 0.0, 4.0, 8.0, 6.0, 10.0])
        X = [[a, b] for a in (ta, succ(ta), pred_(ta)) for b in (tb, succ(tb), pred_(tb), succ(succ(tb)))]
        yield _mk_case('eps-scale', X, [0.0] * len(X), kind='arrays', arrays=arr)
    # (C) fitted trees whose training values are float32-exact neighbours (k float32 steps apart) at every scale sklearn
    #     can fit (float32 range; gaps above its absolute 1e-7 feature threshold), with ulp probes: the probes are
    #     out-of-bag objects on the threshold and one float64 ulp around it; whole tree and members of a forest
    for t0 in (1.0, 0.1, 2.0 ** 23, 2.0 ** 24, 2.0 ** 31, 1e15, 3e37, 0.001, 3e-7):
        for sign in (1.0, -1.0):
            for k in (1, 3):
                lo = _f32(t0)
                mid, hi = _f32_next(lo, k), _f32_next(lo, 2 * k)
                X = [[sign * lo], [sign * mid], [sign * hi], [sign * lo]]
                y = [0.0, 4.0, 1.0, 2.0]
                yield _mk_case('eps-scale', X, y, probe='ulp')
                if k == 1:
                    yield _mk_case('eps-scale', X, y, train=[0, 1, 3], probe='ulp')
                    yield _mk_case('eps-scale', X, y, kind='forest', seed=int(t0) % 7, est=1, probe='ulp')
    # (D) mixed scales in one table: a column in the millions and a column in thousandths (both float32-exact), a target
    #     that needs both, unbounded depth; whole table, a training subset, forest members
    for it in range(12):
        n = rng.randint(6, 12)
        X = [[float(rng.randrange(1, 16)) * 2.0 ** 20 + float(rng.randrange(4)), float(rng.randrange(1, 9)) * 2.0 ** -10]
             for _ in range(n)]
        a, b = sorted(r[0] for r in X)[n // 2], sorted(r[1] for r in X)[n // 2]
        y = [4.0 * (r[0] > a) + 1.0 * (r[1] > b) + (2.0 if it % 3 == 0 and r[0] > a and r[1] > b else 0.0) for r in X]
        yield _mk_case('eps-scale', X, y, seed=it, probe='ulp')
        yield _mk_case('eps-scale', X, y, seed=it, train=sorted(rng.sample(range(n), n - 2)), probe='ulp')
        if it % 2 == 0:
            for e in range(3):
                yield _mk_case('eps-scale', X, y, kind='forest', seed=it, est=e, probe='ulp')


# column scales (base, step): the column holds base + k * step, k = 1..15 - every value float32-exact, neighbouring values
# further apart than sklearn's absolute split limit 1e-7
HUGE_COLS = ((2.0 ** 60, 2.0 ** 40), (0.0, 2.0 ** 20), (2.0 ** 100, 2.0 ** 80), (-(2.0 ** 60), 2.0 ** 40), (0.0, -(2.0 ** 30)),
             (2.0 ** 24, 2.0))
TINY_COLS = ((0.0, 2.0 ** -10), (0.0, 2.0 ** -16), (0.0, -(2.0 ** -10)), (1.0, 2.0 ** -12), (0.0, 1.0), (-4.0, 2.0 ** -20))


def _reach_rows(arr, pools, rng, extra=24):
    """Rows for a hand-written tree: for every node one row that reaches it (None when a node cannot be reached), then
    `extra` random combinations of the per-feature value pools."""
    m = len(pools)
    n = len(arr['left'])
    cons = {0: []}
    for i in range(n):
        if arr['left'][i] != -1 and i in cons:
            cons[arr['left'][i]] = cons[i] + [(arr['feature'][i], arr['threshold'][i], True)]
            cons[arr['right'][i]] = cons[i] + [(arr['feature'][i], arr['threshold'][i], False)]
    rows = []
    for i in range(n):
        if i not in cons:
            return None
        row = []
        for f in range(m):
            ub = [t for ff, t, left in cons[i] if ff == f and left]
            lb = [t for ff, t, left in cons[i] if ff == f and not left]
            if ub and lb and not max(lb) < min(ub):
                return None
            # hug the tightest bound: on the threshold for a left turn, one ulp above it for a right turn
            row.append(min(ub) if ub else (succ(max(lb)) if lb else pools[f][0]))
        rows.append(row)
    for _ in range(extra):
        rows.append([rng.choice(pools[f]) for f in range(m)])
    return rows


def _mixed_arrays_case(rng):
    """A hand-written tree with 3-5 splits whose thresholds are drawn from ALL scales (one tree mixes 2**60 with 1e-12 with
    denormals, both signs; the same column may be split at two very different scales), objects on / around every threshold
    at every distance of the ladder.  Returns None when the drawn thresholds contradict each other."""
    m = rng.randint(1, 3)
    k = rng.randint(3, 5)
    # random binary tree with k internal nodes, nodes numbered in pre-order
    left, right, feature, threshold = [], [], [], []

    def build(budget):
        i = len(left)
        left.append(-1); right.append(-1); feature.append(-2); threshold.append(-2.0)
        if budget > 0:
            bl = rng.randint(0, budget - 1)
            feature[i] = rng.randrange(m)
            t0 = rng.choice(SCALES[:-1] + (2.0 ** 40, 2.0 ** 60, 3.0, 1e-3, 2.0 ** -40))
            threshold[i] = rng.choice((t0, -t0))
            left[i] = build(bl)
            right[i] = build(budget - 1 - bl)
        return i
    build(k)
    arr = dict(left=left, right=right, feature=feature, threshold=threshold,
               value=[float(rng.randrange(-8, 9)) for _ in left])
    pools = [[0.0] for _ in range(m)]
    for f, t, l in zip(feature, threshold, left):
        if l != -1:
            pools[f] += _ladder(t)
    rows = _reach_rows(arr, pools, rng)
    if rows is None:
        return None
    return _mk_case('mixed-scale', rows, [0.0] * len(rows), kind='arrays', arrays=arr)


def _mixed_scale_cases(rng, tier, boost):
    """(H3) extreme scales mixed within ONE tree.  A step / tolerance that is right at one scale is wrong at another one:
    the tree must split on a huge-scale AND on a tiny-scale column (or on one column at two scales), and the context must
    hold objects within a few ulps of EACH threshold, on both sides, in-bag and out-of-bag."""
    ntab = (10 if tier == 'quick' else 60) * (2 if boost else 1)
    for it in range(ntab):
        n = rng.randint(6, 12)
        cols = [rng.choice(HUGE_COLS), rng.choice(TINY_COLS)]
        if it % 3 == 2:
            cols.append(rng.choice(HUGE_COLS + TINY_COLS))
        if it % 2:
            cols.reverse()
        X = [[b + float(rng.randrange(1, 16)) * st for b, st in cols] for _ in range(n)]
        med = [sorted(r[j] for r in X)[n // 2] for j in range(len(cols))]
        y = [sum(float(2 ** j) * (r[j] > med[j]) for j in range(len(cols)))
             + (3.0 if it % 3 == 0 and all(r[j] > med[j] for j in range(len(cols))) else 0.0) for r in X]
        yield _mk_case('mixed-scale', X, y, seed=it, probe='ulp')
        yield _mk_case('mixed-scale', X, y, seed=it, train=sorted(rng.sample(range(n), n - 2)), probe='ladder')
        yield _mk_case('mixed-scale', X, y, kind='forest', seed=it, est=it % 3, probe='ulp' if it % 2 else 'ladder')
        if it % 4 == 0:
            yield _mk_case('mixed-scale', X, y, seed=it, params=dict(max_leaf_nodes=4), probe='ulp')
    # one column split at several scales: values 1, 3, 2**20 + 1, 2**20 + 3, 2**60, ... (in-bag neighbours at each scale)
    for it in range(3 if tier == 'quick' else 12):
        sc = rng.sample((1.0, 2.0 ** 20, 2.0 ** 40, 2.0 ** 60, 2.0 ** 100, 2.0 ** -10), 3)
        vals = sorted({sg * _f32_next(s_, k) for s_ in sc for k in (0, 1, 2) for sg in ((1.0, -1.0) if it % 2 else (1.0,))})
        X = [[v] for v in vals]
        y = [float((3 * i) % 7) for i in range(len(vals))]
        yield _mk_case('mixed-scale', X, y, seed=it, probe='ulp')
        yield _mk_case('mixed-scale', X, y, seed=it, train=list(range(0, len(vals), 2)) + [len(vals) - 1][:len(vals) % 2 == 0],
                       probe='ladder')
    done, tries = 0, 0
    want = (12 if tier == 'quick' else 80) * (2 if boost else 1)
    while done < want and tries < 20 * want:
        tries += 1
        c = _mixed_arrays_case(rng)
        if c is not None:
            done += 1
            yield c


def _vine(k, S, ratio):
    """A maximally unbalanced hand-written tree: split i sends x <= i + 1 to a leaf and goes on to the right; the deltas
    shrink geometrically (S, S * 2**-ratio, S * 2**-2ratio, ...) with alternating signs: deltas of MANY magnitudes in one
    tree."""
    left, right, feature, threshold, value = [], [], [], [], []
    v = 3.0 * S
    for i in range(k):
        d = S * 2.0 ** (-ratio * i)
        left.append(2 * i + 1); right.append(2 * i + 2); feature.append(0); threshold.append(float(i + 1)); value.append(v)
        left.append(-1); right.append(-1); feature.append(-2); threshold.append(-2.0)
        value.append(v - d / 2 if i % 2 else v + d / 2)                          # the left leaf of split i
        v = v + d if i % 2 else v - d
    left.append(-1); right.append(-1); feature.append(-2); threshold.append(-2.0); value.append(v)
    return dict(left=left, right=right, feature=feature, threshold=threshold, value=value)


def _target_scale_cases(rng, tier, boost):
    """(H3 applied to the TARGET.)  The small fitted-tree families with the targets on other scales: y * 2**k for k from -60
    to 60, y on top of a large offset (5 + 2**-23 s, 2**40 + s), sibling leaf values 1-3 ulps apart, and unbalanced trees
    with deltas of many magnitudes.  Dyadic factors keep the arithmetic exact.  sklearn itself refuses to split a node whose
    variance is below 2.2e-16, so besides really fitted trees (k >= -28) the node VALUES of a fitted tree are rewritten
    (`vmap`: same shape and thresholds, any scale).  All judged by the rounding unit of the tree's own numbers, with the
    scaling constants 2**30, 2**-30, 1e9."""
    ntab = (6 if tier == 'quick' else 40) * (2 if boost else 1)
    for it in range(ntab):
        big = it % 3 == 2
        n, m = (rng.randint(14, 30), rng.randint(2, 3)) if big else (rng.randint(5, 12), rng.randint(1, 3))
        grid = rng.choice(GRIDS + (list(range(10)),))
        X = [[float(rng.choice(grid)) for _ in range(m)] for _ in range(n)]
        s_ = [float(rng.randrange(-8, 25)) for _ in range(n)]
        sd = rng.randint(0, 10 ** 6)
        dp = rng.choice((2, 3, None, None))
        for k in (-28, -26, -24, -20, -10, 20, 40, 60):
            yield _mk_case('target-scale', X, [v * 2.0 ** k for v in s_], depth=dp, seed=sd, consts='big')
        yield _mk_case('target-scale', X, [5.0 + v * 2.0 ** -23 for v in s_], depth=dp, seed=sd, consts='big')
        yield _mk_case('target-scale', X, [2.0 ** 40 + v for v in s_], depth=dp, seed=sd, consts='big')
        for e in range(3):
            yield _mk_case('target-scale', X, [v * 2.0 ** rng.choice((-26, -24, 40)) for v in s_], kind='forest', depth=dp,
                           seed=sd, est=e, consts='big')
        yield _mk_case('target-scale', X, [5.0 + v * 2.0 ** -23 for v in s_], kind='forest', depth=dp, seed=sd, est=it % 3,
                       consts='big')
        # the same fitted shapes with rewritten node values: scales sklearn cannot fit, offsets, ulp-close siblings
        for vm in (dict(k=-60), dict(k=-40), dict(k=-30), dict(k=-24), dict(k=-30, off=5.0), dict(k=-20, off=2.0 ** 40),
                   dict(k=-44, off=-1.0), dict(ulp=rng.choice((1.0, 5.0, 2.0 ** 40, 1e-7, -3.0)), j=1),
                   dict(ulp=rng.choice((1.0, 2.0 ** -24, 1e9)), j=3)):
            yield _mk_case('target-scale', X, s_, depth=dp if it % 2 else None, seed=sd, vmap=vm, consts='big')
    for S in (1.0, 2.0 ** -24, 2.0 ** 40, 1e-7, 2.0 ** -60):
        for k, ratio in ((6, 8), (10, 5), (4, 13)):
            arr = _vine(k, S, ratio)
            X = [[float(i) + 0.5] for i in range(k + 2)] + [[float(i + 1)] for i in range(k)]
            yield _mk_case('target-scale', X, [0.0] * len(X), kind='arrays', arrays=arr, consts='big')


def _interaction_cases(rng, tier, boost):
    """Targets that are a pure interaction of the columns (XOR, checkerboard, parity; alone or nested below an ordinary
    split): every candidate split of such a node has zero gain, so CART splits it into children whose mean EQUALS the
    parent's - an internal node with a zero delta and a whole subtree below it.  Balanced cells and integer / dyadic
    values make the equality exact."""
    ntab = (8 if tier == 'quick' else 60) * (2 if boost else 1)
    for it in range(ntab):
        m = 2 if it % 3 else 3
        reps = rng.randint(1, 2)
        lv = rng.choice(((0.0, 1.0), (0.0, 1.0, 2.0, 3.0), (-1.0, 1.0), (0.5, 2.5)))
        cells = list(itertools.product(lv if m == 2 else lv[:2], repeat=m))
        amp = rng.choice((1.0, 2.0, 4.0, 0.5))
        rank = {v: i for i, v in enumerate(lv)}
        X, y = [], []
        for cell in cells:
            par = sum(rank[v] for v in cell) % 2
            for _ in range(reps):
                X.append([float(v) for v in cell])
                y.append(amp * par)
        if it % 2:
            # nested: an ordinary split on a further column first, the interaction below each side
            X = [r + [0.0] for r in X] + [r + [1.0] for r in X]
            y = y + [8.0 + 2.0 * v for v in y]
        order = list(range(len(X)))
        rng.shuffle(order)
        X, y = [X[i] for i in order], [y[i] for i in order]
        sd = rng.randint(0, 10 ** 6)
        yield _mk_case('interaction', X, y, seed=sd)
        yield _mk_case('interaction', X, y, seed=sd, params=dict(max_leaf_nodes=rng.choice((4, 6, 8))))
        if it % 2 == 0:
            yield _mk_case('interaction', X, y, seed=sd, params=dict(splitter='random'))


def _size_cases(rng, tier, boost):
    """(H8) directed large cases that cross 64/65 and 128/129 on every index-like dimension of the converter - objects,
    features, tree nodes / concepts / generator records - and >= 1000 nodes once.  Every object sits in its own leaf, so an
    object (a node, a feature) with index >= 64 decides the prediction; trees of forests leave objects >= 64 out of bag."""
    for n in (64, 65, 128, 129):
        vals = list(range(n))
        rng.shuffle(vals)
        X = [[float(v)] for v in vals]
        y = [float((7 * i) % 11 + (i >= 64)) for i in range(n)]
        yield _mk_case('size', X, y, seed=n, light=2)                                    # 2n - 1 nodes: 127 .. 257
        if n in (65, 129):
            yield _mk_case('size', X, y, kind='forest', seed=n, est=1, light=2)
            yield _mk_case('size', X, y, seed=n, params=dict(max_leaf_nodes=n - 1), light=2)   # best-first numbering
            yield _mk_case('size', X, y, seed=n, train=list(range(0, n, 2)), probe='ulp', light=2)
    for m in (64, 65, 128, 129):
        n = 10
        # only the last two columns carry information: the tree splits on feature m - 1 and m - 2
        X = [[1.0] * (m - 2) + [float(i % 5), float(i // 5)] for i in range(n)]
        y = [float(3 * (i % 5) + 20 * (i // 5)) for i in range(n)]
        yield _mk_case('size', X, y, seed=m, light=2)
    # >= 1000 nodes / concepts / generator records (every object its own leaf: 2 * 520 - 1 nodes); the Lean side answers
    # such a case on its linear-time path only (hypotheses, descent, checker of the implementation's records)
    n = 520
    vals = list(range(n))
    rng.shuffle(vals)
    yield _mk_case('size', [[float(v)] for v in vals], [float(i) for i in range(n)], seed=1, light=1)


def _code_succ(thr, eps):
    """What the converter puts at the left end of the right child's interval, as a float."""
    return succ(thr) if eps is None else float(thr) + eps


def _abs_eps_cause(c, io):
    """(Only for code whose default eps is a NUMBER.)  Does some object of the context meet, on its own root-to-leaf
    path, a threshold for which the two child premises `x <= thr` and `thr + eps <= x` (float arithmetic, as the converter
    evaluates them) are not complementary?"""
    a = io.get('arrays')
    if not a or io.get('eps') is None:
        return False
    eps = io['eps']
    for x in io.get('X', c['X']):
        i = 0
        while 0 <= i < len(a['left']) and a['left'][i] != -1:
            f, thr = a['feature'][i], a['threshold'][i]
            if not 0 <= f < len(x):
                break
            v = float(x[f])
            goes_left, in_right = v <= thr, thr + eps <= v
            if goes_left == in_right:
                return True
            i = a['left'][i] if goes_left else a['right'][i]
    return False


def _growth_params(rng):
    """One non-default way of growing the tree (each is a keyword set of DecisionTreeRegressor)."""
    return rng.choice([
        dict(max_leaf_nodes=rng.choice((3, 4, 5, 7, 9))),                 # best-first builder: children numbered k, k+1
        dict(max_leaf_nodes=rng.choice((4, 6)), min_samples_leaf=2),
        dict(min_samples_leaf=rng.choice((2, 3))),
        dict(min_samples_split=rng.choice((3, 4))),
        dict(ccp_alpha=rng.choice((0.0625, 0.25, 1.0))),
        dict(splitter='random'),
        dict(max_features=1),
        dict(criterion='absolute_error'),
        dict(max_depth=None, max_leaf_nodes=16, min_samples_leaf=1),
        dict(min_impurity_decrease=0.125),
    ])


def _growth_cases(rng, tier, boost):
    """Trees grown with non-default parameters, on small, two-digit-sized and float32-unfriendly contexts."""
    nctx = 70 if tier == 'quick' else 500
    if boost:
        nctx *= 2
    for it in range(nctx):
        big = it % 5 == 0
        n, m = (rng.randint(13, 40), rng.randint(2, 4)) if big else (rng.randint(4, 12), rng.randint(1, 3))
        grid = rng.choice(GRIDS + ([0.1, 0.2, 0.3, 19.99, 20.0, 0.7],) + (list(range(12)),))
        ygrid = rng.choice(YS)
        X = [[float(rng.choice(grid)) for _ in range(m)] for _ in range(n)]
        y = [float(rng.choice(ygrid)) for _ in range(n)]
        sd = rng.randint(0, 10 ** 6)
        # the best-first builder always, plus one other way of growing
        yield _mk_case('growth', X, y, seed=sd, params=dict(max_leaf_nodes=rng.choice((3, 4, 5, 6, 8, 12))))
        yield _mk_case('growth', X, y, depth=rng.choice((2, 3, None)), seed=sd, params=_growth_params(rng))
        if it % 3 == 0:
            pr = dict(max_leaf_nodes=rng.choice((3, 5, 6)))
            for e in range(3):
                yield _mk_case('growth-forest', X, y, kind='forest', seed=sd, est=e, params=pr)
        if it % 4 == 1:
            for e in range(2):
                yield _mk_case('growth-gboost', X, y, kind='gboost', depth=rng.choice((1, 2, 3)), seed=sd, est=e,
                               params=rng.choice((dict(), dict(max_leaf_nodes=4))))
        if it % 4 == 2:
            yield _mk_case('growth-extra', X, y, kind='extra', depth=rng.choice((2, None)), seed=sd)
        if it % 2 == 0:
            for rn in ('bfs', 'mirror'):
                yield _mk_case('renumber', X, y, depth=rng.choice((2, 3, None)), seed=sd, renum=rn)


def gen(tier, seed, boost=False):
    rng = random.Random(seed * 1000003 + 2020)
    cdir = os.path.join(os.path.dirname(os.path.dirname(os.path.dirname(os.path.abspath(__file__)))), 'corpus', 'C20')
    if os.path.isdir(cdir):
        for f in sorted(os.listdir(cdir)):
            if f.endswith('.json'):
                c = json.load(open(os.path.join(cdir, f)))
                c = c.get('case', c)
                c['stream'] = 'corpus'
                yield c
    # a small directed stream first: on the tiny tables below a rule with a zero delta is always a LEAF (dropping it changes
    # the records but no prediction); here zero-delta rules are internal nodes, so the same mistake shows in the predictions
    yield from _interaction_cases(random.Random(seed * 49979687 + 5), tier, boost)
    # exhaustive small scope
    for n in (1, 2, 3):
        for xs in itertools.product((0, 1, 2), repeat=n):
            for ys in itertools.product((0, 1, 3), repeat=n):
                yield _mk_case('exhaustive', [[float(v)] for v in xs], [float(v) for v in ys])
    if tier == 'thorough' or boost:
        for n in (1, 2, 3):
            for xs in itertools.product((0, 1), repeat=2 * n):
                for ys in itertools.product((0, 1, 3), repeat=n):
                    for d in (1, None):
                        yield _mk_case('exhaustive-2col', [[float(xs[2 * i]), float(xs[2 * i + 1])] for i in range(n)],
                                       [float(v) for v in ys], depth=d)
        for xs in itertools.product((0, 1, 2), repeat=4):
            for ys in itertools.product((0, 1, 3), repeat=4):
                yield _mk_case('exhaustive-4rows', [[float(v)] for v in xs], [float(v) for v in ys])
    yield from _eps_scale_cases(random.Random(seed * 104729 + 23))
    yield from _mixed_scale_cases(random.Random(seed * 15485863 + 3), tier, boost)
    yield from _size_cases(random.Random(seed * 32452843 + 8), tier, boost)
    yield from _target_scale_cases(random.Random(seed * 86028121 + 13), tier, boost)
    yield from _growth_cases(random.Random(seed * 7919 + 20), tier, boost)
    # seeded random larger cases
    nctx = 150 if tier == 'quick' else 1500
    if boost:
        nctx *= 3
    for it in range(nctx):
        n, m = rng.randint(1, 12), rng.randint(1, 3)
        grid, ygrid = rng.choice(GRIDS), rng.choice(YS)
        X = [[float(rng.choice(grid)) for _ in range(m)] for _ in range(n)]
        y = [float(rng.choice(ygrid)) for _ in range(n)]
        fam = rng.random()
        if fam < 0.1 and n > 1:
            X[rng.randrange(n)] = list(X[rng.randrange(n)])          # duplicate rows
        elif fam < 0.15:
            y = [y[0]] * n                                           # constant target: single-node tree
        elif fam < 0.2 and m > 1:
            for r in X:
                r[1] = r[0]                                          # duplicate columns
        for d in DEPTHS:
            yield _mk_case('random', X, y, depth=d, seed=rng.randint(0, 10 ** 6))
        if it % 5 == 2:
            # ordinary tables with out-of-bag objects on every threshold and one float64 ulp around it
            yield _mk_case('ulp-probe', X, y, depth=rng.choice(DEPTHS), seed=rng.randint(0, 10 ** 6), probe='ulp')
            yield _mk_case('ulp-probe', X, y, kind='forest', depth=None, seed=rng.randint(0, 10 ** 6), est=it % 3,
                           probe='ulp')
        if it % 3 == 0:
            s, d = rng.randint(0, 10 ** 6), rng.choice(DEPTHS)
            for e in range(3):
                yield _mk_case('forest', X, y, kind='forest', depth=d, seed=s, est=e)
        if it % 2 == 0:
            # bootstrapped estimators on an integer grid: an out-of-bag object can sit exactly on a split threshold
            # (in-bag values 1 and 3, threshold 2.0, out-of-bag value 2) - the tree sends x <= t to the left
            n2 = rng.randint(5, 10)
            Xg = [[float(rng.randrange(6)) for _ in range(rng.randint(1, 2))] for _ in range(n2)]
            Xg = [r + [r[0]] * (len(Xg[0]) - len(r)) for r in Xg]
            Xg = [r[:len(Xg[0])] for r in Xg]
            yg = [float(rng.choice(ygrid)) for _ in range(n2)]
            s2 = rng.randint(0, 10 ** 6)
            for e in range(3):
                yield _mk_case('forest-grid', Xg, yg, kind='forest', depth=None, seed=s2, est=e)
        if it % 4 == 1:
            for mut in ('orphan', 'feature', 'contradict', 'nonsep'):
                yield _mk_case('malformed', X, y, depth=rng.choice((2, 3, None)), seed=rng.randint(0, 10 ** 6), mut=mut)


# ------------------------------------------------------------------------------------------------ implementation side

def _fit(c):
    import numpy as np
    from sklearn.tree import DecisionTreeRegressor, ExtraTreeRegressor
    from sklearn.ensemble import RandomForestRegressor, GradientBoostingRegressor
    import warnings
    warnings.simplefilter('ignore')
    X = np.array(c['X'], dtype=float)
    y = np.array(c['y'], dtype=float)
    if c['kind'] == 'arrays':
        return X, y, _fake_tree(c['arrays'])
    # the tree is grown on the rows `train` (default: all); the context always holds every row
    Xt, yt = (X, y) if c.get('train') is None else (X[c['train']], y[c['train']])
    pr = dict(c.get('params') or {})
    if 'max_depth' in pr:
        pr.pop('max_depth')
    if c['kind'] == 'forest':
        rf = RandomForestRegressor(n_estimators=3, bootstrap=True, max_depth=c['depth'], random_state=c['seed'], **pr)
        rf.fit(Xt, yt)
        return X, y, rf.estimators_[c['est']]
    if c['kind'] == 'gboost':
        gb = GradientBoostingRegressor(n_estimators=2, max_depth=c['depth'], random_state=c['seed'], **pr)
        gb.fit(Xt, yt)
        return X, y, gb.estimators_.flatten()[c['est']]
    if c['kind'] == 'extra':
        return X, y, ExtraTreeRegressor(max_depth=c['depth'], random_state=c['seed'], **pr).fit(Xt, yt)
    return X, y, DecisionTreeRegressor(max_depth=c['depth'], random_state=c['seed'], **pr).fit(Xt, yt)


def _probes(arr, X, limit=6, mode='ulp'):
    """Out-of-bag objects for the first `limit` splits of the tree: a row of the context that reaches the split, with the
    split feature replaced by the threshold itself, by its float64 successor and by its float64 predecessor
    (mode 'ladder': and by the floats 2**k ulps above / below it, see LADDER; the first 4 splits)."""
    rows = []
    if mode == 'ladder':
        limit = 4
    nsplit = 0
    for i, l in enumerate(arr['left']):
        if l == -1 or nsplit >= limit:
            continue
        f, thr = arr['feature'][i], arr['threshold'][i]
        base = None
        for x in X:
            j = 0
            while arr['left'][j] != -1 and j != i:
                j = arr['left'][j] if float(x[arr['feature'][j]]) <= arr['threshold'][j] else arr['right'][j]
            if j == i:
                base = list(x)
                break
        if base is None:
            continue
        nsplit += 1
        for v in (_ladder(thr) if mode == 'ladder' else (thr, succ(thr), pred_(thr))):
            rows.append([float(w) for w in base[:f]] + [float(v)] + [float(w) for w in base[f + 1:]])
    return rows


def _other_rows(c, arr, rows):
    """The rows of ANOTHER context over the same columns (held-out objects): recombinations of the values of each column,
    objects on / one ulp around the first thresholds, and one object far below / far above everything."""
    rng = random.Random(json.dumps([c['X'], c['seed'], c['kind']]))
    m = len(rows[0])
    cols = [[r[j] for r in rows] for j in range(m)]
    out = [[rng.choice(cols[j]) for j in range(m)] for _ in range(rng.randint(1, 4))]
    out += _probes(arr, rows, limit=3)
    def far(v, sg):
        w = v + sg * max(1.0, abs(v))
        return w if math.isfinite(w) else ulp_shift(v, sg * 2 ** 45)
    out.append([far(min(cols[j]), -1) for j in range(m)])
    out.append([far(max(cols[j]), 1) for j in range(m)])
    if rng.random() < 0.5:
        out.append(list(out[0]))                # the same object twice
    return [[float(v) for v in r] for r in out]


def _renumber(arr, how):
    """The same tree with its nodes numbered differently (parents still before their children):
    'bfs' = level order, 'mirror' = depth first but the RIGHT child directly after its parent."""
    left, right = arr['left'], arr['right']
    order = []
    if how == 'bfs':
        queue = [0]
        while queue:
            i = queue.pop(0)
            order.append(i)
            if left[i] != -1:
                queue += [left[i], right[i]]
    else:
        stack = [0]
        while stack:
            i = stack.pop()
            order.append(i)
            if left[i] != -1:
                stack += [left[i], right[i]]          # right is popped first
    new = {old: k for k, old in enumerate(order)}
    out = dict(left=[], right=[], feature=[], threshold=[], value=[])
    for old in order:
        out['left'].append(-1 if left[old] == -1 else new[left[old]])
        out['right'].append(-1 if right[old] == -1 else new[right[old]])
        for k in ('feature', 'threshold', 'value'):
            out[k].append(arr[k][old])
    return out


def _walk(arr, X):
    """The tree's own prediction from its arrays: x[feature] <= threshold -> left."""
    res = []
    for x in X:
        i = 0
        while arr['left'][i] != -1:
            i = arr['left'][i] if float(x[arr['feature'][i]]) <= arr['threshold'][i] else arr['right'][i]
        res.append(float(arr['value'][i]))
    return res


def _arrays(tree):
    t = tree.tree_
    return dict(left=[int(v) for v in t.children_left], right=[int(v) for v in t.children_right],
                feature=[int(v) for v in t.feature], threshold=[float(v) for v in t.threshold],
                value=[float(v) for v in t.value.flatten()])


def _mutate(arr, mut, m):
    """Perturb fitted arrays (malformed stream). Returns None when the mutation does not apply."""
    a = copy.deepcopy(arr)
    internal = [i for i, l in enumerate(a['left']) if l != -1]
    if not internal:
        return None
    if mut == 'orphan':
        a['left'][internal[-1]] = -1
    elif mut == 'feature':
        a['feature'][internal[-1]] = m + 1
    elif mut == 'contradict':
        # a right child that again splits on the parent's feature below the parent's threshold
        cand = [i for i in internal if a['right'][i] in internal and a['feature'][a['right'][i]] == a['feature'][i]]
        if not cand:
            return None
        i = cand[0]
        a['threshold'][a['right'][i]] = a['threshold'][i] - 1.0
    elif mut == 'nonsep':
        a['threshold'][internal[-1]] = 1024.0
    return a


def _fake_tree(arr):
    import numpy as np
    from types import SimpleNamespace
    from sklearn.tree import DecisionTreeRegressor
    ft = DecisionTreeRegressor()
    ft.tree_ = SimpleNamespace(children_left=np.array(arr['left']), children_right=np.array(arr['right']),
                               feature=np.array(arr['feature']), threshold=np.array(arr['threshold'], dtype=float),
                               value=np.array(arr['value'], dtype=float).reshape(-1, 1, 1))
    return ft


def _canon_descr(d):
    import numbers
    if d is None:
        return None
    if isinstance(d, numbers.Number):
        return {'num': float(d)}
    return [float(d[0]), float(d[1])]


def _canon_gen(g):
    return [[int(k), _canon_descr(v)] for k, v in g.items()]


def _canon_recs(ge):
    out = []
    for r in ge:
        out.append(dict(sup=None if r['superconcept_i'] is None else int(r['superconcept_i']), c=int(r['concept_i']),
                        ext=sorted(int(g) for g in r['ext_']), gen=_canon_gen(r['gen'])))
    out.sort(key=lambda r: (r['c'], -1 if r['sup'] is None else r['sup'], r['ext']))
    return out


def _canon_decisions(D):
    out = [dict(sup=None if k[0] is None else int(k[0]), c=int(k[1]), gen=_canon_gen(k[2]), dy=float(v))
           for k, v in D._decisions.items()]
    out.sort(key=lambda r: r['c'])
    return out


def eps_of_code():
    """The converter's default `eps`: `None` = the right child starts at `np.nextafter(thr, inf)` (the code after the repair
    of D23), a number = it starts at `thr + eps` (the code before it)."""
    from fcapy.ml.decision_lattice import DecisionLatticePredictor
    d = inspect.signature(DecisionLatticePredictor._parse_dtsklearn_to_direct_drules).parameters['eps'].default
    return None if d is None else float(d)


def _f32_exact(row):
    import numpy as np
    with np.errstate(all='ignore'):
        return all(float(np.float32(v)) == float(v) for v in row)


def impl(c):
    from fcapy.mvcontext import MVContext, pattern_structure as PS
    from fcapy.ml.decision_lattice import DecisionLatticeRegressor
    import numpy as np
    X, y, tree = _fit(c)
    m = X.shape[1]
    arr = copy.deepcopy(c['arrays']) if c['kind'] == 'arrays' else _arrays(tree)
    out = dict(eps=eps_of_code())
    if c.get('probe'):
        extra = _probes(arr, X.tolist(), mode=c['probe'])
        if extra:
            X = np.vstack([X, np.array(extra, dtype=float)])
            y = np.concatenate([y, np.zeros(len(extra))])
    rows = [[float(v) for v in r] for r in X.tolist()]
    out['X'] = rows                      # the context's rows (the case's rows + probes)
    if c['kind'] == 'arrays' or c.get('probe') or c.get('train') is not None:
        # cells need not be float32-representable (sklearn's predict would answer for the rounded number): the tree's
        # prediction is the float64 descent on its arrays; sklearn's own answer is kept for the float32-exact rows
        out['tree_pred'] = _walk(arr, rows)
        if c['kind'] != 'arrays':
            sk = [float(v) for v in tree.predict(X)]
            out['sk_rows'] = [[i, sk[i]] for i, r in enumerate(rows) if _f32_exact(r)]
    elif c.get('mut'):
        arr = _mutate(arr, c['mut'], m)
        if arr is None:
            return dict(skip=True)
        tree = _fake_tree(arr)
        out['tree_pred'] = None
    elif c.get('vmap'):
        arr = _vmap(arr, c['vmap'])
        tree = _fake_tree(arr)
        out['tree_pred'] = _walk(arr, rows)
    elif c.get('renum'):
        out['sk_pred'] = [float(v) for v in tree.predict(X)]
        arr = _renumber(arr, c['renum'])
        tree = _fake_tree(arr)
        out['tree_pred'] = _walk(arr, c['X'])
    else:
        out['tree_pred'] = [float(v) for v in tree.predict(X)]
    out['arrays'] = arr
    # the successor of every threshold, three ways (numpy = what the code calls; math; bit pattern + 1)
    ths = sorted({float(t) for t, l in zip(arr['threshold'], arr['left']) if l != -1})
    out['succ_ok'] = all(float(np.nextafter(t, np.inf)) == succ(t) == math.nextafter(t, math.inf) for t in ths)
    names = [str(j) for j in range(m)]
    K = MVContext(rows, {nm: PS.IntervalPS for nm in names},
                  target=[float(v) for v in y], attribute_names=names)
    try:
        D = DecisionLatticeRegressor.from_decision_tree(tree, K)
        pred = [float(v) for v in D.predict(K)]
    except Exception as e:
        out['err'] = type(e).__name__
        out['msg'] = str(e)[:200]
        return out
    out['pred'] = pred
    L = D.lattice
    out['lattice'] = dict(n_concepts=len(L), top=int(L.top), extents=[sorted(int(g) for g in cc.extent_i) for cc in L])
    _, _, ge = L.trace_context(K, use_object_indices=True, use_generators=True, return_generators_extents=True)
    out['recs'] = _canon_recs(ge)
    dec0 = _canon_decisions(D)
    out['decisions'] = dec0
    scaled = []
    for cst in consts_of(c):
        s = dict(c=float(cst), ctype=type(cst).__name__)
        try:
            # out of place, then a two-step in-place history on the RESULT; the ORIGINAL is re-examined after every step
            P = D * cst
            s['mul'] = [float(v) for v in P.predict(K)]
            fresh = [P is not D, P.lattice is not D.lattice, P._decisions is not D._decisions,
                     P.lattice._generators_dict is not D.lattice._generators_dict]
            orig = [_canon_decisions(D) == dec0]
            P *= K1
            s['mul_imul'] = [float(v) for v in P.predict(K)]
            orig.append(_canon_decisions(D) == dec0)
            P /= K2
            s['mul_imul_idiv'] = [float(v) for v in P.predict(K)]
            orig.append(_canon_decisions(D) == dec0)
            Q = D / cst
            s['div'] = [float(v) for v in Q.predict(K)]
            fresh += [Q is not D, Q.lattice is not D.lattice, Q._decisions is not D._decisions, Q is not P]
            orig.append(_canon_decisions(D) == dec0)
            Q /= K2
            s['div_idiv'] = [float(v) for v in Q.predict(K)]
            orig.append(_canon_decisions(D) == dec0)
            Q *= K1
            s['div_idiv_imul'] = [float(v) for v in Q.predict(K)]
            orig.append(_canon_decisions(D) == dec0)
            s['fresh'] = bool(all(fresh))
            s['orig_decisions_kept'] = bool(all(orig))
            s['orig_pred'] = [float(v) for v in D.predict(K)]
        except Exception as e:
            s['err'] = type(e).__name__
        scaled.append(s)
    out['scaled'] = scaled
    # the aliasing histories cost several conversions: on the tiny exhaustive tables run them on every third case only
    if not c.get('mut') and not c.get('light') and (c['stream'] != 'exhaustive' or int(sum(c['y']) + sum(r[0] for r in c['X'])) % 3 == 0):
        out['hist'] = _histories(c, tree, K, X, D)
    if not c.get('mut') and not c.get('light'):
        # the converted lattice asked about ANOTHER context over the same columns (theorem dl_predict_other_context)
        rows2 = _other_rows(c, arr, rows)
        out['X2'] = rows2
        out['tree_pred2'] = _walk(arr, rows2)
        try:
            Kh = MVContext(rows2, {nm: PS.IntervalPS for nm in names}, attribute_names=names,
                           object_names=['h%d' % i for i in range(len(rows2))])
            out['pred2'] = [float(v) for v in D.predict(Kh)]
            out['pred2_mul'] = [float(v) for v in (D * CONSTS[0]).predict(Kh)]
            _, _, ge2 = L.trace_context(Kh, use_object_indices=True, use_generators=True, return_generators_extents=True)
            out['recs2'] = _canon_recs(ge2)
            if c['kind'] != 'arrays' and not c.get('renum') and not c.get('vmap'):
                sk2 = [float(v) for v in tree.predict(np.array(rows2, dtype=float))]
                out['sk_rows2'] = [[i, sk2[i]] for i, r_ in enumerate(rows2) if _f32_exact(r_)]
        except Exception as e:
            out['pred2'] = 'err:' + type(e).__name__ + ': ' + str(e)[:120]
    out['decisions_after'] = _canon_decisions(D)
    try:
        out['pred_after'] = [float(v) for v in D.predict(K)]
    except Exception as e:
        out['pred_after'] = 'err:' + type(e).__name__
    return out


def _pred(obj, K):
    try:
        return [float(v) for v in obj.predict(K)]
    except Exception as e:
        return 'err:' + type(e).__name__


def _histories(c, tree, K, X, D):
    """Aliasing histories (the property: * and / leave the original unchanged, i.e. original and result are independent
    objects).  Every step mutates ONE object through a public operation and then re-asks the OTHER ones; an expendable
    second conversion `E` of the same tree plays the original, so the main lattice `D` stays untouched.
    Returns a list of (label, factor, observed predictions) - the judge expects factor * DL.predict(K)."""
    import numpy as np
    from sklearn.tree import DecisionTreeRegressor
    from fcapy.ml.decision_lattice import DecisionLatticeRegressor as DLR
    n = X.shape[0]
    sel = [CONSTS[(n + len(c['X'][0])) % len(CONSTS)], CONSTS[(n + 3 + int(c['y'][0])) % len(CONSTS)]]
    y_alt = np.array([float((3 * i + 1) % 4) for i in range(n)])
    try:
        other_tree = DecisionTreeRegressor(max_depth=2, random_state=0).fit(X, y_alt)
    except Exception:
        other_tree = None              # values beyond the float32 range: sklearn cannot fit the auxiliary tree
    obs = []

    def conv():
        return DLR.from_decision_tree(tree, K)

    def step(fn):
        # a failing mutation step is not judged (sums are not part of C20); the re-asked objects are
        try:
            fn()
            return True
        except Exception:
            return False
    try:
        O = DLR.from_decision_tree(other_tree, K) if other_tree is not None else None
    except Exception:
        O = None
    for cst in sel:
        cf = float(cst)
        tag = f'c={cst!r}'
        # A: mutate the PRODUCT (+=), re-ask the original and the sibling quotient
        E = conv()
        P, Qd = E * cst, E / cst
        if O is not None and step(lambda: P.__iadd__(O)):
            obs.append((f'{tag}: p = dl*c; q = dl/c; p += other  ->  dl', 1.0, _pred(E, K)))
            obs.append((f'{tag}: p = dl*c; q = dl/c; p += other  ->  q', 1.0 / cf, _pred(Qd, K)))
        # B: mutate the ORIGINAL (*=, then +=), re-ask product and quotient
        E = conv()
        P, Qd = E * cst, E / cst
        if step(lambda: E.__imul__(K1)):
            obs.append((f'{tag}: p = dl*c; q = dl/c; dl *= {K1}  ->  p', cf, _pred(P, K)))
            obs.append((f'{tag}: p = dl*c; q = dl/c; dl *= {K1}  ->  q', 1.0 / cf, _pred(Qd, K)))
        if O is not None and step(lambda: E.__iadd__(O)):
            obs.append((f'{tag}: p = dl*c; q = dl/c; dl *= {K1}; dl += other  ->  p', cf, _pred(P, K)))
            obs.append((f'{tag}: p = dl*c; q = dl/c; dl *= {K1}; dl += other  ->  q', 1.0 / cf, _pred(Qd, K)))
        # C: a foreign concept added to the QUOTIENT's lattice; product of a product; original re-asked
        E = conv()
        Qd = E / cst
        n_before = len(E.lattice)
        foreign = [cc for cc in (O.lattice if O is not None else []) if cc not in Qd.lattice]
        if foreign and step(lambda: Qd.lattice.add(foreign[0])):
            obs.append((f'{tag}: q = dl/c; q.lattice.add(concept)  ->  dl', 1.0, _pred(E, K)))
            obs.append((f'{tag}: q = dl/c; q.lattice.add(concept)  ->  len(dl.lattice) unchanged', None,
                        len(E.lattice) == n_before))
        PP = (E * cst) * K1
        if step(lambda: PP.__itruediv__(K2)):
            obs.append((f'{tag}: pp = (dl*c)*{K1}; pp /= {K2}  ->  dl', 1.0, _pred(E, K)))
            obs.append((f'{tag}: pp = (dl*c)*{K1}; pp /= {K2}  ->  pp', cf * K1 / K2, _pred(PP, K)))
        # D (H5): the public knobs and the returned containers of ONE of the two edited (`use_generators` setter, the
        #    dictionary handed out by `algo_params`, a concept removed from / added to the handed-out `lattice`), the OTHER asked
        E = conv()
        P = E * cst
        ap, ug, n_before = dict(E.algo_params), E.use_generators, len(E.lattice)
        if step(lambda: (setattr(P, 'use_generators', False), P.algo_params.update(random_state=12345, extra=1))):
            obs.append((f'{tag}: p = dl*c; p.use_generators = False; p.algo_params.update(..)  ->  dl', 1.0, _pred(E, K)))
            obs.append((f'{tag}: p = dl*c; p.use_generators = False; p.algo_params.update(..)  ->  dl.algo_params, '
                        f'dl.use_generators unchanged', None, E.algo_params == ap and E.use_generators is ug))
        # (the last concept is the bottom when one was added - it cannot be removed -, the one before it is a leaf)
        if len(P.lattice) > 2 and (step(lambda: P.lattice.remove(P.lattice[len(P.lattice) - 1]))
                                   or step(lambda: P.lattice.remove(P.lattice[len(P.lattice) - 2]))):
            obs.append((f'{tag}: p = dl*c; p.lattice.remove(a leaf concept)  ->  dl', 1.0, _pred(E, K)))
            obs.append((f'{tag}: p = dl*c; p.lattice.remove(a leaf concept)  ->  len(dl.lattice) unchanged', None,
                        len(E.lattice) == n_before))
        E = conv()
        P, Qd = E * cst, E / cst
        if foreign and step(lambda: E.lattice.add(foreign[0])):
            obs.append((f'{tag}: p = dl*c; q = dl/c; dl.lattice.add(concept)  ->  p', cf, _pred(P, K)))
            obs.append((f'{tag}: p = dl*c; q = dl/c; dl.lattice.add(concept)  ->  q', 1.0 / cf, _pred(Qd, K)))
        if step(lambda: E.algo_params.update(random_state=777)):
            obs.append((f'{tag}: p = dl*c; dl.algo_params.update(random_state=777)  ->  p.algo_params unchanged', None,
                        P.algo_params == ap))
    # H2: the returned prediction array mutated in place by the caller, then asked again; an equal, rebuilt context
    r1 = D.predict(K)
    try:
        r1 += 1000.0
        r1[:] = 0
    except Exception:
        pass
    obs.append(('r = dl.predict(K); r += 1000 (in place)  ->  dl.predict(K)', 1.0, _pred(D, K)))
    from fcapy.mvcontext import MVContext, pattern_structure as PS
    names = [str(j) for j in range(X.shape[1])]
    K2_ = MVContext([[float(v) for v in r] for r in X.tolist()], {nm: PS.IntervalPS for nm in names},
                    target=[0.0] * n, attribute_names=names)
    obs.append(('dl.predict(an equal, newly built context)', 1.0, _pred(D, K2_)))
    return [list(o) for o in obs]


# ------------------------------------------------------------------------------------------------ Lean side

def requests(c, io):
    if io.get('skip') or 'arrays' not in io:
        return []
    a = io['arrays']
    recs = None
    if 'recs' in io and not c.get('mut'):
        recs = [dict(sup=r['sup'], c=r['c'], ext=r['ext']) for r in io['recs']]
    # the successor table of the model: for every threshold, the left end of the right child's interval as the code
    # computes it - np.nextafter(thr, inf) (default eps=None) or thr + eps in float64 (numeric default)
    ths = sorted({float(t) for t in a['threshold']})
    nxt = [[frac(t), frac(_code_succ(t, io['eps']))] for t in ths if math.isfinite(_code_succ(t, io['eps']))]
    X = io.get('X', c['X'])
    more = dict(X2=[[frac(v) for v in r_] for r_ in io['X2']]) if 'X2' in io else {}
    return [dict(more, op='C20.run', left=a['left'], right=a['right'], feature=a['feature'],
                 threshold=[frac(v) for v in a['threshold']], value=[frac(v) for v in a['value']],
                 X=[[frac(v) for v in r] for r in X], m=len(c['X'][0]), nxt=nxt,
                 consts=[frac(v) for v in consts_of(c)], k1=frac(K1), k2=frac(K2), recs=recs,
                 fast=len(a['left']) >= FAST_NODES)]


def close(a, b, tol):
    """|a - b| <= tol, `tol` ABSOLUTE and derived from the tree's own numbers (`_unit`): never a fixed constant."""
    return abs(a - b) <= tol


def closev(xs, ys, tol):
    return len(xs) == len(ys) and all(close(float(a), float(b), tol) for a, b in zip(xs, ys))


def _depth(a):
    n = len(a['left'])
    d = [0] * n
    for i in range(n):
        for ch in (a['left'][i], a['right'][i]):
            if isinstance(ch, int) and i < ch < n:
                d[ch] = max(d[ch], d[i] + 1)
    return max(d) if d else 0


def _unit(io):
    """What "up to floating-point rounding" means for THIS tree: with M = max |node value| and D = depth, a prediction is
    a sum (in any order) of at most D + 1 float64 deltas of magnitude <= 2M, each correctly rounded:
    |error| <= 2^-53 M (D+1)(2D+3).  The unit is 2^-51 M (D+4)^2 (room for the few roundings of `* c`, `* k1`, `/ k2`);
    a comparison of c-fold predictions uses |c| times the unit.  For M = 1, D = 6 this is 4.4e-14 - a delta of 1e-12 that
    goes missing is seen, whatever the scale of the targets (the unit scales with them)."""
    a = io.get('arrays') or {}
    M = max([abs(float(v)) for v in a.get('value', [])] or [0.0])
    return 2.0 ** -51 * M * (_depth(a) + 4) ** 2 if a else 0.0


def _path(a, x):
    i, out = 0, [0]
    while a['left'][i] != -1:
        i = a['left'][i] if float(x[a['feature'][i]]) <= a['threshold'][i] else a['right'][i]
        out.append(i)
    return out


def Q(p):
    return Fraction(p[0], p[1])


def _lean_ext(e):
    if e == 'inf':
        return float('inf')
    if e == '-inf':
        return float('-inf')
    return float(Q(e))


def _lean_descr(d):
    if d is None:
        return None
    if isinstance(d, dict):
        return {'num': _lean_ext(d['num'])}
    return [_lean_ext(d[0]), _lean_ext(d[1])]


def _descr_close(a, b):
    if a is None or b is None:
        return a is None and b is None
    if isinstance(a, dict) or isinstance(b, dict):
        return isinstance(a, dict) and isinstance(b, dict) and _num_close(a['num'], b['num'])
    return _num_close(a[0], b[0]) and _num_close(a[1], b[1])


def _num_close(a, b):
    # interval ends are data values, thresholds and successors of thresholds: no arithmetic happens on them (max / min
    # only), and the model gets each of them as the exact rational of the float - so they are compared EXACTLY (a
    # tolerance would hide a successor that is off by a few ulps)
    return float(a) == float(b)


def _gen_close(lean_gen, impl_gen):
    lg = [[k, _lean_descr(d)] for k, d in lean_gen]
    return len(lg) == len(impl_gen) and all(a[0] == b[0] and _descr_close(a[1], b[1]) for a, b in zip(lg, impl_gen))


def bad(kind, detail):
    return dict(ok=False, kind=kind, detail=detail)


def judge(c, io, rep):
    if io.get('skip'):
        return dict(ok=True)
    r = rep[0]
    if c.get('mut'):
        return _judge_malformed(c, io, r)
    if c['kind'] == 'arrays' and r.get('fitted') is False:
        # a hand-written tree with a node that no row of the context reaches (it arises when a failing case is shrunk
        # by dropping rows): no tree fitted on the context looks like that - an unreached right child has the extent of
        # the bottom and the UNCHANGED converter may raise ValueError - so the property does not speak about it; only
        # implementation and model are compared
        return _judge_malformed(dict(c, mut='unreached-node'), io, r)
    # ---- the property itself, on the implementation's own outputs -------------------------------------------------
    if 'err' in io:
        return bad('property', f'conversion/prediction raised {io["err"]}: {io.get("msg")}')
    tp = io['tree_pred']
    u = _unit(io)
    if not closev(io['pred'], tp, u):
        worst = max(range(len(tp)), key=lambda g: abs(io['pred'][g] - tp[g])) if len(tp) == len(io['pred']) else 0
        return bad('property', f'DL.predict(K) = {io["pred"]} but tree.predict(X) = {tp} (object {worst}: off by '
                               f'{abs(io["pred"][worst] - tp[worst]) if len(tp) == len(io["pred"]) else "?"!r}, rounding '
                               f'allows {u!r} for a tree with values up to {max(abs(v) for v in io["arrays"]["value"])!r})')
    # the stored decisions themselves: along the path of every object they must add up to the tree's value (a node whose
    # non-zero delta has no decision, or a rounded one, shows here even when `predict` were to hide it)
    dec = {}
    for d_ in io['decisions']:
        dec[d_['c']] = dec.get(d_['c'], 0.0) + d_['dy']
    a_ = io['arrays']
    for g, x in enumerate(io['X']):
        pth = _path(a_, x)
        ssum = math.fsum(dec.get(k, 0.0) for k in pth)
        if abs(ssum - tp[g]) > u:
            miss = [k for k in pth if k not in dec]
            return bad('property', f'the decisions stored for the nodes {pth} on the path of object {g} = {x} add up to '
                                   f'{ssum!r}, the tree predicts {tp[g]!r} (nodes without a decision: {miss}; rounding '
                                   f'allows {u!r})')
    for i, v in io.get('sk_rows', []):
        if not close(v, tp[i], u):
            return bad('correspondence', f'sklearn predict {v} != standard descent on the arrays {tp[i]} for the '
                                         f'float32-exact row {i} = {io["X"][i]}')
    if not io.get('succ_ok', True):
        return bad('harness', 'np.nextafter, math.nextafter and the bit-pattern successor disagree on a threshold')
    for s in io['scaled']:
        if 'err' in s:
            return bad('property', f'scaling by {s["c"]} raised {s["err"]}')
        c_ = s['c']
        # judged against c * (what the TREE predicts), with |c| times the rounding unit of the tree
        fac = {'mul': c_, 'div': 1.0 / c_, 'mul_imul': c_ * K1, 'mul_imul_idiv': c_ * K1 / K2,
               'div_idiv': 1.0 / c_ / K2, 'div_idiv_imul': 1.0 / c_ / K2 * K1}
        for k_, f_ in fac.items():
            w_ = [f_ * v for v in tp]
            if not closev(s[k_], w_, abs(f_) * u):
                return bad('property', f'scaling history {k_} with c={c_!r} ({s["ctype"]}), k1={K1}, k2={K2}: predicts '
                                       f'{s[k_]}, expected {f_!r} * tree.predict = {w_} (rounding allows {abs(f_) * u!r})')
        if not s['orig_decisions_kept'] or s['orig_pred'] != io['pred']:
            return bad('property', f'the original changed after p = DL*{c_!r} ({s["ctype"]}); p *= {K1}; p /= {K2} / '
                                   f'q = DL/{c_!r}; q /= {K2}; q *= {K1}: original now predicts {s["orig_pred"]}, before {io["pred"]}')
    for label, factor, got in io.get('hist', []):
        if factor is None:
            if got is not True:
                return bad('property', f'aliasing history [{label}] failed')
            continue
        want_ = [factor * v for v in tp]
        if isinstance(got, str) or not closev(got, want_, abs(factor) * u):
            return bad('property', f'aliasing history [{label}]: predicts {got}, expected {want_} '
                                   f'(tree values {tp} times {factor})')
    if io['decisions_after'] != io['decisions'] or io['pred_after'] != io['pred']:
        return bad('property', 'the original decision lattice changed after * and /')
    # identity of the parts.  The model's `mul`/`truediv` are deep copies; an implementation whose result shares the
    # object itself, the lattice, the decisions or the generator dictionary with the original differs from the model on an
    # observable the property does not pin by itself (sharing is harmless until somebody mutates) - the behavioural
    # histories above are what decides the property, so this is reported as a correspondence failure.
    for s in io['scaled']:
        if not s['fresh']:
            return bad('correspondence', f'DL*{s["c"]!r} or DL/{s["c"]!r} ({s["ctype"]}) shares state with the original '
                                         f'(same object, lattice, decisions or generator dictionary)')
    if c.get('renum') and not closev(io['tree_pred'], io['sk_pred'], u):
        return bad('harness', f'renumbering changed the tree: walk {io["tree_pred"]} sklearn {io["sk_pred"]}')
    # ---- Lean checker on the implementation's records ----------------------------------------------------------------
    if not r['wf'] and io['eps'] is not None:
        # numeric default eps only (the code before the repair of D23): a threshold within eps of a value of the context,
        # or with thr + eps == thr, is outside that mode's hypothesis (`wellFormedEps`); the property held on this case
        return dict(ok=True)
    if not r['wf']:
        return bad('harness', 'generated case is outside the theorem\'s hypothesis: wellFormed = false for a fitted tree '
                              '(in the nextafter mode it holds for every float64 table)')
    if not r.get('fitted') and not r.get('fast'):
        return bad('harness', 'generated case is outside the theorem\'s hypothesis: fitted = false (a node no row reaches)')
    if r['recs_ok'] is not True:
        return bad('property', f'implementation\'s generator records are not the root-to-leaf paths: recs={io["recs"]} '
                               f'paths={r["paths"]}')
    if r.get('fast'):
        # >= FAST_NODES nodes: no model run; the tree's own descent in Lean must still be what sklearn / the walk says
        if [Q(p) for p in r['tree_pred']] != [F(v) for v in tp]:
            return bad('correspondence', f'sklearn predict {tp} != standard descent on the arrays')
        return dict(ok=True)
    # ---- model self-consistency (what the theorems say) ----------------------------------------------------------------
    if 'err' in r['conv']:
        return bad('harness', f'model conversion raises {r["conv"]["err"]} although wellFormed and fitted hold '
                              f'(contradicts dl_converted_predicts)')
    if 'ok' not in r['pred'] or 'ok' not in r['recs']:
        return bad('correspondence', f'model prediction raises {r["pred"]}')
    if r['hyps'] != {'keys': True, 'path': True}:
        return bad('harness', f'tracePathOK/traceKeysOK is false on the model\'s own trace although dl_predict_eq_tree proves both: {r["hyps"]}')
    mp = [Q(p) for p in r['pred']['ok']]
    mt = [Q(p) for p in r['tree_pred']]
    if mp != mt:
        return bad('harness', f'model prediction {mp} != model tree descent {mt} although dl_predict_eq_tree says equal')
    if not r['order_indep']:
        return bad('harness', 'model prediction depends on the record order')
    for s, cst in zip(r['scaled'], consts_of(c)):
        if not s['pure'] or 'ok' not in s['mul'] or 'ok' not in s['div']:
            return bad('harness', f'model scaling failed for {cst}: {s}')
        if [Q(p) for p in s['mul']['ok']] != [F(cst) * v for v in mp] or [Q(p) for p in s['div']['ok']] != [v / F(cst) for v in mp]:
            return bad('harness', f'model scaling not linear for {cst}')
    # ---- correspondence: implementation vs model -------------------------------------------------------------------------
    if mt != [F(v) for v in tp]:
        return bad('correspondence', f'sklearn predict {tp} != standard descent on the arrays {[float(v) for v in mt]}')
    lat = io['lattice']
    cv = r['conv']
    if (lat['n_concepts'], lat['top'], lat['extents']) != (cv['n_concepts'], cv['top'], cv['extents']):
        return bad('correspondence', f'lattice differs: impl {lat} model {cv["n_concepts"], cv["top"], cv["extents"]}')
    md = cv['decisions']
    if len(md) != len(io['decisions']) or any(
            (a['sup'], a['c']) != (b['sup'], b['c']) or not _gen_close(a['gen'], b['gen']) or float(Q(a['dy'])) != b['dy']
            for a, b in zip(md, io['decisions'])):
        # (a delta is ONE correctly rounded float64 subtraction: the model's exact rational, rounded, is that very float)
        return bad('correspondence', f'decisions differ: impl {io["decisions"]} model {md}')
    mr = r['recs']['ok']
    if len(mr) != len(io['recs']) or any(
            (a['sup'], a['c'], a['ext']) != (b['sup'], b['c'], b['ext']) or not _gen_close(a['gen'], b['gen'])
            for a, b in zip(mr, io['recs'])):
        return bad('correspondence', f'generator records differ: impl {io["recs"]} model {mr}')
    for s, ms in zip(io['scaled'], r['scaled']):
        fac = {'mul': s['c'], 'div': 1.0 / s['c'], 'mul_imul': s['c'] * K1, 'mul_imul_idiv': s['c'] * K1 / K2,
               'div_idiv': 1.0 / s['c'] / K2, 'div_idiv_imul': 1.0 / s['c'] / K2 * K1}
        for k_ in ('mul', 'div', 'mul_imul', 'mul_imul_idiv', 'div_idiv', 'div_idiv_imul'):
            if 'ok' not in ms[k_] or not closev(s[k_], [float(Q(p)) for p in ms[k_]['ok']], abs(fac[k_]) * u):
                return bad('correspondence', f'scaled predictions ({k_}) differ for c={s["c"]}: impl {s[k_]} model {ms[k_]}')
    # ---- the lattice asked about another context (outside the letter of the property: reported as correspondence) --------
    if 'pred2' in io:
        o = r.get('other')
        tp2 = io['tree_pred2']
        if not o or not o['wf']:
            return bad('harness', 'the other context is outside wellFormed (it holds for every float64 table)')
        if 'ok' not in o['pred'] or [Q(p) for p in o['pred']['ok']] != [Q(p) for p in o['tree_pred']] or not o['trace_ok']:
            return bad('harness', f'model prediction on another context {o["pred"]} != descent {o["tree_pred"]} although '
                                  f'dl_predict_other_context says equal')
        if [Q(p) for p in o['tree_pred']] != [F(v) for v in tp2]:
            return bad('harness', 'descent on the arrays differs between Python and Lean on the other context')
        if isinstance(io['pred2'], str):
            return bad('correspondence', f'DL.predict(another context {io["X2"]}) raised {io["pred2"]}; the model predicts {tp2}')
        if not closev(io['pred2'], tp2, u):
            return bad('correspondence', f'DL.predict(another context {io["X2"]}) = {io["pred2"]} but the tree predicts {tp2}')
        for i, v in io.get('sk_rows2', []):
            if not close(v, tp2[i], u):
                return bad('correspondence', f'sklearn predict {v} != standard descent {tp2[i]} for the float32-exact held-out '
                                             f'row {io["X2"][i]}')
        if not closev(io['pred2_mul'], [float(CONSTS[0]) * v for v in tp2], abs(float(CONSTS[0])) * u):
            return bad('correspondence', f'(DL*{CONSTS[0]}).predict(another context) = {io["pred2_mul"]}, expected '
                                         f'{CONSTS[0]} * {io["pred2"]}')
        mr2 = o['recs']['ok']
        if len(mr2) != len(io['recs2']) or any(
                (a['sup'], a['c'], a['ext']) != (b['sup'], b['c'], b['ext']) or not _gen_close(a['gen'], b['gen'])
                for a, b in zip(mr2, io['recs2'])):
            return bad('correspondence', f'generator records on another context differ: impl {io["recs2"]} model {mr2}')
    return dict(ok=True)


def _judge_malformed(c, io, r):
    """Only implementation/model agreement (exception class, or predictions) is checked here."""
    if 'err' in io:
        if 'err' in r['conv']:
            want = r['conv']['err']
        elif 'err' in r.get('pred', {}):
            want = r['pred']['err']
        elif 'err' in r.get('recs', {}):
            want = r['recs']['err']
        else:
            return bad('correspondence', f'malformed[{c["mut"]}]: implementation raises {io["err"]} ({io.get("msg")}), model succeeds')
        if want != io['err']:
            return bad('correspondence', f'malformed[{c["mut"]}]: implementation raises {io["err"]}, model {want}')
        return dict(ok=True)
    if 'err' in r['conv'] or 'ok' not in r['pred']:
        return bad('correspondence', f'malformed[{c["mut"]}]: implementation succeeds with {io["pred"]}, model raises '
                                     f'{r["conv"] if "err" in r["conv"] else r["pred"]}')
    if not closev(io['pred'], [float(Q(p)) for p in r['pred']['ok']], _unit(io)):
        return bad('correspondence', f'malformed[{c["mut"]}]: predictions differ: impl {io["pred"]} model {r["pred"]["ok"]}')
    return dict(ok=True)


# ------------------------------------------------------------------------------------------------ bookkeeping

def nontrivial(c):
    # at least two distinct targets on two distinct rows => the unbounded tree splits; cheap static proxy
    if c['kind'] == 'arrays':
        return len(c['arrays']['left']) >= 3 and len({tuple(r) for r in c['X']}) > 1
    return not c.get('mut') and len(set(c['y'])) > 1 and len({tuple(r) for r in c['X']}) > 1


def key(c):
    return [c['X'], c['y'], c['kind'], c['depth'], c['seed'] if (c['kind'] == 'forest' or len(c['X'][0]) > 1) else 0,
            c['est'], c.get('mut'), c.get('params'), c.get('renum'), c.get('train'), c.get('probe'), c.get('arrays'),
            c.get('vmap')]


def branch(c, io, rep):
    out = [c['stream']]
    if io.get('skip'):
        return out + ['skip']
    n = len(io.get('arrays', {}).get('left', []))
    out.append('nodes:%s' % (n if n < 8 else '8+'))
    out.append('err:' + io['err'] if 'err' in io else 'ok')
    if 'lattice' in io:
        out.append('bottom-added' if io['lattice']['n_concepts'] > n else 'no-bottom-added')
    a_ = io.get('arrays') or {}
    if a_ and any(l != -1 and l != i + 1 for i, l in enumerate(a_['left'])):
        out.append('non-preorder-numbering')
    out.append('right-child-from:' + ('nextafter' if io.get('eps') is None else 'thr+eps'))
    if c.get('probe') or c.get('train') is not None or c['kind'] == 'arrays':
        out.append('oracle:descent-on-arrays')
    if a_ and 'X' in io:
        ths = {(a_['feature'][i], float(a_['threshold'][i])) for i, l in enumerate(a_['left']) if l != -1}
        if any(0 <= f < len(x) and float(x[f]) == t for x in io['X'] for f, t in ths):
            out.append('object-on-threshold')
        if any(0 <= f < len(x) and float(x[f]) == succ(t) for x in io['X'] for f, t in ths):
            out.append('object-one-ulp-above-threshold')
        if any(abs(t) >= 2.0 ** 23 for _, t in ths):
            out.append('threshold>=2^23')
        if any(abs(t) < 1e-9 for _, t in ths):
            out.append('threshold<1e-9')
        ex = [math.frexp(t)[1] for _, t in ths if t != 0.0]
        if ex and max(ex) - min(ex) >= 40:
            out.append('one-tree-thresholds-span>=2^40')
        if c.get('probe') == 'ladder' or c['stream'] == 'mixed-scale' and c['kind'] == 'arrays':
            out.append('ladder-probes')
        if len(io['X']) >= 65 or len(io['X'][0]) >= 65 or n >= 65:
            out.append('size>=65:' + '/'.join(w for w, k in (('objects', len(io['X'])), ('features', len(io['X'][0])),
                                                            ('nodes', n)) if k >= 65))
        if n >= 1000:
            out.append('nodes>=1000')
        par = {}
        for i, l in enumerate(a_['left']):
            if l != -1:
                par[l] = par[a_['right'][i]] = i
        if any(a_['left'][k] != -1 and a_['value'][k] == a_['value'][p_] for k, p_ in par.items() if 0 <= k < n):
            out.append('internal-node-with-zero-delta')
    if io.get('decisions') and any('num' in (d or {}) if isinstance(d, dict) else False
                                   for r in io['decisions'] for _, d in r['gen']):
        out.append('premise-collapsed')
    return out


def signature(c, io, rep, v):
    d = v.get('detail', '')
    if c.get('mut'):
        return f'C20:malformed:{c["mut"]}'
    # the class of D23: only code whose default eps is a NUMBER can fall into it (`_abs_eps_cause` is False otherwise),
    # so against the repaired code no failure is ever given this signature
    if io.get('eps') is not None and v.get('kind') == 'property' and (('raised' in d and 'err' in io) or 'tree.predict' in d) \
            and _abs_eps_cause(c, io):
        return 'C20:absolute-eps'
    if 'raised' in d and 'err' in io:
        return 'C20:exc:' + io['err']
    for tag, word in (('pred', 'tree.predict'), ('scale', 'scaling history'), ('pure', 'original changed'), ('pure', 'changed after'), ('pure', 'shares state'), ('alias', 'aliasing history'),
                      ('recs', 'generator records'), ('lattice', 'lattice differs'), ('decisions', 'decisions differ'),
                      ('descent', 'standard descent')):
        if word in d:
            return f'C20:{v.get("kind")}:{tag}'
    return f'C20:{v.get("kind")}:other'


def shrink(c):
    X, y = c['X'], c['y']
    n, m = len(X), len(X[0])
    if n > 1:
        for i in range(n):
            d = dict(c)
            d['X'] = X[:i] + X[i + 1:]
            d['y'] = y[:i] + y[i + 1:]
            if c.get('train') is not None:
                d['train'] = [j if j < i else j - 1 for j in c['train'] if j != i]
                if not d['train']:
                    continue
            yield d
    if c.get('probe'):
        d = dict(c)
        d.pop('probe')
        yield d
    if c.get('train') is not None:
        d = dict(c)
        d.pop('train')
        yield d
    if m > 1:
        for j in range(m):
            d = dict(c)
            d['X'] = [r[:j] + r[j + 1:] for r in X]
            yield d
    if c['depth'] is None:
        for dd in (1, 2):
            d = dict(c)
            d['depth'] = dd
            yield d
    for i in range(n):
        if y[i] != 0:
            d = dict(c)
            d['y'] = y[:i] + [0.0] + y[i + 1:]
            yield d
        for j in range(m):
            if X[i][j] != 0:
                d = dict(c)
                d['X'] = [list(r) for r in X]
                d['X'][i][j] = 0.0
                yield d

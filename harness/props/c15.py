"""C15 — approximate miners (Sofia, RandomForest, decision-tree extents) return only genuine concepts
and honour their limits.

RELATIONAL property: which concepts survive Sofia's pruning depends on set-iteration (tie) orders, so the
IMPLEMENTATION's own output is judged by the Lean checker `Fca.Spec.C15.failsC15` (driver op `C15.sofia`).
The Lean model is run too (identity tie order); model = implementation is required where the result is
provably tie-independent as a set (the Δ-bound, and whenever the limit never binds), and is only recorded in
the histogram otherwise (`1 - Σ 2^-Δ` bound with a binding limit: caspailleur's `sort_intents_inclusion` is
tie-dependent on families that are not closed under intersection).
"""
import glob
import itertools
import json
import os
import random
from fractions import Fraction

import gen as G
from implutil import BACKENDS, SHORT, make_context, exc_name

VERIF = os.path.dirname(os.path.dirname(os.path.dirname(os.path.abspath(__file__))))
REQUESTS_NEED_IMPL = True
CHUNK = 400

RULE = ('case kinds: sofia (formal table, backend, L_max, min_supp=p/q, stability-bound variant; optional names, optional '
        'history), sofia-mv (interval many-valued table -> independent binarisation), rf (interval MV table + target + forest '
        'parameters), tree (numeric X, y, fitted DecisionTree/RandomForest).  Order: corpus -> exhaustive tables n,m<=3 x 3 '
        'backends x L_max in 1..|Concepts|+2 x thresholds {0,1,2,0.3,0.5} x both bounds -> seeded random tables up to 7x7 -> MV '
        'interval tables (point-valued and proper) -> forests on point-valued tables -> fitted trees/forests -> degenerate '
        '(first/last attribute shared by all / none / one object / copy of another, duplicate rows, constant columns, '
        'duplicated names; L_max over 1..#concepts+1; min_supp as count incl. n, n+1 and as fraction; both bounds) -> big-shape '
        '(13..70 objects; 13..70 attributes judged through the transposed table) -> h1-remine / h1-remine-mv (one context '
        'object mined, changed through public setters - table data, object/attribute names, ps.data, pattern_structures - and '
        'mined again; judged against the CURRENT content, names and hash) -> mv-values / rf-values (point-valued columns with '
        'repeated values, values not representable in float32, values collapsing in float32, constant columns, duplicate '
        'rows) -> trees-growth (max_leaf_nodes best-first numbering, min_samples_leaf, min_samples_split, bootstrap on/off, '
        'n_jobs of the forest and of the parser, duplicate rows, constant columns; forests repeat node row sets) -> (H8) '
        'h8-sofia (64/65/128/129 objects with an object index >= 64 that distinguishes concepts; 64/65/128/129 attributes with '
        'a column pattern found only at the last index and at index 64, judged through the transposed table; tables with '
        'exactly 64/65/128/129 concepts x L_max in {half, #c-1, #c, #c+1}), h8-sofia-mv / h8-rf (64..129 objects, the last one '
        'with a value of its own), h8-trees (64..129 rows with pairwise different values, 63..257 nodes per tree, '
        'max_leaf_nodes 32/33/64/65; 64..129 features of which only the last and feature 64 are informative) -> (H4) '
        'h4-remine (first use, then an edit that keeps FormalContext.hash_fixed: adler32-colliding table of the same shape, '
        'colliding names bdb->cbc, both, or a second distinct object with the colliding hash (H4b); asserted to differ and to '
        'collide), h4-remine-mv (cells -1 <-> -2 keeping hash(pattern structure), 120 <-> 201 keeping adler32 of the hashed '
        'text, colliding object names; through ps.data, the pattern_structures setter, or a twin object) -> (H7) h7-trees / '
        'h7-rf (forests of identical trees: #distinct node row sets = node count of one tree; repeated and permuted rows; '
        'n_jobs in {2, 3, -1, 8, #distinct columns, #distinct columns + 1}) -> stream rf-proper last (proper interval cells, '
        'known finding D19).  Every rf / tree case also sends the fitted arrays (children_left/right, feature, threshold), the '
        'float32 table and sklearn\'s decision_path matrix to the Lean tree model.  non-trivial = mixed table / more than one '
        'distinct value; distinct = distinct full case')
EXHAUSTIVE = {
    'quick': 'sofia: all 682 tables n,m<=3 x 3 backends x L_max in 1..|Concepts|+2 x min_supp in {0,1,2,0.3,0.5} x both '
             'stability bounds (ConceptLattice.from_context(algo=Sofia) built for every case of the default backend and for the '
             'extreme L_max on the other two)',
    'thorough': 'quick scope plus all tables with n*m<=12, n,m<=4 on the default backend (L_max in {1,2,3,|C|,|C|+2})'}
EXPLANATION = ('the implementation output is fed to the Lean checker failsC15 (genuine, distinct, top, least, support, '
               'count<=L_max+2, all concepts meeting the threshold when #such+1<=L_max); theorems Fca.C15.* prove these for '
               'the code-shaped model for every tie order, every L_max, every min_supp and every measure function; '
               'tree extents are compared with the distinct columns of the densified decision_path (Lean treeExtents); '
               'the fitted trees are inside the model (Fca.RF: per-row descent on the sklearn arrays over the float32 data): its '
               'path matrix must EQUAL sklearn\'s decision_path on every fitted tree / forest, its concepts (extents and exact '
               'intents) must equal those returned by random_forest_concepts, the decidable hypotheses of '
               'Fca.C15.rf_concepts_genuine (rect, pointValued, castTableOK, forestOK) are evaluated per case, and returned '
               'extents are judged by the interval pattern-structure closure on exact rationals as well as by the binarised table')
ASSUMPTIONS = ['min_supp is a non-negative int count or a fraction p/q in [0,1) whose float product with n_objects separates '
               'the integer counts like the exact rational (checked per case)',
               'many-valued contexts: interval columns (IntervalPS / IntervalNumpyPS); genuineness is judged on the '
               'independently computed binarisation (C14 proves same closed sets) and cross-checked with the MVContext\'s '
               'own extension_i/intention_i',
               'RandomForest part: point-valued interval columns (proper interval cells are finding D19; a FormalContext fed '
               'to random_forest_concepts is outside the property - Fca.C15.formal_path_not_genuine - and not generated)',
               'finite float64 cells within the float32 range (sklearn casts the data to float32; the cast enters the model as '
               'a table value -> float32(value), checked monotone by the driver)',
               'stability values are compared exactly only through the set of surviving concepts']
TRUSTED = ['sklearn fitting (the fitted arrays are data to the model; decision_path itself is modelled and compared per case)',
           'scipy.sparse and the numeric trick of utils.sparse_unique_columns (modelled as: distinct columns)',
           'caspailleur.order.sort_intents_inclusion/inverse_order (modelled by the cover relation; theorems hold for '
           'every measure function, so they do not depend on it)',
           'column slicing `data[:, i]` of the three backends and pattern-structure to_bin_attr_extents (compared with an '
           'independent binarisation per case)']

THRESHOLDS = [(0, 1), (1, 1), (2, 1), (3, 10), (1, 2)]
PS_NAMES = ('IntervalPS', 'IntervalNumpyPS')


# ------------------------------------------------------------------------------------------------ helpers
def closed_extents(rows):
    """All concept extents of a 0/1 table (brute force, Python side only for sizing L_max ranges)."""
    n, m = len(rows), len(rows[0])
    cols = [frozenset(g for g in range(n) if rows[g][j]) for j in range(m)]
    exts = {frozenset(range(n))}
    for c in cols:
        exts |= {e & c for e in exts}
    return exts


def ms_value(ms):
    p, q = ms
    return p if q == 1 else p / q


def float_threshold_ok(ms, n):
    """The float threshold used by the code separates the integer counts exactly like the rational one."""
    p, q = ms
    v = ms_value(ms)
    thr_f = v * n if v < 1 else v
    thr_q = Fraction(p, q) * n if p < q else Fraction(p, q)
    return all((c < thr_f) == (c < thr_q) for c in range(n + 2))


def binarise(data):
    """Independent binarisation of an interval table: rows of cells [l, r] -> 0/1 rows.
    Per column: all-true, `l >= L` for the 2nd.. distinct left ends ascending, `r <= R` for the 2nd.. distinct
    right ends descending, all-false (the empty description)."""
    n, k = len(data), len(data[0])
    cols = []
    for c in range(k):
        ls = sorted({data[g][c][0] for g in range(n)})
        rs = sorted({data[g][c][1] for g in range(n)}, reverse=True)
        cols.append([1] * n)
        for L in ls[1:]:
            cols.append([int(L <= data[g][c][0]) for g in range(n)])
        for R in rs[1:]:
            cols.append([int(data[g][c][1] <= R) for g in range(n)])
        cols.append([0] * n)
    return [[col[g] for col in cols] for g in range(n)]


def make_mv(data, ps, target=None, objs=None):
    from fcapy.mvcontext import MVContext, PS
    k = len(data[0])
    types = {str(c): getattr(PS, ps[c % len(ps)] if isinstance(ps, (list, tuple)) else ps) for c in range(k)}
    cells = [[tuple(cell) for cell in row] for row in data]
    return MVContext(cells, pattern_types=types, target=None if target is None else list(target),
                     object_names=None if objs is None else list(objs))


H4 = {}      # flags of the last history with a hash-preserving edit (set by the builders, read by impl)


def _h4_note(**kw):
    H4.clear()
    H4.update(kw)


def _ps_hashes(K):
    out = []
    for ps_ in K.pattern_structures:
        try:
            out.append(hash(ps_))
        except TypeError:          # IntervalNumpyPS is unhashable
            out.append(None)
    return out


def canon_ext(ext):
    return sorted(int(g) for g in ext)


def canon_pattern(intent_i):
    out = []
    for k in sorted(intent_i):
        v = intent_i[k]
        out.append([int(k), None if v is None else [float(v[0]), float(v[1])]])
    return out


def is_proper(data):
    return any(cell[0] != cell[1] for row in data for cell in row)


def fit_model(c):
    import numpy as np
    from sklearn.tree import DecisionTreeClassifier, DecisionTreeRegressor
    from sklearn.ensemble import RandomForestClassifier, RandomForestRegressor
    cls = {'tree-clf': DecisionTreeClassifier, 'tree-reg': DecisionTreeRegressor,
           'rf-clf': RandomForestClassifier, 'rf-reg': RandomForestRegressor}[c['model']]
    mdl = cls(**c['params'])
    X = np.array(c['X'], dtype=float)
    mdl.fit(X, c['y'])
    return mdl, X


def rat(x):
    """exact value of a Python / numpy float as [num, den]"""
    n_, d_ = float(x).as_integer_ratio()
    return [n_, d_]


def estimators_of(mdl):
    return list(mdl.estimators_) if hasattr(mdl, 'estimators_') else [mdl]


def tree_arrays(mdl):
    """the fitted trees as DATA for the Lean model: sklearn's arrays, thresholds as exact rationals"""
    out = []
    for est in estimators_of(mdl):
        t = est.tree_
        out.append(dict(left=[int(v) for v in t.children_left], right=[int(v) for v in t.children_right],
                        feature=[int(v) for v in t.feature], threshold=[rat(v) for v in t.threshold]))
    return out


def f32(v):
    import numpy as np
    return float(np.float32(v))


def cast_table(values):
    """value -> float32(value), keys strictly increasing (what sklearn's descent compares with the thresholds)"""
    return [[rat(v), rat(f32(v))] for v in sorted({float(v) for v in values})]


def dense_paths(mdl, X):
    dp = mdl.decision_path(X)
    if isinstance(dp, tuple):
        dp = dp[0]
    return [[int(v != 0) for v in row] for row in dp.toarray()]


# ------------------------------------------------------------------------------------------------ generation
def _sofia_cases(rows, stream, bes, lmaxes, thresholds=THRESHOLDS, bounds=(True, False)):
    lmaxes = list(lmaxes)
    for be in bes:
        for lmax in lmaxes:
            # ConceptLattice.from_context(algo='Sofia') is built for every case of the default backend and, on the
            # other backends, for the smallest and the largest L_max (it dominates the cost of a case)
            lat = be == 'BinTableBitarray' or lmax in (lmaxes[0], lmaxes[-1])
            for ms in thresholds:
                for log in bounds:
                    yield dict(stream=stream, kind='sofia', be=be, rows=rows, lmax=lmax, ms=list(ms), log=log, lat=lat)


def _rand_interval_table(rng, proper, nmax=5, kmax=2):
    n, k = rng.randint(2, nmax), rng.randint(1, kmax)
    grid = 4 if k == 1 else 3
    data = []
    for _ in range(n):
        row = []
        for _c in range(k):
            a = rng.randrange(grid)
            b = rng.randrange(a, grid) if (proper and rng.random() < 0.6) else a
            row.append([a, b])
        data.append(row)
    if proper and not is_proper(data):
        data[0][0] = [0, grid - 1]
    return data


VALUE_POOLS = {
    'small': [0, 1, 2, 3],
    'two': [5, 7],                                             # few values, many repetitions
    'nonf32': [0.1, 0.2, 0.30000000000000004, 0.7],            # not representable in float32
    'price': [19.98, 19.99, 20.0, 20.01],
    'big': [2 ** 24, 2 ** 24 + 1, 2 ** 24 + 2, 2 ** 24 + 3],   # collapse in float32 (sklearn casts X to float32)
    'neg': [-2.5, -1, 0, 1e-09, 3],
    'const': [4.2],                                            # constant column
}


def _rand_point_table(rng, nmax=7, kmax=2):
    """Point-valued interval table whose columns draw (with repetition) from a value pool each; sometimes a row
    is duplicated.  Returns (data, pool names)."""
    n, k = rng.randint(2, nmax), rng.randint(1, kmax)
    pools = [rng.choice(sorted(VALUE_POOLS)) for _ in range(k)]
    data = [[[v, v] for v in (rng.choice(VALUE_POOLS[pn]) for pn in pools)] for _ in range(n)]
    if n > 2 and rng.random() < 0.4:
        data[rng.randrange(n)] = [list(cell) for cell in data[rng.randrange(n)]]
    return data, pools


def _degenerate_table(rng, nmin=4, nmax=8, mmin=3, mmax=6):
    """A table whose FIRST and/or LAST column is degenerate (shared by all objects / by none / by a single object /
    a copy of another column), possibly with a constant column in the middle and duplicated rows."""
    n, m = rng.randint(nmin, nmax), rng.randint(mmin, mmax)
    d = rng.choice((0.35, 0.5, 0.7))
    t = [[int(rng.random() < d) for _ in range(m)] for _ in range(n)]
    where = rng.choice(('last', 'last', 'first', 'both', 'middle'))
    pos = {'last': [m - 1], 'first': [0], 'both': [0, m - 1], 'middle': [rng.randrange(1, m - 1)] if m > 2 else [0]}[where]
    shape = []
    for j in pos:
        kind = rng.choice(('all', 'all', 'none', 'none', 'single', 'copy'))
        shape.append(f'{where}:{kind}')
        src = rng.randrange(m)
        g1 = rng.randrange(n)
        for g in range(n):
            t[g][j] = {'all': 1, 'none': 0, 'single': int(g == g1), 'copy': t[g][src]}[kind]
    if rng.random() < 0.35:                       # duplicate rows
        a, b = rng.randrange(n), rng.randrange(n)
        t[a] = list(t[b])
        shape.append('duprow')
    if m > 3 and rng.random() < 0.25:             # a constant column somewhere inside
        j = rng.randrange(1, m - 1)
        v = rng.randrange(2)
        for g in range(n):
            t[g][j] = v
        shape.append('constcol')
    return t, shape


def _lmax_range(nc, rng, full_upto=9):
    """L_max in 1..#concepts+1 (complete when small, else the ends and a sample of the middle)."""
    if nc <= full_upto:
        return list(range(1, nc + 2))
    mid = rng.sample(range(4, nc - 1), min(4, max(0, nc - 5)))
    return sorted({1, 2, 3, nc - 1, nc, nc + 1, *mid})


MS_COUNTS = [(0, 1), (1, 1), (2, 1), (3, 1)]
MS_FRACTIONS = [(1, 4), (1, 2), (3, 4), (1, 10), (3, 10), (6, 10), (99, 100), (1, 3)]


def _ms_choices(rng, n, k=3):
    """min_supp as counts (incl. n and n+1) and as fractions; only thresholds the float arithmetic represents faithfully."""
    pool = MS_COUNTS + [(n, 1), (n + 1, 1)] + MS_FRACTIONS
    pool = [ms for ms in pool if float_threshold_ok(ms, n)]
    cnt = [ms for ms in pool if ms[1] == 1]
    fr = [ms for ms in pool if ms[1] != 1]
    out = [rng.choice(cnt), rng.choice(fr)] + [rng.choice(pool) for _ in range(max(0, k - 2))]
    res = []
    for ms in out:
        if ms not in res:
            res.append(ms)
    return res


def _growth_params(rng, forest):
    """Non-default growth parameters of sklearn trees / forests."""
    p = dict(random_state=rng.randrange(10 ** 6))
    mode = rng.choice(('leafnodes', 'leafnodes', 'minleaf', 'mix', 'depth', 'split', 'default'))
    if mode in ('leafnodes', 'mix'):
        p['max_leaf_nodes'] = rng.randint(2, 7)          # best-first growth: node numbering differs from depth-first
    if mode in ('minleaf', 'mix'):
        p['min_samples_leaf'] = rng.randint(2, 3)
    if mode in ('depth', 'mix'):
        p['max_depth'] = rng.randint(1, 4)
    if mode == 'split':
        p['min_samples_split'] = rng.randint(3, 5)
        p['max_features'] = 1
    if forest:
        p['n_estimators'] = rng.randint(1, 4)
        p['bootstrap'] = rng.random() < 0.5               # bootstrap off + all features: identical trees, every node set repeated
        if rng.random() < 0.3:
            p['n_jobs'] = 2
    return p


NAMES_A = ['o%d' % i for i in range(80)]
NAMES_B = ['m%d' % i for i in range(80)]


def _rand_target(rng, n):
    if rng.random() < 0.6:
        y = [rng.randrange(2) for _ in range(n)]
        if len(set(y)) < 2:
            y[0] = 1 - y[0]
        return y
    return [rng.randrange(4) for _ in range(n)]


# ---- (H8) size-gated code paths: 64/65 and 128/129 on every index-like dimension, concept counts around L_max
H8_SIZES = (64, 65, 128, 129)


def _h8_tall(rng, n):
    """n objects, few attributes; attribute 0 = everything but the LAST object, attribute 1 = exactly the objects of the
    second machine word (index >= 64), the last two objects differ: an index >= 64 distinguishes concepts."""
    m = rng.randint(3, 5)
    rows = [[int(rng.random() < 0.6) for _ in range(m)] for _ in range(n)]
    hi = 64 if n > 64 else n // 2
    for g in range(n):
        rows[g][0] = int(g != n - 1)
        rows[g][1] = int(g >= hi)
    rows[n - 1][m - 1], rows[n - 2][m - 1] = 1, 0
    return rows


def _h8_wide(rng, m):
    """few objects, m attributes drawn from 4 column patterns, except that the LAST attribute (and attribute 64 when
    there is one) carries a pattern that occurs nowhere else: a concept exists only through an attribute index >= 64."""
    n = rng.randint(4, 5)
    pats = [p for p in itertools.product((0, 1), repeat=n) if 0 < sum(p) < n]
    rng.shuffle(pats)
    cols = [list(rng.choice(pats[:4])) for _ in range(m)]
    cols[m - 1] = list(pats[4])
    if m > 64:
        cols[64] = list(pats[5])
    return [[cols[j][g] for j in range(m)] for g in range(n)]


def _h8_count_table(nc):
    """a small table with exactly nc in {64, 65, 128, 129} concepts (contranominal scale, plus a full row and an empty
    column for the odd counts)"""
    k = 6 if nc in (64, 65) else 7
    rows = [[int(i != j) for j in range(k)] for i in range(k)]
    if nc in (65, 129):
        rows = [r + [0] for r in rows] + [[1] * k + [0]]
    assert len(closed_extents(rows)) == nc
    return rows


def _h8_point_table(rng, n, k):
    """n objects; column 0: n pairwise different values (the last object holds the largest), other columns: 3 values"""
    vals = list(range(n - 1))
    rng.shuffle(vals)
    vals.append(n + 5)
    return [[[vals[g], vals[g]]] + [[v, v] for v in (rng.randrange(3) for _ in range(k - 1))] for g in range(n)]


# ---- (H4) hash-preserving edits
H4_NAMES_A = ['bdb%d' % i for i in range(8)]       # adler_collide_name: 'bdb0' -> 'cbc0'
H4_NAMES_B = ['mpm%d' % i for i in range(8)]
H4_DIGITS = [120, 131, 142, 7]                      # str(120.0) / str(201.0) keep zlib.adler32 of the hashed text


def _digits_twin(v):
    t = G.adler_collide_name(str(int(v))) if v >= 100 else None
    return int(t) if t and t.isdigit() else v


def _pyhash_twin_data(data):
    """every cell -1 <-> -2 (hash(-1.0) == hash(-2.0)): another table whose pattern structures have the same hash()"""
    def tw(v):
        w = G.pyhash_collide_value(v)
        return v if w is None else w
    return [[[tw(a), tw(b)] for a, b in row] for row in data]


def _corpus():
    for f in sorted(glob.glob(os.path.join(VERIF, 'corpus', 'C15', '*.json'))):
        try:
            c = json.load(open(f))
        except Exception:
            continue
        c = c.get('case', c)
        c.setdefault('stream', 'corpus')
        yield c


def gen(tier, seed, boost=False):
    rng = random.Random(seed * 1000003 + 1501)
    thorough = tier == 'thorough' or boost
    yield from _corpus()
    # exhaustive small scope
    for rows in G.tables_upto(3, 3):
        nc = len(closed_extents(rows))
        yield from _sofia_cases(rows, 'exhaustive', BACKENDS, range(1, nc + 3))
    if thorough:
        for rows in G.tables_upto(4, 4, cells=12):
            if len(rows) <= 3 and len(rows[0]) <= 3:
                continue
            nc = len(closed_extents(rows))
            yield from _sofia_cases(rows, 'exhaustive-large', ('BinTableBitarray',),
                                    sorted({1, 2, 3, nc, nc + 2}), thresholds=[(0, 1), (2, 1), (3, 10)])
    # seeded random tables up to 7x7
    nrand = 250 if tier == 'quick' else 4000
    if boost:
        nrand *= 3
    for _ in range(nrand):
        rows = G.random_table(rng, 7, 7)
        nc = len(closed_extents(rows))
        lm = sorted({1, 2, rng.randint(1, max(1, nc)), max(1, nc - 1), nc + 1})
        for lmax in lm:
            ms = rng.choice(THRESHOLDS + [(3, 1), (7, 10), (1, 4)])
            if not float_threshold_ok(ms, len(rows)):
                continue
            for log in (True, False):
                yield dict(stream='random', kind='sofia', be=rng.choice(BACKENDS), rows=rows, lmax=lmax,
                           ms=list(ms), log=log)
    # many-valued interval tables through Sofia (point-valued and proper intervals: both must pass)
    nmv = 120 if tier == 'quick' else 1500
    for i in range(nmv):
        data = _rand_interval_table(rng, proper=(i % 2 == 1))
        ps = [rng.choice(PS_NAMES) for _ in data[0]]
        for lmax in (1, 2, rng.randint(3, 8)):
            ms = rng.choice(THRESHOLDS)
            for log in (True, False):
                yield dict(stream='sofia-mv-proper' if is_proper(data) else 'sofia-mv-points', kind='sofia-mv',
                           data=data, ps=ps, lmax=lmax, ms=list(ms), log=log)
    # random forests on point-valued interval tables (must pass)
    nrf = 100 if tier == 'quick' else 700
    for i in range(nrf):
        data = _rand_interval_table(rng, proper=False, nmax=6)
        yield dict(stream='rf-points', kind='rf', data=data, ps=[rng.choice(PS_NAMES) for _ in data[0]],
                   y=_rand_target(rng, len(data)),
                   params=dict(n_estimators=rng.randint(1, 3), random_state=rng.randrange(10 ** 6),
                               max_depth=rng.choice([None, 1, 2, 3])))
    # fitted trees and forests: parse_decision_tree_to_extents
    ntree = 110 if tier == 'quick' else 640
    for i in range(ntree):
        n, d = rng.randint(2, 12), rng.randint(1, 4)
        X = [[rng.randrange(5) for _ in range(d)] for _ in range(n)]
        model = ('tree-clf', 'tree-reg', 'rf-clf', 'rf-reg')[i % 4]
        y = [rng.randrange(3) for _ in range(n)] if model.endswith('clf') else [rng.randrange(8) for _ in range(n)]
        params = dict(max_depth=rng.choice([None, 1, 2, 3, 4]), random_state=rng.randrange(10 ** 6))
        if model.startswith('rf'):
            params['n_estimators'] = rng.randint(1, 3)
        # n_jobs: the extents must not depend on the number of parallel jobs (every 4th forest / 8th tree with 2 jobs)
        yield dict(stream='trees', kind='tree', model=model, X=X, y=y, params=params,
                   n_jobs=2 if (i % 8 in (2, 3, 7)) else 1)
    # ---- (H3) degenerate first/last attribute, duplicate rows, constant columns; L_max over 1..#concepts+1;
    #      min_supp as count and as fraction; both bounds; duplicated names
    ndeg = 36 if tier == 'quick' else 300
    for i in range(ndeg):
        rows, shape = _degenerate_table(rng)
        n, m = len(rows), len(rows[0])
        nc = len(closed_extents(rows))
        names = {}
        if i % 5 == 0:                     # duplicated object / attribute names are accepted by the constructor
            names = dict(objs=[NAMES_A[g // 2] for g in range(n)], attrs=[NAMES_B[j // 2] for j in range(m)])
        be = rng.choice(BACKENDS)
        for lmax in _lmax_range(nc, rng):
            for ms in _ms_choices(rng, n, 3):
                for log in (True, False):
                    yield dict(stream='degenerate', kind='sofia', be=be, rows=rows, lmax=lmax, ms=list(ms), log=log,
                               lat=(lmax % 3 == i % 3), shape=shape, **names)
    # ---- (H3) shape extremes: >= 13 and > 64 objects (masks longer than one machine word), > 64 attributes
    nbig = 10 if tier == 'quick' else 60
    for i in range(nbig):
        if i % 2 == 0:      # tall: few attributes, many objects
            n, m = rng.choice((13, 16, 33, 65, 70)), rng.randint(2, 5)
            rows = [[int(rng.random() < 0.6) for _ in range(m)] for _ in range(n)]
            if rng.random() < 0.5:
                for g in range(n):
                    rows[g][m - 1] = 1
            via = None
        else:               # wide: few objects, > 64 attributes built from a few base columns, degenerate ends
            n, m = rng.randint(3, 6), rng.choice((13, 65, 66, 70))
            base = [[int(rng.random() < 0.55) for _ in range(n)] for _ in range(4)] + [[1] * n, [0] * n]
            cols = [rng.choice(base) for _ in range(m)]
            cols[-1] = rng.choice(([1] * n, [0] * n, cols[0]))
            rows = [[cols[j][g] for j in range(m)] for g in range(n)]
            via = 'T'
        nc = len(closed_extents(rows))
        for lmax in sorted({1, 3, max(1, nc // 2), nc + 1}):
            for ms in _ms_choices(rng, n, 2):
                for log in (True, False):
                    c = dict(stream='big-shape', kind='sofia', be=rng.choice(BACKENDS), rows=rows, lmax=lmax,
                             ms=list(ms), log=log, lat=True)
                    if via:
                        c['via'] = via
                    yield c
    # ---- (H1) the same context object mined twice, with a rename / data replacement through public setters in between
    nh1 = 60 if tier == 'quick' else 400
    for i in range(nh1):
        rows, shape = _degenerate_table(rng, 3, 6, 2, 5) if i % 2 else (G.random_table(rng, 6, 5, 2, 2), ['random'])
        n, m = len(rows), len(rows[0])
        rows0 = [[int(rng.random() < 0.5) for _ in range(m)] for _ in range(n)]
        mut = rng.choice((['data'], ['objnames', 'attrnames'], ['data', 'objnames'], ['data', 'attrnames', 'objnames'],
                          ['attrnames']))
        nc = len(closed_extents(rows))
        for lmax in sorted({1, rng.randint(1, nc + 1), nc + 1}):
            ms = rng.choice(_ms_choices(rng, n, 3))
            yield dict(stream='h1-remine', kind='sofia', be=rng.choice(BACKENDS), rows=rows, lmax=lmax, ms=list(ms),
                       log=rng.random() < 0.5, lat=True,
                       objs=[NAMES_A[(g * 7 + i) % 80] + 'x' for g in range(n)] if 'objnames' in mut else None,
                       attrs=[NAMES_B[(j * 3 + i) % 80] + 'y' for j in range(m)] if 'attrnames' in mut else None,
                       hist=dict(rows0=rows0 if 'data' in mut else rows, mut=mut, lmax0=rng.randint(1, 4),
                                 ms0=list(rng.choice(MS_COUNTS))))
    for i in range(nh1 // 2):
        data, pools = _rand_point_table(rng, 6, 2)
        data0 = [[[v, v] for v in (rng.choice(VALUE_POOLS[pn]) for pn in pools)] for _ in data]
        ps = [rng.choice(PS_NAMES) for _ in data[0]]
        kind = 'sofia-mv' if i % 3 else 'rf'
        c = dict(stream='h1-remine-mv', kind=kind, data=data, ps=ps, pools=pools,
                 hist=dict(data0=data0, mut=rng.choice(('psdata', 'pslist'))))
        if kind == 'rf':
            c.update(y=_rand_target(rng, len(data)), params=_growth_params(rng, True))
        else:
            c.update(lmax=rng.randint(1, 6), ms=list(rng.choice(_ms_choices(rng, len(data), 3))), log=rng.random() < 0.5)
        yield c
    # ---- (H3) many-valued: point-valued interval columns with repeated values, values not representable in float32,
    #      values that collapse in float32, constant columns, duplicated rows - through Sofia and through the forest
    nval = 70 if tier == 'quick' else 500
    for i in range(nval):
        data, pools = _rand_point_table(rng)
        ps = [rng.choice(PS_NAMES) for _ in data[0]]
        nc = len(closed_extents(binarise(data)))
        for lmax in sorted({1, 2, rng.randint(1, nc + 1), nc + 1}):
            for ms in _ms_choices(rng, len(data), 2):
                yield dict(stream='mv-values', kind='sofia-mv', data=data, ps=ps, pools=pools, lmax=lmax, ms=list(ms),
                           log=rng.random() < 0.5)
        for _k in range(2):
            yield dict(stream='rf-values', kind='rf', data=data, ps=ps, pools=pools, y=_rand_target(rng, len(data)),
                       params=_growth_params(rng, True))
    # ---- (H3) trees / forests grown with non-default parameters (best-first numbering, min_samples_leaf, bootstrap
    #      on/off, n_jobs), duplicate rows, constant columns; forests without bootstrap repeat every node row set
    ngrow = 120 if tier == 'quick' else 700
    for i in range(ngrow):
        n, d = rng.randint(3, 14), rng.randint(1, 4)
        X = [[rng.choice((rng.randrange(5), 0.1 * rng.randrange(4), 2 ** 24 + rng.randrange(3))[:1 + (i % 3)])
              for _ in range(d)] for _ in range(n)]
        if rng.random() < 0.5:
            for _k in range(rng.randint(1, 3)):
                X[rng.randrange(n)] = list(X[rng.randrange(n)])            # duplicate rows
        if d > 1 and rng.random() < 0.3:
            j = rng.randrange(d)
            for r_ in X:
                r_[j] = 1                                                   # constant column
        model = ('rf-clf', 'tree-clf', 'rf-reg', 'tree-reg')[i % 4]
        y = [rng.randrange(3) for _ in range(n)] if model.endswith('clf') else [rng.randrange(6) for _ in range(n)]
        yield dict(stream='trees-growth', kind='tree', model=model, X=X, y=y,
                   params=_growth_params(rng, model.startswith('rf')), n_jobs=2 if i % 5 == 0 else 1)
    # ---- (H8) directed cases that cross 64/65 and 128/129 on every index-like dimension (objects, attributes, concepts,
    #      tree nodes, features), with an index >= 64 that distinguishes two concepts / row sets
    for n in H8_SIZES:
        rows = _h8_tall(rng, n)
        nc = len(closed_extents(rows))
        be = rng.choice(BACKENDS)
        for lmax in sorted({2, max(1, nc - 1), nc + 1}):
            for ms in ((0, 1), rng.choice(((2, 1), (n, 1), (1, 4), (1, 2)))):
                if float_threshold_ok(ms, n):
                    for log in (True, False):
                        yield dict(stream='h8-sofia', kind='sofia', be=be, rows=rows, lmax=lmax, ms=list(ms), log=log,
                                   lat=True, shape=['objects=%d' % n])
        rows = _h8_wide(rng, n)
        nc = len(closed_extents(rows))
        be = rng.choice(BACKENDS)
        for lmax in sorted({2, max(1, nc - 1), nc + 1}):
            for ms in ((0, 1), (2, 1)):
                for log in (True, False):
                    yield dict(stream='h8-sofia', kind='sofia', be=be, rows=rows, lmax=lmax, ms=list(ms), log=log,
                               lat=True, via='T', shape=['attributes=%d' % n])
    for nc in H8_SIZES:                     # number of concepts (= length of extents_proj) around L_max
        rows = _h8_count_table(nc)
        half = 64 if nc > 65 else 32
        for lmax in sorted({half, nc - 1, nc, nc + 1}):
            for log in (True, False):
                yield dict(stream='h8-sofia', kind='sofia', be=rng.choice(BACKENDS), rows=rows, lmax=lmax, ms=[0, 1],
                           log=log, lat=(lmax != nc - 1), shape=['concepts=%d' % nc])
    for n in H8_SIZES:                      # many-valued: n objects, few values, the last object holds a value of its own
        k = 1 + (n % 2)
        data = [[[v, v] for v in (rng.randrange(4 - k) for _ in range(k))] for _ in range(n)]   # <= 12 binary attributes
        data[n - 1][0] = [7, 7]
        if n > 64:
            data[64][k - 1] = [-3, -3]
        ps = [rng.choice(PS_NAMES) for _ in range(k)]
        nc = len(closed_extents(binarise(data)))
        for lmax in sorted({2, nc + 1}):
            for ms in ((0, 1), (2, 1)):
                yield dict(stream='h8-sofia-mv', kind='sofia-mv', data=data, ps=ps, lmax=lmax, ms=list(ms),
                           log=rng.random() < 0.5, shape=['objects=%d' % n])
        # the forest miner on n objects with n different values
        for _k in range(2):
            dat = _h8_point_table(rng, n, 1 + _k)
            yield dict(stream='h8-rf', kind='rf', data=dat, ps=[rng.choice(PS_NAMES) for _ in dat[0]],
                       y=_rand_target(rng, n), shape=['objects=%d' % n],
                       params=dict(n_estimators=1 + _k, random_state=rng.randrange(10 ** 6),
                                   max_depth=rng.choice((3, 5, None)) if n < 128 else rng.choice((3, 5))))
    for i, n in enumerate(H8_SIZES * 2):    # trees / forests: n rows with n different values; 63..129 nodes per tree
        vals = list(range(n - 1))
        rng.shuffle(vals)
        vals.append(n + 5)
        X = [[vals[g], rng.randrange(3)] for g in range(n)]
        model = ('tree-reg', 'rf-clf', 'tree-clf', 'rf-reg')[(i + i // 4) % 4]
        y = [vals[g] * 3 % 7 for g in range(n)] if model.endswith('clf') else [vals[g] * 5 % 11 + g / 1000 for g in range(n)]
        params = dict(random_state=rng.randrange(10 ** 6))
        if i >= 4:
            params['max_leaf_nodes'] = (32, 33, 64, 65)[i % 4]          # 63, 65, 127, 129 nodes
        if model.startswith('rf'):
            params.update(n_estimators=2, bootstrap=bool(i % 2))
        yield dict(stream='h8-trees', kind='tree', model=model, X=X, y=y, params=params, n_jobs=1 + (i % 2),
                   shape=['rows=%d' % n])
    for i, d in enumerate(H8_SIZES):        # many features: only the LAST one (and feature 64) is informative
        n = 12
        X = [[1] * d for _ in range(n)]
        for g in range(n):
            X[g][d - 1] = g % 4
            if d > 64:
                X[g][64] = g // 6
        model = ('tree-clf', 'rf-reg', 'tree-reg', 'rf-clf')[i]
        params = dict(random_state=rng.randrange(10 ** 6))
        if model.startswith('rf'):
            params.update(n_estimators=2, bootstrap=False, max_features=None)
        yield dict(stream='h8-trees', kind='tree', model=model, X=X, y=[(g % 4) + 4 * (g // 6) for g in range(n)],
                   params=params, n_jobs=1 + (i % 2), shape=['features=%d' % d])
    # ---- (H4) hash-preserving edits inside the use -> mutate -> use histories: a different table / different names with
    #      the same FormalContext.hash_fixed (zlib.adler32 collisions), also as a second, distinct object (H4b: 'twin')
    nh4 = 40 if tier == 'quick' else 300
    for i in range(nh4):
        rows = G.random_table(rng, 4, 4, 2, 2)
        n, m = len(rows), len(rows[0])
        objs0, attrs0 = H4_NAMES_A[:n], H4_NAMES_B[:m]
        rows0 = G.adler_collide_rows(objs0, attrs0, rows)
        variant = ('rows', 'objnames', 'attrnames', 'rows+names', 'twin')[i % 5]
        if rows0 is None and variant in ('rows', 'rows+names', 'twin'):
            variant = 'objnames'
        ren = variant in ('objnames', 'rows+names', 'twin'), variant in ('attrnames', 'rows+names', 'twin')
        objs = [G.adler_collide_name(x) for x in objs0] if ren[0] else objs0
        attrs = [G.adler_collide_name(x) for x in attrs0] if ren[1] else attrs0
        nc = len(closed_extents(rows))
        for lmax in sorted({1, rng.randint(1, nc + 1), nc + 1}):
            ms = rng.choice(_ms_choices(rng, n, 3))
            yield dict(stream='h4-remine', kind='sofia', be=rng.choice(BACKENDS), rows=rows, lmax=lmax, ms=list(ms),
                       log=rng.random() < 0.5, lat=True, objs=objs, attrs=attrs,
                       hist=dict(rows0=rows0 if variant in ('rows', 'rows+names', 'twin') else rows, objs0=objs0,
                                 attrs0=attrs0, mut=['h4:' + variant], twin=variant == 'twin',
                                 lmax0=rng.randint(1, 4), ms0=list(rng.choice(MS_COUNTS))))
    #      many-valued: cells -1 <-> -2 (same hash() of the pattern structure), 120 <-> 201 (same adler32 of the
    #      hashed text), colliding object names; through ps.data, through the pattern_structures setter, as a twin object
    for i in range(nh4 + nh4 // 2):
        variant = ('pyhash', 'digits', 'pyhash', 'objnames', 'pyhash', 'digits+objnames')[i % 6]
        n, k = rng.randint(3, 6), rng.randint(1, 2)
        pool = [-2, -1, -1, -2, 0, 3] if variant == 'pyhash' else H4_DIGITS
        data = [[[v, v] for v in (rng.choice(pool) for _ in range(k))] for _ in range(n)]
        data[0][0], data[1][0] = [pool[0], pool[0]], [pool[1], pool[1]]
        if variant == 'pyhash':
            # any subset of the -1 / -2 cells may be swapped: the tuple of cells keeps its hash()
            tw = _pyhash_twin_data(data)
            data0 = [[tw[g][j] if (g == 0 and j == 0) or rng.random() < 0.5 else data[g][j] for j in range(k)]
                     for g in range(n)]
        elif 'digits' in variant:
            data0 = [[[_digits_twin(a), _digits_twin(b)] for a, b in row] for row in data]
        else:
            data0 = data
        objs0 = H4_NAMES_A[:n]
        objs = [G.adler_collide_name(x) for x in objs0] if 'objnames' in variant else objs0
        ps = [rng.choice(PS_NAMES) for _ in range(k)]
        kind = 'rf' if i % 4 == 3 else 'sofia-mv'
        mut = ('psdata', 'twin', 'psdata', 'pslist')[(i // 6) % 4] if variant == 'pyhash' else rng.choice(('psdata', 'pslist', 'twin'))
        c = dict(stream='h4-remine-mv', kind=kind, data=data, ps=ps, objs=objs,
                 hist=dict(data0=data0, objs0=objs0, mut=mut, h4=variant))
        if kind == 'rf':
            c.update(y=_rand_target(rng, n), params=_growth_params(rng, True))
        else:
            nc = len(closed_extents(binarise(data)))
            # a limit that does not bind asks for ALL concepts of the current content
            c.update(lmax=nc + 1 if i % 2 == 0 else rng.randint(1, nc), ms=list(rng.choice(_ms_choices(rng, n, 3))),
                     log=rng.random() < 0.5)
        yield c
    # ---- (H7) counts that coincide: forests of IDENTICAL trees (bootstrap off, all features: the number of distinct
    #      node row sets equals the node count of ONE tree), repeated / permuted rows, n_jobs below / equal to / above the
    #      number of distinct columns and -1
    nh7 = 40 if tier == 'quick' else 240
    for i in range(nh7):
        n, d = rng.randint(3, 10), rng.randint(1, 3)
        base = [[rng.randrange(4) for _ in range(d)] for _ in range(rng.randint(2, 4))]
        X = [list(rng.choice(base)) for _ in range(n)]                  # rows repeated (few distinct rows)
        if i % 4 == 3:
            X = [[g if j == 0 else rng.randrange(2) for j in range(d)] for g in rng.sample(range(n), n)]   # a permutation
        model = ('rf-clf', 'rf-reg', 'tree-clf', 'rf-clf', 'rf-reg', 'tree-reg')[i % 6]
        y = [sum(r) % 3 for r in X] if model.endswith('clf') else [sum(r) % 5 for r in X]
        if len(set(y)) < 2:
            y[0] = y[0] + 1
        params = dict(random_state=rng.randrange(10 ** 6))
        if model.startswith('rf'):
            params.update(n_estimators=rng.randint(2, 4))
            if i % 2 == 0:
                params.update(bootstrap=False, max_features=None)        # identical trees
        yield dict(stream='h7-trees', kind='tree', model=model, X=X, y=y, params=params,
                   n_jobs=(2, 3, -1, 8, 'ncols', 'ncols+1')[i % 6])
    for i in range(nh7 // 2):
        data, pools = _rand_point_table(rng, 7, 2)
        params = dict(n_estimators=rng.randint(2, 4), random_state=rng.randrange(10 ** 6), n_jobs=(2, 3, -1)[i % 3])
        if i % 2 == 0:
            params.update(bootstrap=False, max_features=None)
        yield dict(stream='h7-rf', kind='rf', data=data, ps=[rng.choice(PS_NAMES) for _ in data[0]], pools=pools,
                   y=_rand_target(rng, len(data)), params=params)
    # proper interval cells: own stream, LAST (known finding D19: node extents need not be closed; the runner stops
    # after 200 failing cases, so this stream is kept small and cannot cut off any other stream)
    nrp = 60 if tier == 'quick' else 240
    for i in range(nrp):
        data = _rand_interval_table(rng, proper=True, nmax=6)
        yield dict(stream='rf-proper', kind='rf', data=data, ps=[rng.choice(PS_NAMES) for _ in data[0]],
                   y=_rand_target(rng, len(data)),
                   params=dict(n_estimators=rng.randint(1, 3), random_state=rng.randrange(10 ** 6),
                               max_depth=rng.choice([None, 1, 2, 3])))


# ------------------------------------------------------------------------------------------------ implementation side
def _bools(rows):
    return [[bool(v) for v in r] for r in rows]


def _build_formal(c):
    """The context under test.  Plain cases share a cached (never mutated) object; cases with names or with a history
    (H1) get a FRESH object: it is used once, changed through the public setters, and then used for the judged call."""
    hist = c.get('hist')
    if hist is None and not c.get('objs') and not c.get('attrs'):
        return make_context(c['rows'], c['be'])
    from fcapy.context import FormalContext
    from fcapy.algorithms.concept_construction import sofia
    from fcapy.lattice import ConceptLattice
    if hist is None:
        return FormalContext(data=_bools(c['rows']), object_names=c.get('objs'), attribute_names=c.get('attrs'),
                             backend=c['be'])
    K = FormalContext(data=_bools(hist['rows0']), object_names=hist.get('objs0'), attribute_names=hist.get('attrs0'),
                      backend=c['be'])
    kw0 = dict(L_max=hist['lmax0'], min_supp=ms_value(hist['ms0']))
    sofia(K, **kw0)                                   # first use: whatever is memoised is memoised now
    [e for _, e in K.to_bin_attr_extents()]
    K.n_bin_attrs, K.hash_fixed(), K.extension_i([]), K.intention_i([])
    ConceptLattice.from_context(K, algo='Sofia', **kw0)
    h4 = any(str(m_).startswith('h4:') for m_ in hist['mut'])
    before = (K.hash_fixed(), K.data.to_list(), list(K.object_names), list(K.attribute_names))
    if hist.get('twin'):
        # (H4b) a second, DISTINCT object whose hash_fixed collides with the one just used
        K = FormalContext(data=_bools(c['rows']), object_names=c.get('objs'), attribute_names=c.get('attrs'),
                          backend=c['be'])
    else:
        if 'data' in hist['mut'] or (h4 and hist['rows0'] != c['rows']):
            K.data.data = _bools(c['rows'])           # public setter of the table: same shape, new content
        if c.get('objs'):
            K.object_names = list(c['objs'])
        if c.get('attrs'):
            K.attribute_names = list(c['attrs'])
    if h4:
        _h4_note(collides=before[0] == K.hash_fixed(),
                 differs=before[1:] != (K.data.to_list(), list(K.object_names), list(K.attribute_names)))
    return K


def _mutate_mv(K, c):
    """the mutation step of a many-valued history; returns the context to judge (a NEW object for 'twin')"""
    hist = c['hist']
    before = (K.hash_fixed(), _ps_hashes(K), str(K.data), list(K.object_names))
    if hist['mut'] == 'twin':
        K = make_mv(c['data'], c['ps'], c.get('y'), c.get('objs'))
    else:
        if hist['mut'] == 'psdata':
            for j, ps_ in enumerate(K.pattern_structures):
                ps_.data = [tuple(row[j]) for row in c['data']]        # public setter of the pattern structure
        else:
            K.pattern_structures = make_mv(c['data'], c['ps'], c.get('y')).pattern_structures
        if c.get('objs'):
            K.object_names = list(c['objs'])
    if hist.get('h4'):
        _h4_note(collides=before[0] == K.hash_fixed(), differs=before[2:] != (str(K.data), list(K.object_names)),
                 pyhash=[a == b for a, b in zip(before[1], _ps_hashes(K)) if a is not None and b is not None])
    return K


def _build_mv_sofia(c):
    hist = c.get('hist')
    if hist is None:
        return make_mv(c['data'], c['ps'], None, c.get('objs'))
    from fcapy.algorithms.concept_construction import sofia
    K = make_mv(hist['data0'], c['ps'], None, hist.get('objs0'))
    sofia(K, L_max=2, min_supp=1)
    [e for _, e in K.to_bin_attr_extents()]
    K.n_bin_attrs, K.hash_fixed(), K.to_numeric()
    _ps_hashes(K), K.extension_i(K.intention_i([0])), K.intention_i(list(range(K.n_objects)))
    return _mutate_mv(K, c)


def _names_ok(K, x, mv):
    ext_ok = list(x.extent) == [K.object_names[g] for g in x.extent_i]
    if mv:
        int_ok = sorted(x.intent) == sorted(K.attribute_names[k] for k in x.intent_i)
    else:
        int_ok = list(x.intent) == [K.attribute_names[m] for m in x.intent_i]
    return ext_ok and int_ok


def _impl_sofia(c):
    from fcapy.algorithms.concept_construction import sofia
    from fcapy.lattice import ConceptLattice
    mv = c['kind'] == 'sofia-mv'
    H4.clear()
    K = _build_mv_sofia(c) if mv else _build_formal(c)
    h4 = dict(H4)
    kw = dict(L_max=c['lmax'], min_supp=ms_value(c['ms']), use_log_stability_bound=c['log'])
    h0 = K.hash_fixed()
    cs = sofia(K, **kw)
    out = dict(ok=[[canon_ext(x.extent_i), canon_pattern(x.intent_i) if mv else sorted(int(a) for a in x.intent_i)]
                   for x in cs])
    out['pure'] = h0 == K.hash_fixed()          # mining must not change the context (names, data)
    if h4:
        out['h4'] = h4
    out['names_ok'] = all(_names_ok(K, x, mv) for x in cs)
    out['hash_ok'] = all(x.context_hash == K.hash_fixed() for x in cs)
    if mv:
        out['mv_genuine'] = [canon_ext(K.extension_i(x.intent_i)) == canon_ext(x.extent_i)
                             and canon_pattern(K.intention_i(list(x.extent_i))) == canon_pattern(x.intent_i) for x in cs]
        out['bin'] = [[int(bool(e[g])) for _, e in K.to_bin_attr_extents()] for g in range(K.n_objects)]
        out['n_bin_attrs'] = int(K.n_bin_attrs)
    if not c.get('lat', True):
        out['lattice'] = dict(skipped=True)
        return out
    try:
        L = ConceptLattice.from_context(K, algo='Sofia', **kw)
        exts = sorted(canon_ext(x.extent_i) for x in L)
        out['lattice'] = dict(n=len(L), top=canon_ext(L[L.top].extent_i), bottom=canon_ext(L[L.bottom].extent_i),
                              same=exts == sorted(e for e, _ in out['ok']))
    except Exception as e:
        out['lattice'] = dict(err=exc_name(e), msg=str(e)[:200])
    return out


def _impl_rf(c):
    from fcapy.algorithms.concept_construction import random_forest_concepts
    from fcapy.lattice import ConceptLattice
    H4.clear()
    if c.get('hist'):
        K = make_mv(c['hist']['data0'], c['ps'], c['y'], c['hist'].get('objs0'))
        random_forest_concepts(K, rf_params=dict(c['params']))     # first use
        K.hash_fixed(), K.to_numeric(), _ps_hashes(K)
        K = _mutate_mv(K, c)
    else:
        K = make_mv(c['data'], c['ps'], c['y'], c.get('objs'))
    h0, p_ = K.hash_fixed(), dict(c['params'])
    cs = random_forest_concepts(K, rf_params=p_)
    out = dict(ok=[[canon_ext(x.extent_i), canon_pattern(x.intent_i)] for x in cs])
    out['pure'] = h0 == K.hash_fixed() and p_ == dict(c['params'])    # neither the context nor the caller's dict changes
    if H4:
        out['h4'] = dict(H4)
    out['names_ok'] = all(_names_ok(K, x, True) for x in cs)
    out['hash_ok'] = all(x.context_hash == K.hash_fixed() for x in cs)
    out['intent_ok'] = [canon_pattern(K.intention_i(list(x.extent_i))) == canon_pattern(x.intent_i) for x in cs]
    out['mv_closed'] = [canon_ext(K.extension_i(x.intent_i)) == canon_ext(x.extent_i) for x in cs]
    try:
        L = ConceptLattice.from_context(K, algo='RandomForest', rf_params=dict(c['params']))
        out['lattice'] = dict(n=len(L))
    except Exception as e:
        out['lattice'] = dict(err=exc_name(e))
    return out


def _impl_tree(c):
    from fcapy.algorithms.concept_construction import parse_decision_tree_to_extents
    mdl, X = fit_model(c)
    nj = c.get('n_jobs', 1)
    if isinstance(nj, str):                # (H7) as many jobs as there are distinct columns / one more
        M = dense_paths(mdl, X)
        nj = len({tuple(r_[j] for r_ in M) for j in range(len(M[0]))}) + (1 if nj.endswith('+1') else 0)
    import warnings
    with warnings.catch_warnings():
        warnings.simplefilter('ignore')    # joblib inside a worker process falls back to sequential execution (and says so)
        exts = parse_decision_tree_to_extents(mdl, X, n_jobs=int(nj))
    n_nodes = sum(e.tree_.node_count for e in mdl.estimators_) if hasattr(mdl, 'estimators_') else mdl.tree_.node_count
    return dict(ok=[canon_ext(e) for e in exts], types=sorted({type(e).__name__ for e in exts}), n_nodes=int(n_nodes))


def impl(c):
    try:
        if c['kind'] in ('sofia', 'sofia-mv'):
            return _impl_sofia(c)
        if c['kind'] == 'rf':
            return _impl_rf(c)
        return _impl_tree(c)
    except Exception as e:
        return {'err': exc_name(e), 'msg': str(e)[:300]}


# ------------------------------------------------------------------------------------------------ Lean side
def requests(c, io):
    out = io.get('ok', []) if isinstance(io, dict) else []
    if c['kind'] == 'sofia':
        rq = dict(op='C15.sofia', be=SHORT[c['be']], rows=c['rows'], w=len(c['rows'][0]), lmax=c['lmax'],
                  p=c['ms'][0], q=c['ms'][1], log=c['log'], out=out)
        if c.get('via'):
            rq['via'] = c['via']
        return [rq]
    if c['kind'] == 'sofia-mv':
        rows = binarise(c['data'])
        rq = dict(op='C15.sofia', be='bitarray', rows=rows, w=len(rows[0]), lmax=c['lmax'],
                  p=c['ms'][0], q=c['ms'][1], log=c['log'], out=[[e, None] for e, _ in out])
        if len(rows[0]) > len(rows):
            rq['via'] = 'T'      # binarised tables are wide: concepts enumerated through the transposed table
        return [rq]
    if c['kind'] == 'rf':
        import numpy as np
        from sklearn.ensemble import RandomForestRegressor, RandomForestClassifier
        rows = binarise(c['data'])
        # the same forest, fitted independently of fcapy (deterministic: fixed random_state)
        X = np.array([[v for cell in row for v in cell] for row in c['data']], dtype=float)
        cls = RandomForestClassifier if len(set(c['y'])) == 2 else RandomForestRegressor
        rf = cls(**c['params'])
        rf.fit(X, c['y'])
        M = dense_paths(rf, X)
        # the fitted trees inside the model: context as exact rationals, float32 table, tree arrays, sklearn's matrix
        D = [[[rat(cell[0]), rat(cell[1])] for cell in row] for row in c['data']]
        return [dict(op='C15.rf', be='bitarray', rows=rows, w=len(rows[0]), M=M, mw=len(M[0]),
                     out=[[e, None] for e, _ in out]),
                dict(op='C15.rfmv', D=D, k=len(c['data'][0]), cast=cast_table(v for row in c['data'] for cell in row
                                                                               for v in cell),
                     trees=tree_arrays(rf), M=M, out=[e for e, _ in out])]
    mdl, X = fit_model(c)
    M = dense_paths(mdl, X)
    return [dict(op='C15.tree', M=M, mw=len(M[0])),
            dict(op='C15.paths', X=[[rat(f32(v)) for v in row] for row in X.tolist()], trees=tree_arrays(mdl), M=M)]


def _fail(kind, detail, **kw):
    d = dict(ok=False, kind=kind, detail=detail)
    d.update(kw)
    return d


def judge(c, io, rep):
    r = rep[0]
    if 'err' in io:
        return _fail('property', f"{c['kind']} raised {io['err']}: {io.get('msg')}", tags=['raised:' + io['err']])
    hist = c.get('hist') or {}
    h4v = hist.get('h4')
    if h4v is None and isinstance(hist.get('mut'), list):
        h4v = next((m_[3:] for m_ in hist['mut'] if str(m_).startswith('h4:')), None)
    if h4v:
        # (H4) the edit of the history really changes the content and really keeps the hash it is meant to keep
        f4 = io.get('h4') or {}
        good = f4.get('differs') and (all(f4.get('pyhash', [])) if h4v == 'pyhash' else f4.get('collides'))
        if not good:
            return _fail('harness', f'H4 history {h4v}: the generated edit does not differ / does not collide: {f4}')
    if c['kind'] in ('sofia', 'sofia-mv'):
        if not float_threshold_ok(c['ms'], len(c['rows'] if c['kind'] == 'sofia' else c['data'])):
            return _fail('harness', 'float threshold and rational threshold separate counts differently (generator bug)')
        if r['model_fails']:
            return _fail('harness', f"Lean model output fails the checker: {r['model_fails']} (contradicts Fca.C15 theorems)")
        tags = list(r['impl_fails'])
        if c['kind'] == 'sofia-mv' and not all(io['mv_genuine']):
            tags.append('mv-not-genuine')
        if not io.get('names_ok', True):
            tags.append('stale-names')
        if not io.get('hash_ok', True):
            tags.append('stale-context-hash')
        if 'err' in io['lattice']:
            tags.append('lattice-rejected:' + io['lattice']['err'])
        elif not io['lattice'].get('skipped') and (
                not io['lattice']['same'] or io['lattice']['top'] != list(range(len(c.get('rows') or c['data'])))):
            tags.append('lattice-differs')
        if tags:
            return _fail('property', f"sofia output {io['ok']} violates: {tags}; lattice={io['lattice']}", tags=tags)
        # ---- correspondence (model vs implementation) ----
        if not io.get('pure', True):
            return _fail('correspondence', 'sofia changed the context it was given (hash_fixed differs after the call)',
                         tags=['context-mutated'])
        iexts = [e for e, _ in io['ok']]
        if c['kind'] == 'sofia-mv' and io['bin'] != binarise(c['data']):
            return _fail('correspondence', f"to_bin_attr_extents {io['bin']} differs from the independent binarisation "
                                           f"{binarise(c['data'])}", tags=['binarisation'])
        if c['kind'] == 'sofia-mv' and io['n_bin_attrs'] != len(io['bin'][0]):
            return _fail('correspondence', f"n_bin_attrs {io['n_bin_attrs']} != number of yielded binary attributes "
                                           f"{len(io['bin'][0])}", tags=['n_bin_attrs'])
        counts = [len(e) for e in iexts]
        if counts != sorted(counts) or any(not set(iexts[0]) <= set(e) for e in iexts):
            return _fail('correspondence', f'output not sorted by support / first not least: {iexts}', tags=['order'])
        if 'err' in r['model']:
            return _fail('harness', f"model raised {r['model']}")
        mexts = [e for e, _ in r['model']]
        same = sorted(mexts) == sorted(iexts)
        if c['kind'] == 'sofia' and same and sorted(map(tuple, map(lambda x: (tuple(x[0]), tuple(x[1])), r['model']))) != \
                sorted((tuple(e), tuple(i)) for e, i in io['ok']):
            return _fail('correspondence', f"intents differ: model {r['model']} impl {io['ok']}", tags=['intent'])
        if not same and (c['log'] or r['never_binds']):
            return _fail('correspondence', f"model extents {mexts} != implementation extents {iexts} although the result "
                                           f"is tie-independent here", tags=['model-differs'])
        return dict(ok=True, diag=None if same else 'stab-bound-prune-differs')
    if c['kind'] == 'rf':
        r2 = rep[1]
        # (a) the model of sklearn's decision_path (per-row descent on the tree arrays, float32 data) = the real matrix
        if not r2['paths_equal']:
            return _fail('correspondence', f"model decision_path differs from sklearn's at (row, node) {r2['diff']}",
                         tags=['paths-differ'])
        hyp = r2['hyp']
        want_hyp = dict(rect=True, point=not is_proper(c['data']), cast=True, forest=True, k_pos=True)
        if hyp != want_hyp:
            return _fail('harness', f"hypotheses of Fca.C15.rf_concepts_genuine evaluate to {hyp}, expected {want_hyp}")
        # (b) the two closure oracles (binarised table / interval pattern structure on exact rationals) agree
        if bool(r2['nonclosed']) != ('not-closed' in r['impl_fails']) or r2['has_top'] != ('no-top' not in r['impl_fails']):
            return _fail('harness', f"closure oracles disagree: binarised {r['impl_fails']} / {r['nonclosed']}, "
                                    f"pattern structure {r2['nonclosed']} top={r2['has_top']}")
        tags = list(r['impl_fails'])
        if not all(io['intent_ok']):
            tags.append('intent-not-prime')
        if not io.get('names_ok', True):
            tags.append('stale-names')
        if not io.get('hash_ok', True):
            tags.append('stale-context-hash')
        if tags:
            return _fail('property', f"random_forest_concepts returned non-genuine concepts {tags}: "
                                     f"non-closed (extent, closure) = {r['nonclosed']}", tags=tags)
        if not all(io['mv_closed']):
            return _fail('harness', 'MVContext closure and binarised closure disagree (C14 territory)')
        if not io.get('pure', True):
            return _fail('correspondence', 'random_forest_concepts changed the context or the rf_params dict it was given',
                         tags=['context-mutated'])
        iexts = sorted(e for e, _ in io['ok'])
        mexts = sorted(e for e, _ in r['model'])
        if iexts != mexts:
            return _fail('correspondence', f'model extents {mexts} != implementation extents {iexts}', tags=['model-differs'])
        # (c) the model with the trees inside (RF.rfConceptsMV): same extents, same intents (exact numbers)
        m2 = sorted((e, [None if d is None else [Fraction(*d[0]), Fraction(*d[1])] for d in ds]) for e, ds in r2['model'])
        i2 = sorted((e, [None if v is None else [Fraction(*rat(v[0])), Fraction(*rat(v[1]))] for _, v in pat])
                    for e, pat in io['ok'])
        if [e for e, _ in m2] != [e for e, _ in i2]:
            return _fail('correspondence', f"tree-model extents {[e for e, _ in m2]} != implementation extents "
                                           f"{[e for e, _ in i2]}", tags=['tree-model-differs'])
        if m2 != i2:
            return _fail('correspondence', f'tree-model intents differ: model {m2} implementation {i2}', tags=['intent'])
        if 'err' in io['lattice']:
            return _fail('correspondence', f"ConceptLattice.from_context(algo=RandomForest) raised {io['lattice']}",
                         tags=['lattice'])
        return dict(ok=True)
    # tree
    r2 = rep[1]
    if not r2['paths_equal']:
        return _fail('correspondence', f"model decision_path differs from sklearn's at (row, node) {r2['diff']}",
                     tags=['paths-differ'])
    if not r2['forest_ok'] or sorted(r2['exts']) != sorted(r['exts']):
        return _fail('harness', f"tree model: forest_ok={r2['forest_ok']}, node row sets {sorted(r2['exts'])} vs "
                                f"{sorted(r['exts'])} from sklearn's matrix")
    want = sorted(r['exts'])
    got = io['ok']
    if len(got) != len({tuple(e) for e in got}):
        return _fail('property', f'parse_decision_tree_to_extents returned duplicates: {got}', tags=['tree-duplicates'])
    if sorted(got) != want:
        return _fail('property', f'parse_decision_tree_to_extents {sorted(got)} != distinct node row sets {want}',
                     tags=['tree-extents'])
    if io['types'] not in (['tuple'], []):
        return _fail('correspondence', f"extent types {io['types']}", tags=['tree-types'])
    return dict(ok=True)


def nontrivial(c):
    if c['kind'] == 'sofia':
        return G.is_mixed(c['rows'])
    if c['kind'] in ('sofia-mv', 'rf'):
        return len({tuple(map(tuple, row)) for row in c['data']}) > 1
    return len({tuple(r) for r in c['X']}) > 1


def key(c):
    return {k: v for k, v in c.items() if k != 'stream'}


def branch(c, io, rep):
    out = [c['stream'], c['kind']]
    r = rep[0] if rep else {}
    for sh in c.get('shape') or []:
        out.append('shape:' + sh)
    for pn in set(c.get('pools') or []):
        out.append('pool:' + pn)
    if c.get('hist'):
        m_ = c['hist']['mut']
        out.append('hist:' + (m_ if isinstance(m_, str) else '+'.join(sorted(m_))))
    if c.get('via'):
        out.append('via:' + c['via'])
    if c.get('objs') and len(set(c['objs'])) < len(c['objs']):
        out.append('duplicate-names')
    if c['kind'] in ('sofia', 'sofia-mv') and c['ms'][1] != 1:
        out.append('min_supp:fraction')
    elif c['kind'] in ('sofia', 'sofia-mv'):
        out.append('min_supp:count')
    if c['kind'] in ('sofia', 'sofia-mv'):
        out.append(('log' if c['log'] else 'stab') + (':never-binds' if r.get('never_binds') else ':binds'))
        out.append('lattice-built' if 'n' in io.get('lattice', {}) else 'lattice-not-built')
        if c['kind'] == 'sofia':
            out.append(c['be'])
        if 'ok' in io and 'model' in r and 'err' not in r['model']:
            same = sorted(e for e, _ in r['model']) == sorted(e for e, _ in io['ok'])
            out.append('model==impl' if same else 'model!=impl(tie-dependent stab bound)')
            out.append('n_out=%d' % min(len(io['ok']), 9))
    elif c['kind'] == 'rf':
        out.append('proper' if is_proper(c['data']) else 'points')
        out.append('nonclosed' if r.get('nonclosed') else 'closed')
        for k_ in ('max_leaf_nodes', 'min_samples_leaf', 'bootstrap', 'n_jobs'):
            if k_ in c['params']:
                out.append(f"rf-param:{k_}" + (f"={c['params'][k_]}" if k_ == 'bootstrap' else ''))
    else:
        out.append(c['model'])
        for k_ in ('max_leaf_nodes', 'min_samples_leaf', 'bootstrap', 'n_jobs'):
            if k_ in c['params']:
                out.append(f"param:{k_}" + (f"={c['params'][k_]}" if k_ == 'bootstrap' else ''))
        if 'ok' in io and io.get('n_nodes', 0) > len(io['ok']):
            out.append('several-nodes-same-row-set')
    out.append('err' if 'err' in io else 'ok')
    return out


def signature(c, io, rep, v):
    tags = sorted(v.get('tags') or [])
    if (c['kind'] == 'rf' and is_proper(c['data']) and v.get('kind') == 'property' and tags == ['not-closed']):
        return 'C15:rf-nonclosed-extent-proper-intervals'
    return f"C15:{c['kind']}:{v.get('kind')}:{'+'.join(tags) or 'other'}"


def shrink(c):
    if str(c.get('stream', '')).startswith('h8'):
        # the size IS the scenario (a size-gated path): only the other parameters are simplified
        if c['kind'] in ('sofia', 'sofia-mv') and c['ms'] != [0, 1]:
            yield dict(c, ms=[0, 1])
        if c['kind'] == 'tree' and c.get('n_jobs', 1) != 1:
            yield dict(c, n_jobs=1)
        return
    if c.get('hist'):
        # first try the same call on a fresh object (no history); the table of a history case is not shrunk
        yield {k: v for k, v in c.items() if k != 'hist'}
        if c['kind'] != 'rf' and c['lmax'] > 1:
            yield dict(c, lmax=c['lmax'] - 1)
        return
    if c['kind'] == 'sofia' and (c.get('objs') or c.get('attrs')):
        yield {k: v for k, v in c.items() if k not in ('objs', 'attrs')}
        if c['lmax'] > 1:
            yield dict(c, lmax=c['lmax'] - 1)
        return
    if c['kind'] == 'sofia':
        yield from G.shrink_table_case(c)
        if c['lmax'] > 1:
            yield dict(c, lmax=c['lmax'] - 1)
        if c['ms'] != [0, 1]:
            yield dict(c, ms=[0, 1])
        return
    if c['kind'] in ('sofia-mv', 'rf'):
        data = c['data']
        n, k = len(data), len(data[0])
        if n > 2:
            for i in range(n):
                d = dict(c, data=data[:i] + data[i + 1:])
                if 'y' in c:
                    d['y'] = c['y'][:i] + c['y'][i + 1:]
                yield d
        if k > 1:
            for j in range(k):
                yield dict(c, data=[row[:j] + row[j + 1:] for row in data], ps=c['ps'][:j] + c['ps'][j + 1:])
        if c['kind'] == 'rf':
            p = c['params']
            if p.get('n_estimators', 1) > 1:
                yield dict(c, params=dict(p, n_estimators=1))
            if p.get('max_depth') is None or p['max_depth'] > 1:
                yield dict(c, params=dict(p, max_depth=1))
        elif c['lmax'] > 1:
            yield dict(c, lmax=c['lmax'] - 1)
        for i in range(n):
            for j in range(k):
                a, b = data[i][j]
                if a != b:
                    d2 = [[list(cell) for cell in row] for row in data]
                    d2[i][j] = [a, a]
                    yield dict(c, data=d2)
        return
    X = c['X']
    if len(X) > 2:
        for i in range(len(X)):
            yield dict(c, X=X[:i] + X[i + 1:], y=c['y'][:i] + c['y'][i + 1:])
    if len(X[0]) > 1:
        for j in range(len(X[0])):
            yield dict(c, X=[r[:j] + r[j + 1:] for r in X])

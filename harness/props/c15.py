"""C15 — approximate miners (Sofia, RandomForest, decision-tree extents) return only genuine concepts
and honour their limits.

RELATIONAL property: which concepts survive Sofia's pruning depends on set-iteration (tie) orders, so the
IMPLEMENTATION's own output is judged by the Lean checker `Fca.Spec.C15.failsC15` (driver op `C15.sofia`).
The Lean model is run too (identity tie order); model = implementation is required where the result is
provably tie-independent as a set (the Δ-bound, and whenever the limit never binds), and is only recorded in
the histogram otherwise (`1 - Σ 2^-Δ` bound with a binding limit: caspailleur's `sort_intents_inclusion` is
tie-dependent on families that are not closed under intersection).
"""
import glob
import itertools
import json
import os
import random
from fractions import Fraction

import gen as G
from implutil import BACKENDS, SHORT, make_context, exc_name

VERIF = os.path.dirname(os.path.dirname(os.path.dirname(os.path.abspath(__file__))))
REQUESTS_NEED_IMPL = True
CHUNK = 400

RULE = ('case kinds: sofia (formal table, backend, L_max, min_supp=p/q, stability-bound variant), sofia-mv (interval '
        'many-valued table -> independent binarisation), rf (interval MV table + target + small forest parameters), '
        'tree (numeric X, y, fitted DecisionTree/RandomForest).  Order: corpus -> exhaustive tables n,m<=3 x 3 backends '
        'x L_max in 1..|Concepts|+2 x thresholds {0,1,2,0.3,0.5} x both bounds -> seeded random tables up to 7x7 -> MV '
        'interval tables (point-valued and proper) -> forests on point-valued tables -> fitted trees/forests -> stream '
        'rf-proper last (proper interval cells, known finding D19).  non-trivial = mixed table / more than one distinct value; '
        'distinct = distinct full case')
EXHAUSTIVE = {
    'quick': 'sofia: all 682 tables n,m<=3 x 3 backends x L_max in 1..|Concepts|+2 x min_supp in {0,1,2,0.3,0.5} x both '
             'stability bounds (ConceptLattice.from_context(algo=Sofia) built for every case of the default backend and for the '
             'extreme L_max on the other two)',
    'thorough': 'quick scope plus all tables with n*m<=12, n,m<=4 on the default backend (L_max in {1,2,3,|C|,|C|+2})'}
EXPLANATION = ('the implementation output is fed to the Lean checker failsC15 (genuine, distinct, top, least, support, '
               'count<=L_max+2, all concepts meeting the threshold when #such+1<=L_max); theorems Fca.C15.* prove these for '
               'the code-shaped model for every tie order, every L_max, every min_supp and every measure function; '
               'tree extents are compared with the distinct columns of the densified decision_path (Lean treeExtents)')
ASSUMPTIONS = ['min_supp is a non-negative int count or a fraction p/q in [0,1) whose float product with n_objects separates '
               'the integer counts like the exact rational (checked per case)',
               'many-valued contexts: interval columns (IntervalPS / IntervalNumpyPS); genuineness is judged on the '
               'independently computed binarisation (C14 proves same closed sets) and cross-checked with the MVContext\'s '
               'own extension_i/intention_i',
               'RandomForest part: point-valued interval columns (proper interval cells are finding D19)',
               'stability values are compared exactly only through the set of surviving concepts']
TRUSTED = ['sklearn fitted trees and decision_path (data to the model)',
           'scipy.sparse and the numeric trick of utils.sparse_unique_columns (modelled as: distinct columns)',
           'caspailleur.order.sort_intents_inclusion/inverse_order (modelled by the cover relation; theorems hold for '
           'every measure function, so they do not depend on it)',
           'column slicing `data[:, i]` of the three backends and pattern-structure to_bin_attr_extents (compared with an '
           'independent binarisation per case)']

THRESHOLDS = [(0, 1), (1, 1), (2, 1), (3, 10), (1, 2)]
PS_NAMES = ('IntervalPS', 'IntervalNumpyPS')


# ------------------------------------------------------------------------------------------------ helpers
def closed_extents(rows):
    """All concept extents of a 0/1 table (brute force, Python side only for sizing L_max ranges)."""
    n, m = len(rows), len(rows[0])
    cols = [frozenset(g for g in range(n) if rows[g][j]) for j in range(m)]
    exts = {frozenset(range(n))}
    for c in cols:
        exts |= {e & c for e in exts}
    return exts


def ms_value(ms):
    p, q = ms
    return p if q == 1 else p / q


def float_threshold_ok(ms, n):
    """The float threshold used by the code separates the integer counts exactly like the rational one."""
    p, q = ms
    v = ms_value(ms)
    thr_f = v * n if v < 1 else v
    thr_q = Fraction(p, q) * n if p < q else Fraction(p, q)
    return all((c < thr_f) == (c < thr_q) for c in range(n + 2))


def binarise(data):
    """Independent binarisation of an interval table: rows of cells [l, r] -> 0/1 rows.
    Per column: all-true, `l >= L` for the 2nd.. distinct left ends ascending, `r <= R` for the 2nd.. distinct
    right ends descending, all-false (the empty description)."""
    n, k = len(data), len(data[0])
    cols = []
    for c in range(k):
        ls = sorted({data[g][c][0] for g in range(n)})
        rs = sorted({data[g][c][1] for g in range(n)}, reverse=True)
        cols.append([1] * n)
        for L in ls[1:]:
            cols.append([int(L <= data[g][c][0]) for g in range(n)])
        for R in rs[1:]:
            cols.append([int(data[g][c][1] <= R) for g in range(n)])
        cols.append([0] * n)
    return [[col[g] for col in cols] for g in range(n)]


def make_mv(data, ps, target=None):
    from fcapy.mvcontext import MVContext, PS
    k = len(data[0])
    types = {str(c): getattr(PS, ps[c % len(ps)] if isinstance(ps, (list, tuple)) else ps) for c in range(k)}
    cells = [[tuple(cell) for cell in row] for row in data]
    return MVContext(cells, pattern_types=types, target=None if target is None else list(target))


def canon_ext(ext):
    return sorted(int(g) for g in ext)


def canon_pattern(intent_i):
    out = []
    for k in sorted(intent_i):
        v = intent_i[k]
        out.append([int(k), None if v is None else [float(v[0]), float(v[1])]])
    return out


def is_proper(data):
    return any(cell[0] != cell[1] for row in data for cell in row)


def fit_model(c):
    import numpy as np
    from sklearn.tree import DecisionTreeClassifier, DecisionTreeRegressor
    from sklearn.ensemble import RandomForestClassifier, RandomForestRegressor
    cls = {'tree-clf': DecisionTreeClassifier, 'tree-reg': DecisionTreeRegressor,
           'rf-clf': RandomForestClassifier, 'rf-reg': RandomForestRegressor}[c['model']]
    mdl = cls(**c['params'])
    X = np.array(c['X'], dtype=float)
    mdl.fit(X, c['y'])
    return mdl, X


def dense_paths(mdl, X):
    dp = mdl.decision_path(X)
    if isinstance(dp, tuple):
        dp = dp[0]
    return [[int(v != 0) for v in row] for row in dp.toarray()]


# ------------------------------------------------------------------------------------------------ generation
def _sofia_cases(rows, stream, bes, lmaxes, thresholds=THRESHOLDS, bounds=(True, False)):
    lmaxes = list(lmaxes)
    for be in bes:
        for lmax in lmaxes:
            # ConceptLattice.from_context(algo='Sofia') is built for every case of the default backend and, on the
            # other backends, for the smallest and the largest L_max (it dominates the cost of a case)
            lat = be == 'BinTableBitarray' or lmax in (lmaxes[0], lmaxes[-1])
            for ms in thresholds:
                for log in bounds:
                    yield dict(stream=stream, kind='sofia', be=be, rows=rows, lmax=lmax, ms=list(ms), log=log, lat=lat)


def _rand_interval_table(rng, proper, nmax=5, kmax=2):
    n, k = rng.randint(2, nmax), rng.randint(1, kmax)
    grid = 4 if k == 1 else 3
    data = []
    for _ in range(n):
        row = []
        for _c in range(k):
            a = rng.randrange(grid)
            b = rng.randrange(a, grid) if (proper and rng.random() < 0.6) else a
            row.append([a, b])
        data.append(row)
    if proper and not is_proper(data):
        data[0][0] = [0, grid - 1]
    return data


def _rand_target(rng, n):
    if rng.random() < 0.6:
        y = [rng.randrange(2) for _ in range(n)]
        if len(set(y)) < 2:
            y[0] = 1 - y[0]
        return y
    return [rng.randrange(4) for _ in range(n)]


def _corpus():
    for f in sorted(glob.glob(os.path.join(VERIF, 'corpus', 'C15', '*.json'))):
        try:
            c = json.load(open(f))
        except Exception:
            continue
        c = c.get('case', c)
        c.setdefault('stream', 'corpus')
        yield c


def gen(tier, seed, boost=False):
    rng = random.Random(seed * 1000003 + 1501)
    thorough = tier == 'thorough' or boost
    yield from _corpus()
    # exhaustive small scope
    for rows in G.tables_upto(3, 3):
        nc = len(closed_extents(rows))
        yield from _sofia_cases(rows, 'exhaustive', BACKENDS, range(1, nc + 3))
    if thorough:
        for rows in G.tables_upto(4, 4, cells=12):
            if len(rows) <= 3 and len(rows[0]) <= 3:
                continue
            nc = len(closed_extents(rows))
            yield from _sofia_cases(rows, 'exhaustive-large', ('BinTableBitarray',),
                                    sorted({1, 2, 3, nc, nc + 2}), thresholds=[(0, 1), (2, 1), (3, 10)])
    # seeded random tables up to 7x7
    nrand = 250 if tier == 'quick' else 4000
    if boost:
        nrand *= 3
    for _ in range(nrand):
        rows = G.random_table(rng, 7, 7)
        nc = len(closed_extents(rows))
        lm = sorted({1, 2, rng.randint(1, max(1, nc)), max(1, nc - 1), nc + 1})
        for lmax in lm:
            ms = rng.choice(THRESHOLDS + [(3, 1), (7, 10), (1, 4)])
            if not float_threshold_ok(ms, len(rows)):
                continue
            for log in (True, False):
                yield dict(stream='random', kind='sofia', be=rng.choice(BACKENDS), rows=rows, lmax=lmax,
                           ms=list(ms), log=log)
    # many-valued interval tables through Sofia (point-valued and proper intervals: both must pass)
    nmv = 120 if tier == 'quick' else 1500
    for i in range(nmv):
        data = _rand_interval_table(rng, proper=(i % 2 == 1))
        ps = [rng.choice(PS_NAMES) for _ in data[0]]
        for lmax in (1, 2, rng.randint(3, 8)):
            ms = rng.choice(THRESHOLDS)
            for log in (True, False):
                yield dict(stream='sofia-mv-proper' if is_proper(data) else 'sofia-mv-points', kind='sofia-mv',
                           data=data, ps=ps, lmax=lmax, ms=list(ms), log=log)
    # random forests on point-valued interval tables (must pass)
    nrf = 100 if tier == 'quick' else 700
    for i in range(nrf):
        data = _rand_interval_table(rng, proper=False, nmax=6)
        yield dict(stream='rf-points', kind='rf', data=data, ps=[rng.choice(PS_NAMES) for _ in data[0]],
                   y=_rand_target(rng, len(data)),
                   params=dict(n_estimators=rng.randint(1, 3), random_state=rng.randrange(10 ** 6),
                               max_depth=rng.choice([None, 1, 2, 3])))
    # fitted trees and forests: parse_decision_tree_to_extents
    ntree = 110 if tier == 'quick' else 640
    for i in range(ntree):
        n, d = rng.randint(2, 12), rng.randint(1, 4)
        X = [[rng.randrange(5) for _ in range(d)] for _ in range(n)]
        model = ('tree-clf', 'tree-reg', 'rf-clf', 'rf-reg')[i % 4]
        y = [rng.randrange(3) for _ in range(n)] if model.endswith('clf') else [rng.randrange(8) for _ in range(n)]
        params = dict(max_depth=rng.choice([None, 1, 2, 3, 4]), random_state=rng.randrange(10 ** 6))
        if model.startswith('rf'):
            params['n_estimators'] = rng.randint(1, 3)
        # n_jobs: the extents must not depend on the number of parallel jobs (every 4th forest / 8th tree with 2 jobs)
        yield dict(stream='trees', kind='tree', model=model, X=X, y=y, params=params,
                   n_jobs=2 if (i % 8 in (2, 3, 7)) else 1)
    # proper interval cells: own stream, LAST (known finding D19: node extents need not be closed; the runner stops
    # after 200 failing cases, so this stream is kept small and cannot cut off any other stream)
    nrp = 60 if tier == 'quick' else 240
    for i in range(nrp):
        data = _rand_interval_table(rng, proper=True, nmax=6)
        yield dict(stream='rf-proper', kind='rf', data=data, ps=[rng.choice(PS_NAMES) for _ in data[0]],
                   y=_rand_target(rng, len(data)),
                   params=dict(n_estimators=rng.randint(1, 3), random_state=rng.randrange(10 ** 6),
                               max_depth=rng.choice([None, 1, 2, 3])))


# ------------------------------------------------------------------------------------------------ implementation side
def _impl_sofia(c):
    from fcapy.algorithms.concept_construction import sofia
    from fcapy.lattice import ConceptLattice
    mv = c['kind'] == 'sofia-mv'
    K = make_mv(c['data'], c['ps']) if mv else make_context(c['rows'], c['be'])
    kw = dict(L_max=c['lmax'], min_supp=ms_value(c['ms']), use_log_stability_bound=c['log'])
    cs = sofia(K, **kw)
    out = dict(ok=[[canon_ext(x.extent_i), canon_pattern(x.intent_i) if mv else sorted(int(a) for a in x.intent_i)]
                   for x in cs])
    if mv:
        out['mv_genuine'] = [canon_ext(K.extension_i(x.intent_i)) == canon_ext(x.extent_i)
                             and canon_pattern(K.intention_i(list(x.extent_i))) == canon_pattern(x.intent_i) for x in cs]
        out['bin'] = [[int(bool(e[g])) for _, e in K.to_bin_attr_extents()] for g in range(K.n_objects)]
        out['n_bin_attrs'] = int(K.n_bin_attrs)
    if not c.get('lat', True):
        out['lattice'] = dict(skipped=True)
        return out
    try:
        L = ConceptLattice.from_context(K, algo='Sofia', **kw)
        exts = sorted(canon_ext(x.extent_i) for x in L)
        out['lattice'] = dict(n=len(L), top=canon_ext(L[L.top].extent_i), bottom=canon_ext(L[L.bottom].extent_i),
                              same=exts == sorted(e for e, _ in out['ok']))
    except Exception as e:
        out['lattice'] = dict(err=exc_name(e), msg=str(e)[:200])
    return out


def _impl_rf(c):
    from fcapy.algorithms.concept_construction import random_forest_concepts
    from fcapy.lattice import ConceptLattice
    K = make_mv(c['data'], c['ps'], c['y'])
    cs = random_forest_concepts(K, rf_params=dict(c['params']))
    out = dict(ok=[[canon_ext(x.extent_i), canon_pattern(x.intent_i)] for x in cs])
    out['intent_ok'] = [canon_pattern(K.intention_i(list(x.extent_i))) == canon_pattern(x.intent_i) for x in cs]
    out['mv_closed'] = [canon_ext(K.extension_i(x.intent_i)) == canon_ext(x.extent_i) for x in cs]
    try:
        L = ConceptLattice.from_context(K, algo='RandomForest', rf_params=dict(c['params']))
        out['lattice'] = dict(n=len(L))
    except Exception as e:
        out['lattice'] = dict(err=exc_name(e))
    return out


def _impl_tree(c):
    from fcapy.algorithms.concept_construction import parse_decision_tree_to_extents
    mdl, X = fit_model(c)
    import warnings
    with warnings.catch_warnings():
        warnings.simplefilter('ignore')    # joblib inside a worker process falls back to sequential execution (and says so)
        exts = parse_decision_tree_to_extents(mdl, X, n_jobs=int(c.get('n_jobs', 1)))
    return dict(ok=[canon_ext(e) for e in exts], types=sorted({type(e).__name__ for e in exts}))


def impl(c):
    try:
        if c['kind'] in ('sofia', 'sofia-mv'):
            return _impl_sofia(c)
        if c['kind'] == 'rf':
            return _impl_rf(c)
        return _impl_tree(c)
    except Exception as e:
        return {'err': exc_name(e), 'msg': str(e)[:300]}


# ------------------------------------------------------------------------------------------------ Lean side
def requests(c, io):
    out = io.get('ok', []) if isinstance(io, dict) else []
    if c['kind'] == 'sofia':
        return [dict(op='C15.sofia', be=SHORT[c['be']], rows=c['rows'], w=len(c['rows'][0]), lmax=c['lmax'],
                     p=c['ms'][0], q=c['ms'][1], log=c['log'], out=out)]
    if c['kind'] == 'sofia-mv':
        rows = binarise(c['data'])
        return [dict(op='C15.sofia', be='bitarray', rows=rows, w=len(rows[0]), lmax=c['lmax'],
                     p=c['ms'][0], q=c['ms'][1], log=c['log'], out=[[e, None] for e, _ in out])]
    if c['kind'] == 'rf':
        import numpy as np
        from sklearn.ensemble import RandomForestRegressor, RandomForestClassifier
        rows = binarise(c['data'])
        # the same forest, fitted independently of fcapy (deterministic: fixed random_state)
        X = np.array([[v for cell in row for v in cell] for row in c['data']], dtype=float)
        cls = RandomForestClassifier if len(set(c['y'])) == 2 else RandomForestRegressor
        rf = cls(**c['params'])
        rf.fit(X, c['y'])
        M = dense_paths(rf, X)
        return [dict(op='C15.rf', be='bitarray', rows=rows, w=len(rows[0]), M=M, mw=len(M[0]),
                     out=[[e, None] for e, _ in out])]
    mdl, X = fit_model(c)
    M = dense_paths(mdl, X)
    return [dict(op='C15.tree', M=M, mw=len(M[0]))]


def _fail(kind, detail, **kw):
    d = dict(ok=False, kind=kind, detail=detail)
    d.update(kw)
    return d


def judge(c, io, rep):
    r = rep[0]
    if 'err' in io:
        return _fail('property', f"{c['kind']} raised {io['err']}: {io.get('msg')}", tags=['raised:' + io['err']])
    if c['kind'] in ('sofia', 'sofia-mv'):
        if not float_threshold_ok(c['ms'], len(c['rows'] if c['kind'] == 'sofia' else c['data'])):
            return _fail('harness', 'float threshold and rational threshold separate counts differently (generator bug)')
        if r['model_fails']:
            return _fail('harness', f"Lean model output fails the checker: {r['model_fails']} (contradicts Fca.C15 theorems)")
        tags = list(r['impl_fails'])
        if c['kind'] == 'sofia-mv' and not all(io['mv_genuine']):
            tags.append('mv-not-genuine')
        if 'err' in io['lattice']:
            tags.append('lattice-rejected:' + io['lattice']['err'])
        elif not io['lattice'].get('skipped') and (
                not io['lattice']['same'] or io['lattice']['top'] != list(range(len(c.get('rows') or c['data'])))):
            tags.append('lattice-differs')
        if tags:
            return _fail('property', f"sofia output {io['ok']} violates: {tags}; lattice={io['lattice']}", tags=tags)
        # ---- correspondence (model vs implementation) ----
        iexts = [e for e, _ in io['ok']]
        if c['kind'] == 'sofia-mv' and io['bin'] != binarise(c['data']):
            return _fail('correspondence', f"to_bin_attr_extents {io['bin']} differs from the independent binarisation "
                                           f"{binarise(c['data'])}", tags=['binarisation'])
        if c['kind'] == 'sofia-mv' and io['n_bin_attrs'] != len(io['bin'][0]):
            return _fail('correspondence', f"n_bin_attrs {io['n_bin_attrs']} != number of yielded binary attributes "
                                           f"{len(io['bin'][0])}", tags=['n_bin_attrs'])
        counts = [len(e) for e in iexts]
        if counts != sorted(counts) or any(not set(iexts[0]) <= set(e) for e in iexts):
            return _fail('correspondence', f'output not sorted by support / first not least: {iexts}', tags=['order'])
        if 'err' in r['model']:
            return _fail('harness', f"model raised {r['model']}")
        mexts = [e for e, _ in r['model']]
        same = sorted(mexts) == sorted(iexts)
        if c['kind'] == 'sofia' and same and sorted(map(tuple, map(lambda x: (tuple(x[0]), tuple(x[1])), r['model']))) != \
                sorted((tuple(e), tuple(i)) for e, i in io['ok']):
            return _fail('correspondence', f"intents differ: model {r['model']} impl {io['ok']}", tags=['intent'])
        if not same and (c['log'] or r['never_binds']):
            return _fail('correspondence', f"model extents {mexts} != implementation extents {iexts} although the result "
                                           f"is tie-independent here", tags=['model-differs'])
        return dict(ok=True, diag=None if same else 'stab-bound-prune-differs')
    if c['kind'] == 'rf':
        tags = list(r['impl_fails'])
        if not all(io['intent_ok']):
            tags.append('intent-not-prime')
        if tags:
            return _fail('property', f"random_forest_concepts returned non-genuine concepts {tags}: "
                                     f"non-closed (extent, closure) = {r['nonclosed']}", tags=tags)
        if not all(io['mv_closed']):
            return _fail('harness', 'MVContext closure and binarised closure disagree (C14 territory)')
        iexts = sorted(e for e, _ in io['ok'])
        mexts = sorted(e for e, _ in r['model'])
        if iexts != mexts:
            return _fail('correspondence', f'model extents {mexts} != implementation extents {iexts}', tags=['model-differs'])
        if 'err' in io['lattice']:
            return _fail('correspondence', f"ConceptLattice.from_context(algo=RandomForest) raised {io['lattice']}",
                         tags=['lattice'])
        return dict(ok=True)
    # tree
    want = sorted(r['exts'])
    got = io['ok']
    if len(got) != len({tuple(e) for e in got}):
        return _fail('property', f'parse_decision_tree_to_extents returned duplicates: {got}', tags=['tree-duplicates'])
    if sorted(got) != want:
        return _fail('property', f'parse_decision_tree_to_extents {sorted(got)} != distinct node row sets {want}',
                     tags=['tree-extents'])
    if io['types'] not in (['tuple'], []):
        return _fail('correspondence', f"extent types {io['types']}", tags=['tree-types'])
    return dict(ok=True)


def nontrivial(c):
    if c['kind'] == 'sofia':
        return G.is_mixed(c['rows'])
    if c['kind'] in ('sofia-mv', 'rf'):
        return len({tuple(map(tuple, row)) for row in c['data']}) > 1
    return len({tuple(r) for r in c['X']}) > 1


def key(c):
    return {k: v for k, v in c.items() if k != 'stream'}


def branch(c, io, rep):
    out = [c['stream'], c['kind']]
    r = rep[0] if rep else {}
    if c['kind'] in ('sofia', 'sofia-mv'):
        out.append(('log' if c['log'] else 'stab') + (':never-binds' if r.get('never_binds') else ':binds'))
        out.append('lattice-built' if 'n' in io.get('lattice', {}) else 'lattice-not-built')
        if c['kind'] == 'sofia':
            out.append(c['be'])
        if 'ok' in io and 'model' in r and 'err' not in r['model']:
            same = sorted(e for e, _ in r['model']) == sorted(e for e, _ in io['ok'])
            out.append('model==impl' if same else 'model!=impl(tie-dependent stab bound)')
            out.append('n_out=%d' % min(len(io['ok']), 9))
    elif c['kind'] == 'rf':
        out.append('proper' if is_proper(c['data']) else 'points')
        out.append('nonclosed' if r.get('nonclosed') else 'closed')
    else:
        out.append(c['model'])
    out.append('err' if 'err' in io else 'ok')
    return out


def signature(c, io, rep, v):
    tags = sorted(v.get('tags') or [])
    if (c['kind'] == 'rf' and is_proper(c['data']) and v.get('kind') == 'property' and tags == ['not-closed']):
        return 'C15:rf-nonclosed-extent-proper-intervals'
    return f"C15:{c['kind']}:{v.get('kind')}:{'+'.join(tags) or 'other'}"


def shrink(c):
    if c['kind'] == 'sofia':
        yield from G.shrink_table_case(c)
        if c['lmax'] > 1:
            yield dict(c, lmax=c['lmax'] - 1)
        if c['ms'] != [0, 1]:
            yield dict(c, ms=[0, 1])
        return
    if c['kind'] in ('sofia-mv', 'rf'):
        data = c['data']
        n, k = len(data), len(data[0])
        if n > 2:
            for i in range(n):
                d = dict(c, data=data[:i] + data[i + 1:])
                if 'y' in c:
                    d['y'] = c['y'][:i] + c['y'][i + 1:]
                yield d
        if k > 1:
            for j in range(k):
                yield dict(c, data=[row[:j] + row[j + 1:] for row in data], ps=c['ps'][:j] + c['ps'][j + 1:])
        if c['kind'] == 'rf':
            p = c['params']
            if p.get('n_estimators', 1) > 1:
                yield dict(c, params=dict(p, n_estimators=1))
            if p.get('max_depth') is None or p['max_depth'] > 1:
                yield dict(c, params=dict(p, max_depth=1))
        elif c['lmax'] > 1:
            yield dict(c, lmax=c['lmax'] - 1)
        for i in range(n):
            for j in range(k):
                a, b = data[i][j]
                if a != b:
                    d2 = [[list(cell) for cell in row] for row in data]
                    d2[i][j] = [a, a]
                    yield dict(c, data=d2)
        return
    X = c['X']
    if len(X) > 2:
        for i in range(len(X)):
            yield dict(c, X=X[:i] + X[i + 1:], y=c['y'][:i] + c['y'][i + 1:])
    if len(X[0]) > 1:
        for j in range(len(X[0])):
            yield dict(c, X=[r[:j] + r[j + 1:] for r in X])

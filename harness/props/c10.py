"""C10 — set algebra on posets yields correct posets whatever the operands have cached."""
import functools
import itertools
import operator
import random

from props.c09 import LEQ, REL, apply_op, dump_state, covers, next_elems

ORDER_NOTE = ('streams run in the order: corpus, the small targeted streams (exhaustive-order/-grown/-nested/-desc/-cfg/-cd), '
              'seeded random + different-leq_func cases, the big product stream (exhaustive)')
RULE = ('case = (order in {subset of a bit set, divisibility}, two operand posets (element list, cache on/off, with/without '
        'a correct children_dict, warm-up query history), operator in {&,|,^,-}); both real POSets are built, the warm-up '
        'histories are run, the operator is applied (twice: the two results are observed in two different query orders), '
        'and on the result EVERY order query is asked: all leq pairs incl. reflexive, descendants/ancestors/children/'
        'parents of every index, tops, bottoms, join([]), meet([]), join/meet of selections - and compared with the Lean '
        'Fresh value over the combined elements; the result\'s element list is compared with the set-theoretic '
        'combination in first-then-second order; afterwards both operands are observed completely (element list, every '
        'query, private caches) and compared with what they were before; non-trivial = both operands cache, at least '
        'one warm-up query was made, the result has two comparable elements; distinct = distinct case')
_SCOPE = ('operand element lists: subsets of the 8 subsets of a 3-set listed ascending (second operand also descending '
          'where stated); pairs (A,B) up to simultaneous permutation of the 3 atoms; warm-up alphabet on an operand '
          'with n elements: leq(i,j) all n^2 pairs, descendants/ancestors/children/parents(i) all i, fill_up_caches; '
          'histories on one operand that reach the same private cache state of the real POSet are represented once '
          '(the operators read nothing but that state); 4 operators; ')
EXHAUSTIVE = {
    'quick': _SCOPE + 'both operands caching, all pairs with |A|,|B| <= 3: (i) |A|+|B| <= 2 or one operand empty: all '
             'joint warm-ups with <= 2 operations on each operand; (ii) |A|+|B| = 3: <= 1 operation on each operand, or '
             '<= 2 on one operand while the other is cold or completely filled; (iii) sizes (2,2): <= 1 on each, or <= 2 '
             'on one while the other is cold; (iv) larger pairs: <= 1 operation (a relation query or fill_up_caches) on '
             'one operand while the other is cold or completely filled (both ways round). Every pair with |A|,|B| <= 2 '
             'also with B listed descending (as iv), with cache off on A, on B, on both (<= 1 operation on the caching '
             'operand), and with a children_dict on A, on B, on both (<= 1 operation on one operand, the other cold or '
             'filled). exhaustive-order: every pair with |A|,|B| <= 3 with B in every non-ascending order, operands '
             'cold/cold and filled/filled. exhaustive-grown: one or both operands built by add(e, fill_up_cache=True) (from the empty poset, or '
             'the last element added), the other cold or filled, for |A|+|B| <= 4; larger pairs: grown-from-empty against '
             'filled (both ways) and against grown-from-empty. '
             'exhaustive-nested: N = X|Y or X&Y (|X|,|Y| <= 2, both filled) against a plain poset P (cold or filled) whose '
             'element list equals N\'s or extends it by one element, P op N and N op P',
    'thorough': _SCOPE + 'both operands caching, all pairs with |A|,|B| <= 3: |A|+|B| <= 3: <= 3 operations on each '
                'operand; |A|+|B| = 4: <= 2 on each; larger: <= 1 on each, or <= 2 on one operand while the other is cold '
                'or completely filled. Pairs with an operand of 4 elements and |A|+|B| <= 6: <= 1 operation on one operand '
                'while the other is cold or completely filled. Every pair with |A|,|B| <= 3 also with B descending '
                '(<= 1 operation on each for |A|+|B| <= 4, else one operand cold or filled), with cache off on A, on B, '
                'on both, and with a children_dict on A, on B, on both (<= 1 operation on each); exhaustive-order as in quick; '
                'exhaustive-grown with all variants for |A|+|B| <= 6; exhaustive-nested with all four inner operators and |X|,|Y| <= 3',
}
EXPLANATION = ('the result of an operator is pinned uniquely (element list = combination in order; every order query = '
               'Fresh over those elements), so implementation != Fresh is a property failure. Lean: Fca.C10.combine_elements '
               '(elements), combine_inv (every cache entry of the result is the Fresh value when the operands satisfy the '
               'C09 invariant, for all four cache-flag combinations), combine_history_independent (hence every later '
               'history of queries and mutations on the result answers as Fresh, by Fca.C09.history_independent; FULL), '
               'combine_returns (no exception), operands_unchanged. The driver also runs the verified checker invCheck on both '
               'operand states after the warm-up (certifying the hypothesis Inv a, Inv b, also for children_dict starts) '
               'and on the result. Comparison of the result\'s private caches with the model state is diagnostic only '
               '(histogram keys state:*)')
ASSUMPTIONS = ['operand elements pairwise distinct and hashable; leq_func is a partial order on all elements used and '
               'returns a Python bool (the type sniffing of _combine_caches raises TypeError otherwise)',
               'warm-up histories consist of in-range queries and fill_up_caches only (mutations of an operand before '
               'the operator are C09\'s subject: whatever state satisfies the C09 invariant is covered by the theorem)',
               'a children_dict passed to an operand\'s constructor is the true cover relation of its elements',
               '"same comparison" = the same function object (the operators assert identity of leq_func)']
TRUSTED = ['set/dict iteration orders inside _combine_caches are not modelled as parameters: no observable of the result '
           'depends on them (theorem combine_inv holds for the representative the model picks; the later queries '
           'quantify over the set-iteration order as in C09)',
           'the "before" answers of an operand are taken from an uncached real POSet over the same elements (equal to '
           'the operand\'s own answers by C09); on a mismatch the operand is rebuilt without applying the operator to '
           'tell an impure operator from a C09 failure']
CHUNK = 1000

OPER = {'and': operator.and_, 'or': operator.or_, 'xor': operator.xor, 'sub': operator.sub}
_LEQ_OTHER = {'subset': (lambda a, b: a & b == a), 'divides': (lambda a, b: a != 0 and b % a == 0)}


# ------------------------------------------------------------------------------------------ helpers
def spec_elems(oper, A, B):
    """the set-theoretic combination, each once, first operand's elements (in its order) then the second's"""
    sa, sb = set(A), set(B)
    want = {'and': sa & sb, 'or': sa | sb, 'xor': sa ^ sb, 'sub': sa - sb}[oper]
    out = [x for x in A if x in want]
    out += [x for x in B if x in want and x not in sa]
    return out


def final_elems(spec):
    """the element list of an operand after its construction (plain, or the result of an operator on two plain
    posets) and its own history (which may contain add/del/remove)"""
    if spec.get('combine'):
        cb = spec['combine']
        E = spec_elems(cb['oper'], final_elems(cb['a']), final_elems(cb['b']))
    else:
        E = list(spec['elems'])
    for op in spec['ops']:
        E = next_elems(E, op)
    return E


def uses_cache(spec):
    return bool(spec['combine']['a']['use_cache']) if spec.get('combine') else bool(spec['use_cache'])


def post_ops(n, sels):
    fwd = [['leq', i, j] for i in range(n) for j in range(n)]
    rel = [[r, i] for i in range(n) for r in REL]
    ext = [['tops'], ['bottoms'], ['join', []], ['meet', []]]
    bnd = []
    for s in sels:
        if all(x < n for x in s):
            bnd += [['join', list(s)], ['meet', list(s)]]
    post = fwd + rel + ext + bnd
    post2 = rel[::-1] + ext[:2] + fwd[::-1]
    return post, post2


def full_ops(n):
    return [['leq', i, j] for i in range(n) for j in range(n)] + [[r, i] for i in range(n) for r in REL] + \
           [['tops'], ['bottoms']] + ([['join', []], ['meet', []]] if n else [])


def case_sels(c, n):
    if 'sels' in c:
        return c['sels']
    return [[i, j] for i in range(n) for j in range(i + 1, n)]


# ------------------------------------------------------------------------------------------ implementation side
def ask(P, op):
    """one order query on a real POSet, canonicalised as props.c09.apply_op does"""
    nm = op[0]
    try:
        if nm == 'leq':
            return bool(P.leq_elements(op[1], op[2]))
        if nm in ('tops', 'bottoms'):
            return {'l': [int(v) for v in getattr(P, nm)]}
        if nm in ('join', 'meet'):
            r = getattr(P, nm)(list(op[1]))
            return {'o': None if r is None else int(r)}
        if nm in REL:
            return sorted(int(v) for v in getattr(P, nm)(op[1]))
    except (IndexError, KeyError, ValueError, TypeError, AssertionError) as e:
        return {'err': type(e).__name__}
    return apply_op(P, op, None, None)


def _build(order, spec, leqf):
    from fcapy.poset import POSet
    if spec.get('combine'):
        cb = spec['combine']
        PA, _ = _build(order, cb['a'], leqf)
        PB, _ = _build(order, cb['b'], leqf)
        P = OPER[cb['oper']](PA, PB)
    else:
        E = list(spec['elems'])
        if spec['use_cache'] and spec.get('cd'):
            cd = {k: frozenset(v) for k, v in covers(order, E)}
            P = POSet(E, leqf, use_cache=True, children_dict=cd)
        else:
            P = POSet(E, leqf, use_cache=bool(spec['use_cache']))
    outs = [ask(P, op) for op in spec['ops']]
    return P, outs


@functools.lru_cache(maxsize=4096)
def _fresh_obs(order, E):
    from fcapy.poset import POSet
    P = POSet(list(E), LEQ[order], use_cache=False)
    return [ask(P, o) for o in full_ops(len(E))]


def _apply(oper, A, B):
    try:
        return OPER[oper](A, B), None
    except Exception as e:     # any exception of an operator is an outcome
        return None, type(e).__name__


def impl(c):
    order, oper = c['order'], c['oper']
    leqa = LEQ[order]
    leqb = leqa if c.get('same_leq', True) else _LEQ_OTHER[order]
    out = {}
    ops_ = {}
    for nm, leqf in (('a', leqa), ('b', leqb)):
        try:
            P, outs = _build(order, c[nm], leqf)
        except Exception as e:
            out[nm] = {'init_err': type(e).__name__}
            continue
        ops_[nm] = P
        out[nm] = {'outs': outs}
        if c.get('state'):
            out[nm]['state'] = dump_state(P)
    if len(ops_) < 2:
        return out
    A, B = ops_['a'], ops_['b']
    before = {nm: (list(P._elements), dump_state(P)) for nm, P in ops_.items()}
    R, err = _apply(oper, A, B)
    if err is not None:
        out['res'] = {'err': err}
    else:
        elems = list(R.elements)
        n = len(elems)
        post, post2 = post_ops(n, case_sels(c, n))
        res = {'elems': [int(x) for x in elems], 'use_cache': bool(getattr(R, '_use_cache', False)),
               'len': len(R), 'index_ok': all(R.index(e) == i for i, e in enumerate(elems)) if len(set(elems)) == n else None}
        if c.get('state'):
            res['state'] = dump_state(R)
        res['post'] = [ask(R, o) for o in post]
        R2, err2 = _apply(oper, A, B)
        if err2 is not None:
            res['post2'] = {'err': err2}
        else:
            res['elems2'] = [int(x) for x in R2.elements]
            res['post2'] = [ask(R2, o) for o in post2]
        out['res'] = res
    # purity: after the operator (and after all queries on the results) the operands are what they were
    pure = {}
    for nm, P in ops_.items():
        el0, st0 = before[nm]
        d = {'elems_same': list(P._elements) == el0, 'state_same': dump_state(P) == st0,
             'map_same': getattr(P, '_elements_to_index_map', None) == {e: i for i, e in enumerate(el0)}
             if len(set(el0)) == len(el0) else True}
        obs = [ask(P, o) for o in full_ops(len(P))]
        want = _fresh_obs(order, tuple(el0))
        d['obs_same'] = obs == want
        if not d['obs_same']:
            # slow path: would the operand, left alone, have answered like this anyway? (then it is not the operator)
            Q, _ = _build(order, c[nm], leqa if nm == 'a' else leqb)
            alone = [ask(Q, o) for o in full_ops(len(Q))]
            d['obs_same'] = obs == alone
            d['c09_suspect'] = alone != want
            if not d['obs_same']:
                bad = [(o, x, y) for o, x, y in zip(full_ops(len(el0)), obs, alone) if x != y][:3]
                d['diff'] = '; '.join(f'{o}: after {x} before {y}' for o, x, y in bad)
        pure[nm] = d
    out['pure'] = pure
    return out


# ------------------------------------------------------------------------------------------ Lean side
def _operand_req(order, spec, st=None):
    if spec.get('combine'):
        cb = spec['combine']
        d = dict(combine=dict(oper=cb['oper'], a=_operand_req(order, cb['a']), b=_operand_req(order, cb['b'])),
                 ops=spec['ops'])
    else:
        cd = covers(order, spec['elems']) if (spec['use_cache'] and spec.get('cd')) else None
        d = dict(elems=spec['elems'], use_cache=bool(spec['use_cache']), children_dict=cd, ops=spec['ops'])
    if st is not None:
        d['caches'] = {k: st[k] for k in ('leq', 'desc', 'anc', 'chil', 'par')}
    return d


REQUESTS_NEED_IMPL = True


def requests(c, io=None):
    n = len(spec_elems(c['oper'], final_elems(c['a']), final_elems(c['b'])))
    post, post2 = post_ops(n, case_sels(c, n))
    return [dict(op='C10.run', order=c['order'], oper=c['oper'], same_leq=bool(c.get('same_leq', True)),
                 a=_operand_req(c['order'], c['a'], _impl_state(c, io, 'a')),
                 b=_operand_req(c['order'], c['b'], _impl_state(c, io, 'b')),
                 post=post, post2=post2, state=bool(c.get('state')))]


def _impl_state(c, io, nm):
    """diagnostic mode (cases with state=True): hand the real operand's private caches to the model, so that the
    operator is applied to the same state on both sides; only if the warm-up answers already agree with Fresh
    (otherwise the plain comparison reports the divergence)"""
    if not c.get('state') or not isinstance(io, dict):
        return None
    st = (io.get(nm) or {}).get('state')
    return st if st and st.get('elems') == final_elems(c[nm]) else None


def _cfg(c):
    return ('c' if uses_cache(c['a']) else 'n') + ('c' if uses_cache(c['b']) else 'n')


def _diff(ops, xs, ys, k=4):
    bad = [(o, a, b) for o, a, b in zip(ops, xs, ys) if a != b][:k]
    return '; '.join(f'{o}: impl {a} fresh {b}' for o, a, b in bad)


def _verdict(c, io, rep):
    """None or (kind, where, detail)"""
    r = rep[0]
    oper = c['oper']
    for nm in ('a', 'b'):
        mi, ii = r[nm], io[nm]
        if 'init_err' in mi or 'init_err' in ii:
            if mi.get('init_err') != ii.get('init_err'):
                return ('correspondence', 'init', f'constructor of operand {nm}: impl {ii} model {mi}')
            return None
        if ii['outs'] != mi['outs']:
            return ('correspondence', 'warmup', f'warm-up of operand {nm}: impl {ii["outs"]} model {mi["outs"]}')
        if not mi['inv']:
            return ('harness', 'operand-inv', f'operand {nm}: the model state after the warm-up fails invCheck '
                                              f'(hypothesis of combine_inv not certified)')
    mr, ir = r['res'], io['res']
    same = c.get('same_leq', True)
    if not same:
        # outside the property (different comparison): only model = implementation (AssertionError)
        if mr.get('err') != ir.get('err') or 'err' not in mr:
            return ('correspondence', 'assert', f'{oper} with a different leq_func: impl {ir.get("err")} model {mr.get("err")}')
        return None
    EA, EB = final_elems(c['a']), final_elems(c['b'])
    want = spec_elems(oper, EA, EB)
    if 'err' in ir:
        return ('property', 'result', f'{oper} raised {ir["err"]} (operands {EA} cache={uses_cache(c["a"])}, '
                                      f'{EB} cache={uses_cache(c["b"])}); the property demands the poset over {want}'
                                      + (f'; the model of the code raises {mr["err"]} too' if 'err' in mr else
                                         '; the model returns normally'))
    if ir['elems'] != want:
        return ('property', 'elements', f'{oper}: elements {ir["elems"]}, the combination in first-then-second order is {want}')
    if ir['len'] != len(want) or ir['index_ok'] is False:
        return ('property', 'elements', f'{oper}: len()/index() of the result disagree with its element list')
    if ir.get('elems2') != want:
        return ('property', 'elements', f'{oper} applied a second time: {ir.get("elems2")} / {ir.get("post2")}')
    if 'err' in mr:
        return ('correspondence', 'result', f'{oper}: the model raises {mr["err"]}, the implementation returns normally')
    if mr['elems'] != want:
        return ('harness', 'elements', f'model elements {mr["elems"]} != combination {want} (contradicts combine_elements)')
    if not mr['inv']:
        return ('harness', 'result-inv', 'the model result fails invCheck (contradicts combine_inv)')
    if not mr['post_ok']:
        return ('harness', 'post', 'post queries out of range')
    if not mr['model_eq']:
        return ('harness', 'post', 'model answers != Fresh on the result (contradicts combine_history_independent)')
    n = len(want)
    post, post2 = post_ops(n, case_sels(c, n))
    if ir['post'] != mr['fresh']:
        return ('property', 'query', f'{oper}: result over {want} answers differently from a fresh poset: '
                + _diff(post, ir['post'], mr['fresh']))
    if ir['post2'] != mr['fresh2']:
        return ('property', 'query2', f'{oper}: result over {want} (relations queried first) answers differently from a '
                                      f'fresh poset: ' + _diff(post2, ir['post2'], mr['fresh2']))
    if ir['use_cache'] != mr['use_cache']:
        return ('correspondence', 'flag', f'use_cache of the result: impl {ir["use_cache"]} model {mr["use_cache"]}')
    for nm in ('a', 'b'):
        p = io['pure'][nm]
        if not p['elems_same'] or not p['map_same']:
            return ('property', 'purity-elements', f'{oper} changed the element list / index map of operand {nm}')
        if not p['obs_same']:
            return ('property', 'purity-answers', f'after {oper} (and queries on the result) operand {nm} answers '
                                                  f'differently than before: {p.get("diff")}')
        if p.get('c09_suspect'):
            return ('correspondence', 'operand-c09', f'operand {nm} does not answer as a fresh poset even without the '
                                                     f'operator (a C09 matter)')
    return None


def judge(c, io, rep):
    v = _verdict(c, io, rep)
    if v is None:
        return dict(ok=True)
    return dict(ok=False, kind=v[0], where=v[1], detail=v[2])


def nontrivial(c):
    if not (uses_cache(c['a']) and uses_cache(c['b'])):
        return False
    if not (c['a']['ops'] or c['b']['ops'] or c['a'].get('combine') or c['b'].get('combine')):
        return False
    leq = LEQ[c['order']]
    E = spec_elems(c['oper'], final_elems(c['a']), final_elems(c['b']))
    return any(i != j and leq(E[i], E[j]) for i in range(len(E)) for j in range(len(E)))


def _okey(sp):
    if sp.get('combine'):
        return ['combine', sp['combine']['oper'], _okey(sp['combine']['a']), _okey(sp['combine']['b']), sp['ops']]
    return [sp['elems'], bool(sp['use_cache']), bool(sp.get('cd')), sp['ops']]


def key(c):
    return [c['order'], c['oper'], bool(c.get('same_leq', True)), _okey(c['a']), _okey(c['b'])]


def branch(c, io, rep):
    out = [c['stream'], 'oper:' + c['oper'], 'cfg:' + _cfg(c) + (':cd' if c['a'].get('cd') or c['b'].get('cd') else '')]
    for k in ('a', 'b'):
        if c[k].get('combine'):
            out.append('operand-is-result:' + k)
        if any(o[0] == 'add' for o in c[k]['ops']):
            out.append('operand-grown-by-add:' + k)
    out.append('warm:%s+%s' % tuple(str(len(c[k]['ops'])) if len(c[k]['ops']) < 3 else '3..' for k in ('a', 'b')))
    r = rep[0] if rep else {}
    ir, mr = io.get('res', {}), r.get('res', {})
    if 'err' in ir:
        out.append('err:' + ir['err'])
    if 'elems' in ir:
        out.append('result-size:%d' % min(len(ir['elems']), 9))
    if 'state' in ir and 'state' in mr and ir['state'] is not None:
        diff = [f for f in ('leq', 'desc', 'anc', 'chil', 'par') if ir['state'][f] != mr['state'][f]]
        out.append('state:equal' if not diff else 'state:differ:' + '+'.join(diff))
        for f in ('desc', 'anc', 'chil', 'par'):
            if ir['state'][f]:
                out.append('result-has:' + f)
    pu = io.get('pure')
    if pu and not all(pu[k]['state_same'] for k in pu):
        out.append('operand-cache-touched')       # diagnostic: the operator (or a result query) wrote into an operand's cache
    return out


def signature(c, io, rep, v):
    sym = 'wrong'
    ir = io.get('res', {}) if isinstance(io, dict) else {}
    if 'err' in ir:
        sym = 'err:' + ir['err']
    return f"C10:{v.get('kind')}:{v.get('where')}:{sym}:{_cfg(c)}"


def _drop_elem(spec, i):
    E = spec['elems']

    def fix(op):
        nm = op[0]
        if nm == 'leq':
            if op[1] == i or op[2] == i:
                return None
            return ['leq', op[1] - (op[1] > i), op[2] - (op[2] > i)]
        if nm in REL:
            if op[1] == i:
                return None
            return [nm, op[1] - (op[1] > i)]
        return op
    d = dict(spec)
    d['elems'] = E[:i] + E[i + 1:]
    d['ops'] = [o for o in (fix(o) for o in spec['ops']) if o is not None]
    return d


def shrink(c):
    for nm in ('a', 'b'):
        ops = c[nm]['ops']
        for i in range(len(ops)):
            d = dict(c)
            d.pop('sels', None)
            d[nm] = dict(c[nm], ops=ops[:i] + ops[i + 1:])
            yield d
    for nm in ('a', 'b'):
        if c[nm].get('combine'):
            # an operand that is itself a result: try the plain, completely filled poset over the same elements
            d = dict(c)
            d.pop('sels', None)
            d[nm] = dict(elems=final_elems(dict(c[nm], ops=[])), use_cache=uses_cache(c[nm]), cd=False,
                         ops=[['fill', 'all']] if uses_cache(c[nm]) else [])
            yield d
            continue
        if any(o[0] in ('add', 'del', 'remove') for o in c[nm]['ops']):
            continue
        for i in range(len(c[nm]['elems'])):
            d = dict(c)
            d.pop('sels', None)
            d[nm] = _drop_elem(c[nm], i)
            yield d
    for nm in ('a', 'b'):
        if c[nm].get('combine'):
            continue
        if c[nm].get('cd'):
            d = dict(c)
            d[nm] = dict(c[nm], cd=False)
            yield d
        for i, o in enumerate(c[nm]['ops']):
            if o[0] == 'fill' and o[1] == 'all':
                for k in ('leq', 'desc', 'anc', 'chil', 'par'):
                    d = dict(c)
                    d[nm] = dict(c[nm], ops=c[nm]['ops'][:i] + [['fill', k]] + c[nm]['ops'][i + 1:])
                    yield d


# ------------------------------------------------------------------------------------------ generators
U3 = list(range(8))


def _perm_mask(m, p):
    return sum(((m >> b) & 1) << p[b] for b in range(3))


def pair_orbits(ka, kb, pred=None):
    """pairs (A, B) of sets of 3-bit masks with |A| <= ka, |B| <= kb, one per orbit of the atom permutations"""
    perms = list(itertools.permutations(range(3)))
    sets = [s for k in range(max(ka, kb) + 1) for s in itertools.combinations(U3, k)]
    seen = set()
    for A in sets:
        if len(A) > ka:
            continue
        for B in sets:
            if len(B) > kb or (pred and not pred(A, B)):
                continue
            if (A, B) in seen:
                continue
            for p in perms:
                seen.add((tuple(sorted(_perm_mask(m, p) for m in A)), tuple(sorted(_perm_mask(m, p) for m in B))))
            yield list(A), list(B)


def alphabet(n, use_cache):
    qs = [['leq', i, j] for i in range(n) for j in range(n)]
    for i in range(n):
        qs += [[r, i] for r in REL]
    if use_cache:
        qs.append(['fill', 'all'])
    return qs


@functools.lru_cache(maxsize=None)
def _reps(order, E, use_cache, cd, L):
    """representative warm-up histories of length <= L on the operand: one per private cache state reached
    (real POSet; shortest, then first in alphabet order)"""
    from fcapy.poset import POSet
    E = list(E)
    alpha = alphabet(len(E), use_cache)
    seen, out = {}, []
    for l in range(L + 1):
        for h in itertools.product(alpha, repeat=l):
            spec = dict(elems=E, use_cache=use_cache, cd=cd, ops=[list(o) for o in h])
            P, _ = _build(order, spec, LEQ[order])
            st = repr(dump_state(P))
            if st in seen:
                continue
            seen[st] = True
            out.append((l, spec['ops']))
    return out


def _case(stream, oper, A, B, ha, hb, ca=True, cb=True, cda=False, cdb=False, order='subset', **kw):
    return dict(stream=stream, order=order, oper=oper,
                a=dict(elems=list(A), use_cache=ca, cd=cda, ops=ha),
                b=dict(elems=list(B), use_cache=cb, cd=cdb, ops=hb), **kw)


def _joint(stream, A, B, La, Lb, Lsum=None, ca=True, cb=True, cda=False, cdb=False, only=None):
    ra = _reps('subset', tuple(A), ca, cda, La)
    rb = _reps('subset', tuple(B), cb, cdb, Lb)
    for la, ha in ra:
        for lb, hb in rb:
            if Lsum is not None and la + lb > Lsum:
                continue
            if only is not None and not only(la, ha, lb, hb):
                continue
            for oper in OPER:
                yield _case(stream, oper, A, B, ha, hb, ca, cb, cda, cdb)


def _grown(E, k):
    """operand over E built as POSet(E[:k]) followed by add(e, fill_up_cache=True) of the rest: its cached values
    are mutable sets"""
    return dict(elems=list(E[:k]), use_cache=True, cd=False, ops=[['add', e, True] for e in E[k:]])


def _plain(E, filled, use_cache=True):
    return dict(elems=list(E), use_cache=use_cache, cd=False, ops=[['fill', 'all']] if filled and use_cache else [])


def _grown_stream(kmax, smax, full_upto):
    """one or both operands grown with add(); the other cold or completely filled (pairs with more than
    `full_upto` elements in total: grown-from-empty against filled, both ways, and grown against grown)"""
    for A, B in pair_orbits(kmax, kmax):
        s = len(A) + len(B)
        if s > smax:
            continue
        va = [('pc', _plain(A, False)), ('pf', _plain(A, True))] + \
             ([('g0', _grown(A, 0))] + ([('g1', _grown(A, len(A) - 1))] if len(A) > 1 else []) if A else [])
        vb = [('pc', _plain(B, False)), ('pf', _plain(B, True))] + \
             ([('g0', _grown(B, 0))] + ([('g1', _grown(B, len(B) - 1))] if len(B) > 1 else []) if B else [])
        for ta, sa in va:
            for tb, sb in vb:
                if ta[0] == 'p' and tb[0] == 'p':
                    continue
                if s > full_upto and (ta, tb) not in (('g0', 'pf'), ('pf', 'g0'), ('g0', 'g0')):
                    continue
                for oper in OPER:
                    yield dict(stream='exhaustive-grown', order='subset', oper=oper, a=sa, b=sb)


def _nested_stream(kmax, opers1):
    """one operand N = X op1 Y is itself the result of an operator on two completely filled posets (its cached
    values are the mutable sets _combine_caches builds); the other operand P is a plain poset whose element list
    starts with N's (N is a prefix of P) or equals it; both P op N and N op P"""
    for X, Y in pair_orbits(kmax, kmax):
        for op1 in opers1:
            N = dict(combine=dict(oper=op1, a=_plain(X, True), b=_plain(Y, True)), ops=[])
            EN = final_elems(N)
            absent = [e for e in U3 if e not in EN]
            for extra in ([[]] + ([[absent[0]]] if absent else []) + ([[absent[-1]]] if len(absent) > 1 else [])):
                for filled in (False, True):
                    P = _plain(EN + extra, filled)
                    for oper in OPER:
                        yield dict(stream='exhaustive-nested', order='subset', oper=oper, a=P, b=N)
                        yield dict(stream='exhaustive-nested', order='subset', oper=oper, a=N, b=P)


def _order_stream(kmax):
    """the second operand listed in every order (not only ascending): element order of the result and index
    re-mapping; operands cold/cold and filled/filled"""
    for A, B in pair_orbits(kmax, kmax):
        if len(B) < 2:
            continue
        for Bp in itertools.permutations(B):
            if list(Bp) == B:
                continue
            for filled in (False, True):
                for oper in OPER:
                    yield dict(stream='exhaustive-order', order='subset', oper=oper,
                               a=_plain(A, filled), b=_plain(list(Bp), filled))


def _is_fill(h):
    return len(h) == 1 and h[0][0] == 'fill'


def _single_vs_extreme(la, ha, lb, hb):
    """one operand anything of length <= 1, the other cold or completely filled"""
    return (lb == 0 or _is_fill(hb)) or (la == 0 or _is_fill(ha))


def _relq_vs_extreme(la, ha, lb, hb):
    """as _single_vs_extreme, the single operation being a relation query or fill_up_caches (not a lone leq(i,j))"""
    return _single_vs_extreme(la, ha, lb, hb) and not any(o[0] == 'leq' for o in ha + hb)


def _short_or_extreme(la, ha, lb, hb):
    """both warm-ups of length <= 1, or one operand anything (length <= 2) and the other cold or completely filled"""
    return (la <= 1 and lb <= 1) or _single_vs_extreme(la, ha, lb, hb)


def _short_or_cold(la, ha, lb, hb):
    """both warm-ups of length <= 1, or one operand anything (length <= 2) and the other cold"""
    return (la <= 1 and lb <= 1) or la == 0 or lb == 0


def _targeted(level):
    """the small streams aimed at particular mechanisms; run before the big product stream"""
    yield from _order_stream(3)
    yield from _grown_stream(3, 6, 4 if level == 0 else 6)
    if level == 0:
        yield from _nested_stream(2, ('or', 'and'))
    else:
        yield from _nested_stream(3 if level == 2 else 2, tuple(OPER))
    for A, B in pair_orbits(2, 2) if level == 0 else pair_orbits(3, 3):
        if len(B) > 1:
            if level == 0:
                only = _relq_vs_extreme
            else:
                only = None if len(A) + len(B) <= 4 else (_single_vs_extreme if level == 2 else _relq_vs_extreme)
            yield from _joint('exhaustive-desc', A, B[::-1], 1, 1, only=only)
        for ca, cb in ((False, False), (True, False), (False, True)):
            yield from _joint('exhaustive-cfg', A, B, 1 if ca else 0, 1 if cb else 0, ca=ca, cb=cb)
        for cda, cdb in ((True, False), (False, True), (True, True)):
            yield from _joint('exhaustive-cd', A, B, 1, 1, cda=cda, cdb=cdb,
                              only=_single_vs_extreme if level == 0 else None)


def _product(level):
    """the big stream: pairs of cold operands x joint warm-up histories"""
    for A, B in pair_orbits(3, 3):
        s = len(A) + len(B)
        small = s <= 2 or min(len(A), len(B)) == 0
        if level == 0:
            if small:
                yield from _joint('exhaustive', A, B, 2, 2)
            elif s <= 3:
                yield from _joint('exhaustive', A, B, 2, 2, only=_short_or_extreme)
            elif max(len(A), len(B)) <= 2:
                yield from _joint('exhaustive', A, B, 2, 2, only=_short_or_cold)
            else:
                yield from _joint('exhaustive', A, B, 1, 1, only=_relq_vs_extreme)
        elif level == 1:
            if small or s <= 3:
                yield from _joint('exhaustive', A, B, 2, 2)
            elif max(len(A), len(B)) <= 2:
                yield from _joint('exhaustive', A, B, 2, 2, only=_short_or_extreme)
            elif s == 4:
                yield from _joint('exhaustive', A, B, 1, 1)
            else:
                yield from _joint('exhaustive', A, B, 1, 1, only=_single_vs_extreme)
        else:
            if s <= 3:
                yield from _joint('exhaustive', A, B, 3, 3)
            elif s <= 4:
                yield from _joint('exhaustive', A, B, 2, 2)
            else:
                yield from _joint('exhaustive', A, B, 2, 2, only=_short_or_extreme)
    if level == 2:
        for A, B in pair_orbits(4, 4, pred=lambda A, B: max(len(A), len(B)) == 4 and len(A) + len(B) <= 6):
            yield from _joint('exhaustive-4', A, B, 1, 1, only=_single_vs_extreme)


def _level(tier, boost):
    """0 = quick; 1 = quick with boost (anchored source drifted / a proof obligation failed): a larger scope that
    still fits the quick tier's time budget; 2 = thorough"""
    return 2 if tier == 'thorough' else (1 if boost else 0)


def _random_warmup(rng, n, use_cache, length):
    ops = []
    for _ in range(length):
        r = rng.random()
        if n == 0 or (use_cache and r < 0.08):
            if use_cache:
                ops.append(['fill', rng.choice(['leq', 'desc', 'anc', 'chil', 'par', 'all'])])
            continue
        if r < 0.35:
            ops.append(['leq', rng.randrange(n), rng.randrange(n)])
        else:
            ops.append([rng.choice(REL), rng.randrange(n)])
    return ops


def _random(tier, rng, boost):
    n = 1500 if tier == 'quick' else 40000
    if boost:
        n *= 3
    for k in range(n):
        order = 'subset' if k % 2 == 0 else 'divides'
        if order == 'subset':
            universe = list(range(16)) if rng.random() < 0.7 else list(range(32))
        else:
            universe = rng.choice([list(range(1, 31)), [1, 2, 3, 4, 6, 8, 9, 12, 18, 24, 27, 36, 54, 72, 108, 216],
                                   [2, 3, 4, 5, 6, 8, 10, 12, 15, 20, 30, 60, 7, 14, 21, 42]])
        # overlapping operands: draw a pool, then two sub-samples
        pool = rng.sample(universe, rng.randint(0, min(14, len(universe))))
        A = [x for x in pool if rng.random() < 0.65][:12]
        B = [x for x in pool if rng.random() < 0.65][:12]
        rng.shuffle(A)
        rng.shuffle(B)
        q = rng.random()
        ca, cb = (True, True) if q < 0.8 else ((False, False) if q < 0.88 else ((False, True) if q < 0.94 else (True, False)))
        cda = ca and rng.random() < 0.25
        cdb = cb and rng.random() < 0.25
        ha = _random_warmup(rng, len(A), ca, rng.randint(0, 10))
        hb = _random_warmup(rng, len(B), cb, rng.randint(0, 10))
        oper = rng.choice(list(OPER))
        m = len(spec_elems(oper, A, B))
        sels = [[rng.randrange(m) for _ in range(rng.randint(1, 3))] for _ in range(6)] if m else []
        malformed = (k % 25 == 24)
        yield _case('malformed' if malformed else 'random', oper, A, B, ha, hb, ca, cb, cda, cdb, order=order,
                    sels=sels, state=True, same_leq=not malformed)


def _corpus():
    import glob
    import json
    import os
    here = os.path.dirname(os.path.dirname(os.path.dirname(os.path.abspath(__file__))))
    for p in sorted(glob.glob(os.path.join(here, 'corpus', 'C10', '*.json'))):
        c = json.load(open(p))
        c['stream'] = 'corpus'
        yield c


def gen(tier, seed, boost=False):
    rng = random.Random(seed * 1000003 + 1010)
    yield from _corpus()
    lv = _level(tier, boost)
    yield from _targeted(lv)
    yield from _random(tier, rng, boost)
    yield from _product(lv)

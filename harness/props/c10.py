"""C10 — set algebra on posets yields correct posets whatever the operands have cached."""
import functools
import itertools
import operator
import random

from props.c09 import LEQ, REL, apply_op, dump_state, covers, next_elems

ORDER_NOTE = ('streams run in the order: corpus, the small targeted streams (exhaustive-order/-grown/-nested/-desc/-cfg/-cd), '
              'script-exh, seeded random + different-leq_func cases, the seeded scripted streams (script/history/chain/equal/'
              'empty-disjoint/big-cd), the big product stream (exhaustive)')
RULE = ('case = (order in {subset of a bit set, divisibility}, two operand posets (element list, cache on/off, with/without '
        'a correct children_dict, warm-up query history), operator in {&,|,^,-}); both real POSets are built, the warm-up '
        'histories are run, the operator is applied (twice: the two results are observed in two different query orders), '
        'and on the result EVERY order query is asked: all leq pairs incl. reflexive, descendants/ancestors/children/'
        'parents of every index, tops, bottoms, join([]), meet([]), join/meet of selections - and compared with the Lean '
        'Fresh value over the combined elements; the result\'s element list is compared with the set-theoretic '
        'combination in first-then-second order; afterwards both operands are observed completely (element list, every '
        'query, private caches) and compared with what they were before; non-trivial = both operands cache, at least '
        'one warm-up query was made, the result has two comparable elements; distinct = distinct case. Scripted cases '
        '(streams script*, history, chain, equal, empty-disjoint, big-cd) add, AFTER the operator, a script of steps on the '
        'result and on the operands: queries whose returned value is vandalised in place when it is a mutable set/list/'
        'dict (hostile caller), the *_dict properties, fill_up_*, add (with and without cache filling) / remove / del; '
        'then result, operands and the result again are observed completely; every answer of each of the three posets '
        'must be the Lean Fresh value for that poset\'s CURRENT elements (the operands\' own histories may contain '
        'add(fill_up_cache=False)/remove/del/remove+add-back, operands may be results of operators to depth 3, the two '
        'operands may be the same object)')
_SCOPE = ('operand element lists: subsets of the 8 subsets of a 3-set listed ascending (second operand also descending '
          'where stated); pairs (A,B) up to simultaneous permutation of the 3 atoms; warm-up alphabet on an operand '
          'with n elements: leq(i,j) all n^2 pairs, descendants/ancestors/children/parents(i) all i, fill_up_caches; '
          'histories on one operand that reach the same private cache state of the real POSet are represented once '
          '(the operators read nothing but that state); 4 operators; ')
EXHAUSTIVE = {
    'quick': _SCOPE + 'both operands caching, all pairs with |A|,|B| <= 3: (i) |A|+|B| <= 2 or one operand empty: all '
             'joint warm-ups with <= 2 operations on each operand; (ii) |A|+|B| = 3: <= 1 operation on each operand, or '
             '<= 2 on one operand while the other is cold or completely filled; (iii) sizes (2,2): <= 1 on each, or <= 2 '
             'on one while the other is cold; (iv) larger pairs: <= 1 operation (a relation query or fill_up_caches) on '
             'one operand while the other is cold or completely filled (both ways round). Every pair with |A|,|B| <= 2 '
             'also with B listed descending (as iv), with cache off on A, on B, on both (<= 1 operation on the caching '
             'operand), and with a children_dict on A, on B, on both (<= 1 operation on one operand, the other cold or '
             'filled). exhaustive-order: every pair with |A|,|B| <= 3 with B in every non-ascending order, operands '
             'cold/cold and filled/filled. exhaustive-grown: one or both operands built by add(e, fill_up_cache=True) (from the empty poset, or '
             'the last element added), the other cold or filled, for |A|+|B| <= 4; larger pairs: grown-from-empty against '
             'filled (both ways) and against grown-from-empty. '
             'exhaustive-nested: N = X|Y or X&Y (|X|,|Y| <= 2, both filled) against a plain poset P (cold or filled) whose '
             'element list equals N\'s or extends it by one element, P op N and N op P. script-exh: every pair with '
             '|A|,|B| <= 2, operands cold or filled, 4 operators, every script of a fixed menu (all hostile queries + *_dict on '
             'the result; on both operands; one add(filled) / add(unfilled) / remove on A, on B, on the result; add(filled) on '
             'one of the three posets followed by add(unfilled) on another - shared cache objects), and A op A on one object',
    'thorough': _SCOPE + 'both operands caching, all pairs with |A|,|B| <= 3: |A|+|B| <= 3: <= 3 operations on each '
                'operand; |A|+|B| = 4: <= 2 on each; larger: <= 1 on each, or <= 2 on one operand while the other is cold '
                'or completely filled. Pairs with an operand of 4 elements and |A|+|B| <= 6: <= 1 operation on one operand '
                'while the other is cold or completely filled. Every pair with |A|,|B| <= 3 also with B descending '
                '(<= 1 operation on each for |A|+|B| <= 4, else one operand cold or filled), with cache off on A, on B, '
                'on both, and with a children_dict on A, on B, on both (<= 1 operation on each); exhaustive-order as in quick; '
                'exhaustive-grown with all variants for |A|+|B| <= 6; exhaustive-nested with all four inner operators and |X|,|Y| <= 3',
}
EXPLANATION = ('the result of an operator is pinned uniquely (element list = combination in order; every order query = '
               'Fresh over those elements), so implementation != Fresh is a property failure. Lean: Fca.C10.combine_elements '
               '(elements), combine_inv (every cache entry of the result is the Fresh value when the operands satisfy the '
               'C09 invariant, for all four cache-flag combinations), combine_history_independent (hence every later '
               'history of queries and mutations on the result answers as Fresh, by Fca.C09.history_independent; FULL), '
               'combine_returns (no exception), operands_unchanged, combine_after_histories / combine_chain (operands with '
               'arbitrary histories, chained operators), combine_objects_independent (result and operands independent '
               'afterwards). The driver also runs the verified checker invCheck on both '
               'operand states after the warm-up (certifying the hypothesis Inv a, Inv b, also for children_dict starts) '
               'and on the result. Comparison of the result\'s private caches with the model state is diagnostic only '
               '(histogram keys state:*)')
ASSUMPTIONS = ['operand elements pairwise distinct and hashable; leq_func is a partial order on all elements used and '
               'returns a Python bool (the type sniffing of _combine_caches raises TypeError otherwise)',
               'operand histories consist of in-range queries, fill_up_*, add/remove/del (Fca.C10.combine_after_histories '
               'covers every valid history; the product stream uses queries and fill_up_caches only)',
               'a children_dict passed to an operand\'s constructor is the true cover relation of its elements',
               '"same comparison" = the same function object (the operators assert identity of leq_func)']
TRUSTED = ['set/dict iteration orders inside _combine_caches are not modelled as parameters: no observable of the result '
           'depends on them (theorem combine_inv holds for the representative the model picks; the later queries '
           'quantify over the set-iteration order as in C09)',
           'the "before" answers of an operand are taken from an uncached real POSet over the same elements (equal to '
           'the operand\'s own answers by C09); on a mismatch the operand is rebuilt without applying the operator to '
           'tell an impure operator from a C09 failure']
CHUNK = 1000

OPER = {'and': operator.and_, 'or': operator.or_, 'xor': operator.xor, 'sub': operator.sub}
_LEQ_OTHER = {'subset': (lambda a, b: a & b == a), 'divides': (lambda a, b: a != 0 and b % a == 0)}


# ------------------------------------------------------------------------------------------ helpers
def spec_elems(oper, A, B):
    """the set-theoretic combination, each once, first operand's elements (in its order) then the second's"""
    sa, sb = set(A), set(B)
    want = {'and': sa & sb, 'or': sa | sb, 'xor': sa ^ sb, 'sub': sa - sb}[oper]
    out = [x for x in A if x in want]
    out += [x for x in B if x in want and x not in sa]
    return out


def final_elems(spec):
    """the element list of an operand after its construction (plain, or the result of an operator on two plain
    posets) and its own history (which may contain add/del/remove)"""
    if spec.get('combine'):
        cb = spec['combine']
        E = spec_elems(cb['oper'], final_elems(cb['a']), final_elems(cb['b']))
    else:
        E = list(spec['elems'])
    for op in spec['ops']:
        E = next_elems(E, op)
    return E


def uses_cache(spec):
    return uses_cache(spec['combine']['a']) if spec.get('combine') else bool(spec['use_cache'])


def post_ops(n, sels):
    fwd = [['leq', i, j] for i in range(n) for j in range(n)]
    rel = [[r, i] for i in range(n) for r in REL]
    ext = [['tops'], ['bottoms'], ['join', []], ['meet', []]]
    bnd = []
    for s in sels:
        if all(x < n for x in s):
            bnd += [['join', list(s)], ['meet', list(s)]]
    post = fwd + rel + ext + bnd
    post2 = rel[::-1] + ext[:2] + fwd[::-1]
    return post, post2


def full_ops(n):
    return [['leq', i, j] for i in range(n) for j in range(n)] + [[r, i] for i in range(n) for r in REL] + \
           [['tops'], ['bottoms']] + ([['join', []], ['meet', []]] if n else [])


def case_sels(c, n):
    if 'sels' in c:
        return c['sels']
    return [[i, j] for i in range(n) for j in range(i + 1, n)]


# ------------------------------------------------------------------------------------------ implementation side
def ask(P, op):
    """one order query on a real POSet, canonicalised as props.c09.apply_op does"""
    nm = op[0]
    try:
        if nm == 'leq':
            return bool(P.leq_elements(op[1], op[2]))
        if nm in ('tops', 'bottoms'):
            return {'l': [int(v) for v in getattr(P, nm)]}
        if nm in ('join', 'meet'):
            r = getattr(P, nm)(list(op[1]))
            return {'o': None if r is None else int(r)}
        if nm in REL:
            return sorted(int(v) for v in getattr(P, nm)(op[1]))
    except (IndexError, KeyError, ValueError, TypeError, AssertionError) as e:
        return {'err': type(e).__name__}
    return apply_op(P, op, None, None)


def _build(order, spec, leqf):
    from fcapy.poset import POSet
    if spec.get('combine'):
        cb = spec['combine']
        PA, _ = _build(order, cb['a'], leqf)
        PB, _ = _build(order, cb['b'], leqf)
        P = OPER[cb['oper']](PA, PB)
    else:
        E = list(spec['elems'])
        if spec['use_cache'] and spec.get('cd'):
            cd = {k: frozenset(v) for k, v in covers(order, E)}
            P = POSet(E, leqf, use_cache=True, children_dict=cd)
        else:
            P = POSet(E, leqf, use_cache=bool(spec['use_cache']))
    outs = [ask(P, op) for op in spec['ops']]
    return P, outs


@functools.lru_cache(maxsize=4096)
def _fresh_obs(order, E):
    from fcapy.poset import POSet
    P = POSet(list(E), LEQ[order], use_cache=False)
    return [ask(P, o) for o in full_ops(len(E))]


def _apply(oper, A, B):
    try:
        return OPER[oper](A, B), None
    except Exception as e:     # any exception of an operator is an outcome
        return None, type(e).__name__


def impl(c):
    if 'script' in c:
        return impl_script(c)
    order, oper = c['order'], c['oper']
    leqa = LEQ[order]
    leqb = leqa if c.get('same_leq', True) else _LEQ_OTHER[order]
    out = {}
    ops_ = {}
    for nm, leqf in (('a', leqa), ('b', leqb)):
        try:
            P, outs = _build(order, c[nm], leqf)
        except Exception as e:
            out[nm] = {'init_err': type(e).__name__}
            continue
        ops_[nm] = P
        out[nm] = {'outs': outs}
        if c.get('state'):
            out[nm]['state'] = dump_state(P)
    if len(ops_) < 2:
        return out
    A, B = ops_['a'], ops_['b']
    before = {nm: (list(P._elements), dump_state(P)) for nm, P in ops_.items()}
    R, err = _apply(oper, A, B)
    if err is not None:
        out['res'] = {'err': err}
    else:
        elems = list(R.elements)
        n = len(elems)
        post, post2 = post_ops(n, case_sels(c, n))
        res = {'elems': [int(x) for x in elems], 'use_cache': bool(getattr(R, '_use_cache', False)),
               'len': len(R), 'index_ok': all(R.index(e) == i for i, e in enumerate(elems)) if len(set(elems)) == n else None}
        if c.get('state'):
            res['state'] = dump_state(R)
        res['post'] = [ask(R, o) for o in post]
        R2, err2 = _apply(oper, A, B)
        if err2 is not None:
            res['post2'] = {'err': err2}
        else:
            res['elems2'] = [int(x) for x in R2.elements]
            res['post2'] = [ask(R2, o) for o in post2]
        out['res'] = res
    # purity: after the operator (and after all queries on the results) the operands are what they were
    pure = {}
    for nm, P in ops_.items():
        el0, st0 = before[nm]
        d = {'elems_same': list(P._elements) == el0, 'state_same': dump_state(P) == st0,
             'map_same': getattr(P, '_elements_to_index_map', None) == {e: i for i, e in enumerate(el0)}
             if len(set(el0)) == len(el0) else True}
        obs = [ask(P, o) for o in full_ops(len(P))]
        want = _fresh_obs(order, tuple(el0))
        d['obs_same'] = obs == want
        if not d['obs_same']:
            # slow path: would the operand, left alone, have answered like this anyway? (then it is not the operator)
            Q, _ = _build(order, c[nm], leqa if nm == 'a' else leqb)
            alone = [ask(Q, o) for o in full_ops(len(Q))]
            d['obs_same'] = obs == alone
            d['c09_suspect'] = alone != want
            if not d['obs_same']:
                bad = [(o, x, y) for o, x, y in zip(full_ops(len(el0)), obs, alone) if x != y][:3]
                d['diff'] = '; '.join(f'{o}: after {x} before {y}' for o, x, y in bad)
        pure[nm] = d
    out['pure'] = pure
    return out



# ------------------------------------------------------------------------------------------ scripted cases
# A scripted case carries, besides the two operands and the operator, a `script`: a list of steps
# [target, op, hostile] executed AFTER the operator, target in {'r' (the result), 'a', 'b' (the operands)},
# op a C09 operation (query, fill_up_*, add/del/remove) or ['dict', relation, n] (the `<relation>_dict` property of a
# poset with n elements), hostile = mutate the returned value in place when it is a mutable set/list/dict.  After
# the script the result, both operands and the result again are observed completely.  Every answer of every object
# must be the Fresh value for that object's CURRENT elements (Lean: `post` on the result state, `a_after`/`b_after`
# on the operand states - the three objects are independent in the model, as the property demands of the code).
DICTS = {'descendants': 'descendants_dict', 'ancestors': 'ancestors_dict', 'children': 'children_dict',
         'parents': 'parents_dict'}


def _vandalise(v):
    """what a hostile but legal caller may do with a returned value"""
    if isinstance(v, set):
        v.clear()
        v.add(997)
    elif isinstance(v, list):
        del v[:]
        v.append(997)
    elif isinstance(v, dict):
        for k in list(v):
            _vandalise(v[k])
            v[k] = frozenset([997])
        v[998] = frozenset()


def step(P, op, hostile):
    """execute one script step on a real POSet; returns the list of canonical answers it stands for"""
    nm = op[0]
    try:
        if nm == 'dict':
            d = getattr(P, DICTS[op[1]])
            out = [sorted(int(v) for v in d[i]) for i in range(op[2])]
            if hostile:
                _vandalise(d)
            return out
        if nm == 'leq':
            return [bool(P.leq_elements(op[1], op[2]))]
        if nm in ('tops', 'bottoms'):
            raw = getattr(P, nm)
            out = {'l': [int(v) for v in raw]}
        elif nm in ('join', 'meet'):
            r = getattr(P, nm)(list(op[1]))
            return [{'o': None if r is None else int(r)}]
        elif nm in REL:
            raw = getattr(P, nm)(op[1])
            out = sorted(int(v) for v in raw)
        else:
            return [apply_op(P, op, None, None)]
        if hostile:
            _vandalise(raw)
        return [out]
    except (IndexError, KeyError, ValueError, TypeError, AssertionError, AttributeError) as e:
        return [{'err': type(e).__name__}] * (op[2] if nm == 'dict' else 1)


def lean_ops(op):
    """the C09 operations a script step stands for"""
    if op[0] == 'dict':
        return [[op[1], i] for i in range(op[2])]
    return [op]


def script_plan(c):
    """per target: the Lean operation sequence (script steps, then the final observation(s)) and the final elements"""
    E = {'a': final_elems(c['a'])}
    E['b'] = E['a'] if c.get('same_object') else final_elems(c['b'])
    E['r'] = spec_elems(c['oper'], E['a'], E['b'])
    seq = {'r': [], 'a': [], 'b': []}
    for tgt, op, _h in c['script']:
        seq[tgt] += lean_ops(op)
        E[tgt] = next_elems(E[tgt], op)
    for tgt in _final_order(c):
        seq[tgt] += full_ops(len(E[tgt]))
    return seq, E


def _final_order(c):
    return ('r', 'a', 'r') if c.get('same_object') else ('r', 'a', 'b', 'r')


def impl_script(c):
    order, oper = c['order'], c['oper']
    leqf = LEQ[order]
    out, objs = {}, {}
    for nm in ('a', 'b'):
        if nm == 'b' and c.get('same_object'):
            objs['b'] = objs.get('a')
            out['b'] = out['a']
            continue
        try:
            P, outs = _build(order, c[nm], leqf)
        except Exception as e:
            out[nm] = {'init_err': type(e).__name__}
            continue
        objs[nm] = P
        out[nm] = {'outs': outs}
    if 'init_err' in out['a'] or 'init_err' in out['b']:
        return out
    R, err = _apply(oper, objs['a'], objs['b'])
    if err is not None:
        out['res'] = {'err': err}
        return out
    objs['r'] = R
    elems = list(R.elements)
    out['res'] = {'elems': [int(x) for x in elems], 'use_cache': bool(getattr(R, '_use_cache', False))}
    outs = {'r': [], 'a': [], 'b': []}
    for tgt, op, h in c['script']:
        outs[tgt] += step(objs[tgt], op, h)
    for tgt in _final_order(c):
        P = objs[tgt]
        outs[tgt] += [ask(P, o) for o in full_ops(len(P))]
    out['script'] = outs
    out['final'] = {k: [int(x) for x in objs[k]._elements] for k in ('r', 'a', 'b')}
    return out


def requests_script(c):
    seq, _ = script_plan(c)
    b = c['a'] if c.get('same_object') else c['b']
    return [dict(op='C10.run', order=c['order'], oper=c['oper'], same_leq=True,
                 a=_operand_req(c['order'], c['a']), b=_operand_req(c['order'], b),
                 post=seq['r'], post2=[], a_after=seq['a'], b_after=seq['b'], state=False)]


def _verdict_script(c, io, rep):
    r = rep[0]
    oper = c['oper']
    for nm in ('a', 'b'):
        mi, ii = r[nm], io[nm]
        if 'init_err' in mi or 'init_err' in ii:
            if mi.get('init_err') != ii.get('init_err'):
                return ('correspondence', 'init', f'constructor of operand {nm}: impl {ii} model {mi}')
            return None
        if ii['outs'] != mi['outs']:
            if not mi['inv']:
                return ('harness', 'operand-inv', f'operand {nm}: model state fails invCheck')
            return ('correspondence', 'warmup', f'history of operand {nm}: impl {ii["outs"]} model {mi["outs"]}')
        if not mi['inv']:
            return ('harness', 'operand-inv', f'operand {nm}: the model state after its history fails invCheck')
    seq, E = script_plan(c)
    EA = final_elems(c['a'])
    EB = EA if c.get('same_object') else final_elems(c['b'])
    want = spec_elems(oper, EA, EB)
    mr, ir = r['res'], io['res']
    if 'err' in ir:
        return ('property', 'result', f'{oper} raised {ir["err"]} (operands {EA}, {EB}); the property demands the poset '
                                      f'over {want}' + (f'; the model raises {mr["err"]} too' if 'err' in mr else ''))
    if ir['elems'] != want:
        return ('property', 'elements', f'{oper}: elements {ir["elems"]}, the combination in first-then-second order is {want}')
    if 'err' in mr:
        return ('correspondence', 'result', f'{oper}: the model raises {mr["err"]}, the implementation returns normally')
    if mr['elems'] != want or not mr['inv'] or not mr['post_ok'] or not mr['model_eq']:
        return ('harness', 'script-model', f'model result: elems {mr["elems"]} (want {want}) inv {mr["inv"]} '
                                           f'post_ok {mr["post_ok"]} model_eq {mr["model_eq"]}')
    for nm in ('a', 'b'):
        if seq[nm] and not (r[nm].get('after_ok') and r[nm].get('after_eq')):
            return ('harness', 'script-model', f'model operand {nm} after the operator: ok {r[nm].get("after_ok")} '
                                               f'eq {r[nm].get("after_eq")}')
    got = io['script']
    if got['r'] != mr['fresh']:
        return ('property', 'script-result', f'{oper}: the result (elements now {E["r"]}) does not answer like a fresh '
                                             f'poset over its elements after the script {c["script"]}: '
                + _diff(seq['r'], got['r'], mr['fresh']))
    for nm in ('a', 'b'):
        if nm == 'b' and c.get('same_object'):
            continue
        exp = r[nm].get('after_fresh', [])
        if got[nm] != exp:
            return ('property', 'script-operand', f'after {oper} and the script {c["script"]} operand {nm} (elements now '
                                                  f'{E[nm]}) does not answer like a fresh poset over its elements: '
                    + _diff(seq[nm], got[nm], exp))
    for k in (('r', 'a') if c.get('same_object') else ('r', 'a', 'b')):
        if io['final'][k] != E[k]:
            return ('property', 'script-elements', f'elements of {k} after the script: {io["final"][k]}, expected {E[k]}')
    if ir['use_cache'] != mr['use_cache']:
        return ('correspondence', 'flag', f'use_cache of the result: impl {ir["use_cache"]} model {mr["use_cache"]}')
    return None


# ------------------------------------------------------------------------------------------ Lean side
def _operand_req(order, spec, st=None):
    if spec.get('combine'):
        cb = spec['combine']
        d = dict(combine=dict(oper=cb['oper'], a=_operand_req(order, cb['a']), b=_operand_req(order, cb['b'])),
                 ops=spec['ops'])
    else:
        cd = covers(order, spec['elems']) if (spec['use_cache'] and spec.get('cd')) else None
        d = dict(elems=spec['elems'], use_cache=bool(spec['use_cache']), children_dict=cd, ops=spec['ops'])
    if st is not None:
        d['caches'] = {k: st[k] for k in ('leq', 'desc', 'anc', 'chil', 'par')}
    return d


REQUESTS_NEED_IMPL = True


def requests(c, io=None):
    if 'script' in c:
        return requests_script(c)
    n = len(spec_elems(c['oper'], final_elems(c['a']), final_elems(c['b'])))
    post, post2 = post_ops(n, case_sels(c, n))
    return [dict(op='C10.run', order=c['order'], oper=c['oper'], same_leq=bool(c.get('same_leq', True)),
                 a=_operand_req(c['order'], c['a'], _impl_state(c, io, 'a')),
                 b=_operand_req(c['order'], c['b'], _impl_state(c, io, 'b')),
                 post=post, post2=post2, state=bool(c.get('state')))]


def _impl_state(c, io, nm):
    """diagnostic mode (cases with state=True): hand the real operand's private caches to the model, so that the
    operator is applied to the same state on both sides; only if the warm-up answers already agree with Fresh
    (otherwise the plain comparison reports the divergence)"""
    if not c.get('state') or not isinstance(io, dict):
        return None
    st = (io.get(nm) or {}).get('state')
    return st if st and st.get('elems') == final_elems(c[nm]) else None


def _cfg(c):
    return ('c' if uses_cache(c['a']) else 'n') + ('c' if uses_cache(c['b']) else 'n')


def _diff(ops, xs, ys, k=4):
    bad = [(o, a, b) for o, a, b in zip(ops, xs, ys) if a != b][:k]
    return '; '.join(f'{o}: impl {a} fresh {b}' for o, a, b in bad)


def _verdict(c, io, rep):
    """None or (kind, where, detail)"""
    r = rep[0]
    oper = c['oper']
    for nm in ('a', 'b'):
        mi, ii = r[nm], io[nm]
        if 'init_err' in mi or 'init_err' in ii:
            if mi.get('init_err') != ii.get('init_err'):
                return ('correspondence', 'init', f'constructor of operand {nm}: impl {ii} model {mi}')
            return None
        if ii['outs'] != mi['outs']:
            return ('correspondence', 'warmup', f'warm-up of operand {nm}: impl {ii["outs"]} model {mi["outs"]}')
        if not mi['inv']:
            return ('harness', 'operand-inv', f'operand {nm}: the model state after the warm-up fails invCheck '
                                              f'(hypothesis of combine_inv not certified)')
    mr, ir = r['res'], io['res']
    same = c.get('same_leq', True)
    if not same:
        # outside the property (different comparison): only model = implementation (AssertionError)
        if mr.get('err') != ir.get('err') or 'err' not in mr:
            return ('correspondence', 'assert', f'{oper} with a different leq_func: impl {ir.get("err")} model {mr.get("err")}')
        return None
    EA, EB = final_elems(c['a']), final_elems(c['b'])
    want = spec_elems(oper, EA, EB)
    if 'err' in ir:
        return ('property', 'result', f'{oper} raised {ir["err"]} (operands {EA} cache={uses_cache(c["a"])}, '
                                      f'{EB} cache={uses_cache(c["b"])}); the property demands the poset over {want}'
                                      + (f'; the model of the code raises {mr["err"]} too' if 'err' in mr else
                                         '; the model returns normally'))
    if ir['elems'] != want:
        return ('property', 'elements', f'{oper}: elements {ir["elems"]}, the combination in first-then-second order is {want}')
    if ir['len'] != len(want) or ir['index_ok'] is False:
        return ('property', 'elements', f'{oper}: len()/index() of the result disagree with its element list')
    if ir.get('elems2') != want:
        return ('property', 'elements', f'{oper} applied a second time: {ir.get("elems2")} / {ir.get("post2")}')
    if 'err' in mr:
        return ('correspondence', 'result', f'{oper}: the model raises {mr["err"]}, the implementation returns normally')
    if mr['elems'] != want:
        return ('harness', 'elements', f'model elements {mr["elems"]} != combination {want} (contradicts combine_elements)')
    if not mr['inv']:
        return ('harness', 'result-inv', 'the model result fails invCheck (contradicts combine_inv)')
    if not mr['post_ok']:
        return ('harness', 'post', 'post queries out of range')
    if not mr['model_eq']:
        return ('harness', 'post', 'model answers != Fresh on the result (contradicts combine_history_independent)')
    n = len(want)
    post, post2 = post_ops(n, case_sels(c, n))
    if ir['post'] != mr['fresh']:
        return ('property', 'query', f'{oper}: result over {want} answers differently from a fresh poset: '
                + _diff(post, ir['post'], mr['fresh']))
    if ir['post2'] != mr['fresh2']:
        return ('property', 'query2', f'{oper}: result over {want} (relations queried first) answers differently from a '
                                      f'fresh poset: ' + _diff(post2, ir['post2'], mr['fresh2']))
    if ir['use_cache'] != mr['use_cache']:
        return ('correspondence', 'flag', f'use_cache of the result: impl {ir["use_cache"]} model {mr["use_cache"]}')
    for nm in ('a', 'b'):
        p = io['pure'][nm]
        if not p['elems_same'] or not p['map_same']:
            return ('property', 'purity-elements', f'{oper} changed the element list / index map of operand {nm}')
        if not p['obs_same']:
            return ('property', 'purity-answers', f'after {oper} (and queries on the result) operand {nm} answers '
                                                  f'differently than before: {p.get("diff")}')
        if p.get('c09_suspect'):
            return ('correspondence', 'operand-c09', f'operand {nm} does not answer as a fresh poset even without the '
                                                     f'operator (a C09 matter)')
    return None


def judge(c, io, rep):
    v = _verdict_script(c, io, rep) if 'script' in c else _verdict(c, io, rep)
    if v is None:
        return dict(ok=True)
    return dict(ok=False, kind=v[0], where=v[1], detail=v[2])


def nontrivial(c):
    if not (uses_cache(c['a']) and uses_cache(c['b'])):
        return False
    if not (c['a']['ops'] or c['b']['ops'] or c['a'].get('combine') or c['b'].get('combine') or c.get('script')):
        return False
    leq = LEQ[c['order']]
    E = spec_elems(c['oper'], final_elems(c['a']), final_elems(c['b']))
    return any(i != j and leq(E[i], E[j]) for i in range(len(E)) for j in range(len(E)))


def _okey(sp):
    if sp.get('combine'):
        return ['combine', sp['combine']['oper'], _okey(sp['combine']['a']), _okey(sp['combine']['b']), sp['ops']]
    return [sp['elems'], bool(sp['use_cache']), bool(sp.get('cd')), sp['ops']]


def key(c):
    return [c['order'], c['oper'], bool(c.get('same_leq', True)), _okey(c['a']), _okey(c['b']),
            bool(c.get('same_object')), c.get('script')]


def branch(c, io, rep):
    out = [c['stream'], 'oper:' + c['oper'], 'cfg:' + _cfg(c) + (':cd' if c['a'].get('cd') or c['b'].get('cd') else '')]
    for k in ('a', 'b'):
        if c[k].get('combine'):
            out.append('operand-is-result:' + k)
        if any(o[0] == 'add' for o in c[k]['ops']):
            out.append('operand-grown-by-add:' + k)
    out.append('warm:%s+%s' % tuple(str(len(c[k]['ops'])) if len(c[k]['ops']) < 3 else '3..' for k in ('a', 'b')))
    for k in ('a', 'b'):
        if any(o[0] in ('del', 'remove') or (o[0] == 'add' and not o[2]) for o in c[k]['ops']):
            out.append('operand-history-with-removal-or-unfilled-add:' + k)
    if c.get('same_object'):
        out.append('same-object-operands')
    for tgt, op, h in c.get('script', []):
        kind = 'mutate' if op[0] in ('add', 'del', 'remove') else ('hostile' if h else 'query')
        out.append('script:%s:%s' % (kind, {'r': 'result', 'a': 'operand', 'b': 'operand'}[tgt]))
    r = rep[0] if rep else {}
    ir, mr = io.get('res', {}), r.get('res', {})
    if 'err' in ir:
        out.append('err:' + ir['err'])
    if 'elems' in ir:
        out.append('result-size:%d' % min(len(ir['elems']), 9))
    if 'state' in ir and 'state' in mr and ir['state'] is not None:
        diff = [f for f in ('leq', 'desc', 'anc', 'chil', 'par') if ir['state'][f] != mr['state'][f]]
        out.append('state:equal' if not diff else 'state:differ:' + '+'.join(diff))
        for f in ('desc', 'anc', 'chil', 'par'):
            if ir['state'][f]:
                out.append('result-has:' + f)
    pu = io.get('pure')
    if pu and not all(pu[k]['state_same'] for k in pu):
        out.append('operand-cache-touched')       # diagnostic: the operator (or a result query) wrote into an operand's cache
    return out


def signature(c, io, rep, v):
    sym = 'wrong'
    ir = io.get('res', {}) if isinstance(io, dict) else {}
    if 'err' in ir:
        sym = 'err:' + ir['err']
    return f"C10:{v.get('kind')}:{v.get('where')}:{sym}:{_cfg(c)}"


def _drop_elem(spec, i):
    E = spec['elems']

    def fix(op):
        nm = op[0]
        if nm == 'leq':
            if op[1] == i or op[2] == i:
                return None
            return ['leq', op[1] - (op[1] > i), op[2] - (op[2] > i)]
        if nm in REL:
            if op[1] == i:
                return None
            return [nm, op[1] - (op[1] > i)]
        return op
    d = dict(spec)
    d['elems'] = E[:i] + E[i + 1:]
    d['ops'] = [o for o in (fix(o) for o in spec['ops']) if o is not None]
    return d


def shrink(c):
    if 'script' in c:
        sc = c['script']
        for i in range(len(sc)):
            yield dict(c, script=sc[:i] + sc[i + 1:])
        for i, (tgt, op, h) in enumerate(sc):
            if h:
                yield dict(c, script=sc[:i] + [[tgt, op, 0]] + sc[i + 1:])
        if not any(st[1][0] in ('add', 'del', 'remove', 'dict') for st in sc):
            # no step depends on the sizes: the operands' own histories may shrink
            for nm in ('a', 'b'):
                if c.get('same_object') and nm == 'b':
                    continue
                ops = c[nm]['ops']
                if not c[nm].get('combine') and not any(o[0] in ('add', 'del', 'remove') for o in ops):
                    for i in range(len(ops)):
                        d = dict(c)
                        d[nm] = dict(c[nm], ops=ops[:i] + ops[i + 1:])
                        if c.get('same_object'):
                            d['b'] = d['a']
                        yield d
        return
    for nm in ('a', 'b'):
        ops = c[nm]['ops']
        for i in range(len(ops)):
            d = dict(c)
            d.pop('sels', None)
            d[nm] = dict(c[nm], ops=ops[:i] + ops[i + 1:])
            yield d
    for nm in ('a', 'b'):
        if c[nm].get('combine'):
            # an operand that is itself a result: try the plain, completely filled poset over the same elements
            d = dict(c)
            d.pop('sels', None)
            d[nm] = dict(elems=final_elems(dict(c[nm], ops=[])), use_cache=uses_cache(c[nm]), cd=False,
                         ops=[['fill', 'all']] if uses_cache(c[nm]) else [])
            yield d
            continue
        if any(o[0] in ('add', 'del', 'remove') for o in c[nm]['ops']):
            continue
        for i in range(len(c[nm]['elems'])):
            d = dict(c)
            d.pop('sels', None)
            d[nm] = _drop_elem(c[nm], i)
            yield d
    for nm in ('a', 'b'):
        if c[nm].get('combine'):
            continue
        if c[nm].get('cd'):
            d = dict(c)
            d[nm] = dict(c[nm], cd=False)
            yield d
        for i, o in enumerate(c[nm]['ops']):
            if o[0] == 'fill' and o[1] == 'all':
                for k in ('leq', 'desc', 'anc', 'chil', 'par'):
                    d = dict(c)
                    d[nm] = dict(c[nm], ops=c[nm]['ops'][:i] + [['fill', k]] + c[nm]['ops'][i + 1:])
                    yield d


# ------------------------------------------------------------------------------------------ generators
U3 = list(range(8))


def _perm_mask(m, p):
    return sum(((m >> b) & 1) << p[b] for b in range(3))


def pair_orbits(ka, kb, pred=None):
    """pairs (A, B) of sets of 3-bit masks with |A| <= ka, |B| <= kb, one per orbit of the atom permutations"""
    perms = list(itertools.permutations(range(3)))
    sets = [s for k in range(max(ka, kb) + 1) for s in itertools.combinations(U3, k)]
    seen = set()
    for A in sets:
        if len(A) > ka:
            continue
        for B in sets:
            if len(B) > kb or (pred and not pred(A, B)):
                continue
            if (A, B) in seen:
                continue
            for p in perms:
                seen.add((tuple(sorted(_perm_mask(m, p) for m in A)), tuple(sorted(_perm_mask(m, p) for m in B))))
            yield list(A), list(B)


def alphabet(n, use_cache):
    qs = [['leq', i, j] for i in range(n) for j in range(n)]
    for i in range(n):
        qs += [[r, i] for r in REL]
    if use_cache:
        qs.append(['fill', 'all'])
    return qs


@functools.lru_cache(maxsize=None)
def _reps(order, E, use_cache, cd, L):
    """representative warm-up histories of length <= L on the operand: one per private cache state reached
    (real POSet; shortest, then first in alphabet order)"""
    from fcapy.poset import POSet
    E = list(E)
    alpha = alphabet(len(E), use_cache)
    seen, out = {}, []
    for l in range(L + 1):
        for h in itertools.product(alpha, repeat=l):
            spec = dict(elems=E, use_cache=use_cache, cd=cd, ops=[list(o) for o in h])
            P, _ = _build(order, spec, LEQ[order])
            st = repr(dump_state(P))
            if st in seen:
                continue
            seen[st] = True
            out.append((l, spec['ops']))
    return out


def _case(stream, oper, A, B, ha, hb, ca=True, cb=True, cda=False, cdb=False, order='subset', **kw):
    return dict(stream=stream, order=order, oper=oper,
                a=dict(elems=list(A), use_cache=ca, cd=cda, ops=ha),
                b=dict(elems=list(B), use_cache=cb, cd=cdb, ops=hb), **kw)


def _joint(stream, A, B, La, Lb, Lsum=None, ca=True, cb=True, cda=False, cdb=False, only=None):
    ra = _reps('subset', tuple(A), ca, cda, La)
    rb = _reps('subset', tuple(B), cb, cdb, Lb)
    for la, ha in ra:
        for lb, hb in rb:
            if Lsum is not None and la + lb > Lsum:
                continue
            if only is not None and not only(la, ha, lb, hb):
                continue
            for oper in OPER:
                yield _case(stream, oper, A, B, ha, hb, ca, cb, cda, cdb)


def _grown(E, k):
    """operand over E built as POSet(E[:k]) followed by add(e, fill_up_cache=True) of the rest: its cached values
    are mutable sets"""
    return dict(elems=list(E[:k]), use_cache=True, cd=False, ops=[['add', e, True] for e in E[k:]])


def _plain(E, filled, use_cache=True):
    return dict(elems=list(E), use_cache=use_cache, cd=False, ops=[['fill', 'all']] if filled and use_cache else [])


def _grown_stream(kmax, smax, full_upto):
    """one or both operands grown with add(); the other cold or completely filled (pairs with more than
    `full_upto` elements in total: grown-from-empty against filled, both ways, and grown against grown)"""
    for A, B in pair_orbits(kmax, kmax):
        s = len(A) + len(B)
        if s > smax:
            continue
        va = [('pc', _plain(A, False)), ('pf', _plain(A, True))] + \
             ([('g0', _grown(A, 0))] + ([('g1', _grown(A, len(A) - 1))] if len(A) > 1 else []) if A else [])
        vb = [('pc', _plain(B, False)), ('pf', _plain(B, True))] + \
             ([('g0', _grown(B, 0))] + ([('g1', _grown(B, len(B) - 1))] if len(B) > 1 else []) if B else [])
        for ta, sa in va:
            for tb, sb in vb:
                if ta[0] == 'p' and tb[0] == 'p':
                    continue
                if s > full_upto and (ta, tb) not in (('g0', 'pf'), ('pf', 'g0'), ('g0', 'g0')):
                    continue
                for oper in OPER:
                    yield dict(stream='exhaustive-grown', order='subset', oper=oper, a=sa, b=sb)


def _nested_stream(kmax, opers1):
    """one operand N = X op1 Y is itself the result of an operator on two completely filled posets (its cached
    values are the mutable sets _combine_caches builds); the other operand P is a plain poset whose element list
    starts with N's (N is a prefix of P) or equals it; both P op N and N op P"""
    for X, Y in pair_orbits(kmax, kmax):
        for op1 in opers1:
            N = dict(combine=dict(oper=op1, a=_plain(X, True), b=_plain(Y, True)), ops=[])
            EN = final_elems(N)
            absent = [e for e in U3 if e not in EN]
            for extra in ([[]] + ([[absent[0]]] if absent else []) + ([[absent[-1]]] if len(absent) > 1 else [])):
                for filled in (False, True):
                    P = _plain(EN + extra, filled)
                    for oper in OPER:
                        yield dict(stream='exhaustive-nested', order='subset', oper=oper, a=P, b=N)
                        yield dict(stream='exhaustive-nested', order='subset', oper=oper, a=N, b=P)


def _order_stream(kmax):
    """the second operand listed in every order (not only ascending): element order of the result and index
    re-mapping; operands cold/cold and filled/filled"""
    for A, B in pair_orbits(kmax, kmax):
        if len(B) < 2:
            continue
        for Bp in itertools.permutations(B):
            if list(Bp) == B:
                continue
            for filled in (False, True):
                for oper in OPER:
                    yield dict(stream='exhaustive-order', order='subset', oper=oper,
                               a=_plain(A, filled), b=_plain(list(Bp), filled))


def _is_fill(h):
    return len(h) == 1 and h[0][0] == 'fill'


def _single_vs_extreme(la, ha, lb, hb):
    """one operand anything of length <= 1, the other cold or completely filled"""
    return (lb == 0 or _is_fill(hb)) or (la == 0 or _is_fill(ha))


def _relq_vs_extreme(la, ha, lb, hb):
    """as _single_vs_extreme, the single operation being a relation query or fill_up_caches (not a lone leq(i,j))"""
    return _single_vs_extreme(la, ha, lb, hb) and not any(o[0] == 'leq' for o in ha + hb)


def _short_or_extreme(la, ha, lb, hb):
    """both warm-ups of length <= 1, or one operand anything (length <= 2) and the other cold or completely filled"""
    return (la <= 1 and lb <= 1) or _single_vs_extreme(la, ha, lb, hb)


def _short_or_cold(la, ha, lb, hb):
    """both warm-ups of length <= 1, or one operand anything (length <= 2) and the other cold"""
    return (la <= 1 and lb <= 1) or la == 0 or lb == 0


def _targeted(level):
    """the small streams aimed at particular mechanisms; run before the big product stream"""
    yield from _order_stream(3)
    yield from _grown_stream(3, 6, 4 if level == 0 else 6)
    if level == 0:
        yield from _nested_stream(2, ('or', 'and'))
    else:
        yield from _nested_stream(3 if level == 2 else 2, tuple(OPER))
    for A, B in pair_orbits(2, 2) if level == 0 else pair_orbits(3, 3):
        if len(B) > 1:
            if level == 0:
                only = _relq_vs_extreme
            else:
                only = None if len(A) + len(B) <= 4 else (_single_vs_extreme if level == 2 else _relq_vs_extreme)
            yield from _joint('exhaustive-desc', A, B[::-1], 1, 1, only=only)
        for ca, cb in ((False, False), (True, False), (False, True)):
            yield from _joint('exhaustive-cfg', A, B, 1 if ca else 0, 1 if cb else 0, ca=ca, cb=cb)
        for cda, cdb in ((True, False), (False, True), (True, True)):
            yield from _joint('exhaustive-cd', A, B, 1, 1, cda=cda, cdb=cdb,
                              only=_single_vs_extreme if level == 0 else None)


def _product(level):
    """the big stream: pairs of cold operands x joint warm-up histories"""
    for A, B in pair_orbits(3, 3):
        s = len(A) + len(B)
        small = s <= 2 or min(len(A), len(B)) == 0
        if level == 0:
            if small:
                yield from _joint('exhaustive', A, B, 2, 2)
            elif s <= 3:
                yield from _joint('exhaustive', A, B, 2, 2, only=_short_or_extreme)
            elif max(len(A), len(B)) <= 2:
                yield from _joint('exhaustive', A, B, 2, 2, only=_short_or_cold)
            else:
                yield from _joint('exhaustive', A, B, 1, 1, only=_relq_vs_extreme)
        elif level == 1:
            if small or s <= 3:
                yield from _joint('exhaustive', A, B, 2, 2)
            elif max(len(A), len(B)) <= 2:
                yield from _joint('exhaustive', A, B, 2, 2, only=_short_or_extreme)
            elif s == 4:
                yield from _joint('exhaustive', A, B, 1, 1)
            else:
                yield from _joint('exhaustive', A, B, 1, 1, only=_single_vs_extreme)
        else:
            if s <= 3:
                yield from _joint('exhaustive', A, B, 3, 3)
            elif s <= 4:
                yield from _joint('exhaustive', A, B, 2, 2)
            else:
                yield from _joint('exhaustive', A, B, 2, 2, only=_short_or_extreme)
    if level == 2:
        for A, B in pair_orbits(4, 4, pred=lambda A, B: max(len(A), len(B)) == 4 and len(A) + len(B) <= 6):
            yield from _joint('exhaustive-4', A, B, 1, 1, only=_single_vs_extreme)


def _level(tier, boost):
    """0 = quick; 1 = quick with boost (anchored source drifted / a proof obligation failed): a larger scope that
    still fits the quick tier's time budget; 2 = thorough"""
    return 2 if tier == 'thorough' else (1 if boost else 0)


def _random_warmup(rng, n, use_cache, length):
    ops = []
    for _ in range(length):
        r = rng.random()
        if n == 0 or (use_cache and r < 0.08):
            if use_cache:
                ops.append(['fill', rng.choice(['leq', 'desc', 'anc', 'chil', 'par', 'all'])])
            continue
        if r < 0.35:
            ops.append(['leq', rng.randrange(n), rng.randrange(n)])
        else:
            ops.append([rng.choice(REL), rng.randrange(n)])
    return ops


def _random(tier, rng, boost):
    n = 1500 if tier == 'quick' else 40000
    if boost:
        n *= 3
    for k in range(n):
        order = 'subset' if k % 2 == 0 else 'divides'
        if order == 'subset':
            universe = list(range(16)) if rng.random() < 0.7 else list(range(32))
        else:
            universe = rng.choice([list(range(1, 31)), [1, 2, 3, 4, 6, 8, 9, 12, 18, 24, 27, 36, 54, 72, 108, 216],
                                   [2, 3, 4, 5, 6, 8, 10, 12, 15, 20, 30, 60, 7, 14, 21, 42]])
        # overlapping operands: draw a pool, then two sub-samples
        pool = rng.sample(universe, rng.randint(0, min(14, len(universe))))
        A = [x for x in pool if rng.random() < 0.65][:12]
        B = [x for x in pool if rng.random() < 0.65][:12]
        rng.shuffle(A)
        rng.shuffle(B)
        q = rng.random()
        ca, cb = (True, True) if q < 0.8 else ((False, False) if q < 0.88 else ((False, True) if q < 0.94 else (True, False)))
        cda = ca and rng.random() < 0.25
        cdb = cb and rng.random() < 0.25
        ha = _random_warmup(rng, len(A), ca, rng.randint(0, 10))
        hb = _random_warmup(rng, len(B), cb, rng.randint(0, 10))
        oper = rng.choice(list(OPER))
        m = len(spec_elems(oper, A, B))
        sels = [[rng.randrange(m) for _ in range(rng.randint(1, 3))] for _ in range(6)] if m else []
        malformed = (k % 25 == 24)
        yield _case('malformed' if malformed else 'random', oper, A, B, ha, hb, ca, cb, cda, cdb, order=order,
                    sels=sels, state=True, same_leq=not malformed)



# ------------------------------------------------------------------------------------------ scripted streams
_UNIV = {'subset': [list(range(16)), list(range(16)), list(range(32))],
         'divides': [list(range(1, 31)), [1, 2, 3, 4, 6, 8, 9, 12, 18, 24, 27, 36, 54, 72, 108, 216],
                     [2, 3, 4, 5, 6, 8, 10, 12, 15, 20, 30, 60, 7, 14, 21, 42]]}


def _rand_query(rng, n):
    q = rng.random()
    if q < 0.25:
        return ['leq', rng.randrange(n), rng.randrange(n)]
    if q < 0.80:
        return [rng.choice(REL), rng.randrange(n)]
    if q < 0.88:
        return [rng.choice(['tops', 'bottoms'])]
    return [rng.choice(['join', 'meet']), [rng.randrange(n) for _ in range(rng.randint(0, 3))]]


def _rand_mutation(rng, universe, E, cap=13):
    """a list of 1-2 mutations (2 = the net-zero pair remove + add back)"""
    absent = [e for e in universe if e not in E]
    q = rng.random()
    if (q < 0.45 or not E) and absent and len(E) < cap:
        return [['add', rng.choice(absent), rng.random() < 0.5]]
    if not E:
        return []
    if q < 0.50:
        return [['add', rng.choice(E), rng.random() < 0.5]]
    if q < 0.72:
        return [['remove', rng.choice(E)]]
    if q < 0.88:
        return [['del', rng.randrange(len(E))]]
    e = rng.choice(E)
    return [['remove', e], ['add', e, rng.random() < 0.5]]


def _rand_history(rng, universe, E, use_cache, length, mutations=True):
    """a history of an operand through its public API: queries, fill_up_*, add (with and without cache filling),
    remove, del, remove + add back"""
    E, ops = list(E), []
    for _ in range(length):
        r = rng.random()
        if mutations and r < 0.35:
            new = _rand_mutation(rng, universe, E)
        elif use_cache and r < 0.43:
            new = [['fill', rng.choice(['leq', 'desc', 'anc', 'chil', 'par', 'all'])]]
        elif E:
            new = [_rand_query(rng, len(E))]
        else:
            new = []
        for op in new:
            ops.append(op)
            E = next_elems(E, op)
    return ops


def _rand_spec(rng, order, universe, pool, depth, maxlen=8, p_cache=0.8, p_cd=0.25, hist=8):
    if depth > 0 and rng.random() < 0.6:
        a = _rand_spec(rng, order, universe, pool, depth - 1, maxlen, p_cache, p_cd, hist)
        b = _rand_spec(rng, order, universe, pool, depth - 1, maxlen, p_cache, p_cd, hist)
        spec = dict(combine=dict(oper=rng.choice(list(OPER)), a=a, b=b), ops=[])
        spec['ops'] = _rand_history(rng, universe, final_elems(spec), uses_cache(spec), rng.randint(0, 5))
        return spec
    E = [x for x in pool if rng.random() < 0.65][:maxlen]
    rng.shuffle(E)
    uc = rng.random() < p_cache
    cd = uc and rng.random() < p_cd
    return dict(elems=E, use_cache=uc, cd=cd, ops=_rand_history(rng, universe, E, uc, rng.randint(0, hist)))


def _rand_script(rng, universe, E, caches, length, p_mut=0.3):
    """E: {'r': elems, 'a': .., 'b': ..} (a target that must not be used is absent); caches: target -> bool"""
    E = {k: list(v) for k, v in E.items()}
    script = []
    tgts = sorted(E)
    for _ in range(length):
        tgt = rng.choice(tgts)
        n = len(E[tgt])
        r = rng.random()
        if r < p_mut:
            new = [(op, 0) for op in _rand_mutation(rng, universe, E[tgt])]
        elif r < p_mut + 0.06 and caches[tgt]:
            new = [(['fill', rng.choice(['leq', 'desc', 'anc', 'chil', 'par', 'all'])], 0)]
        elif r < p_mut + 0.20:
            new = [(['dict', rng.choice(REL), n], int(rng.random() < 0.8))]
        elif n:
            new = [(_rand_query(rng, n), int(rng.random() < 0.6))]
        else:
            new = []
        for op, h in new:
            script.append([tgt, op, h])
            E[tgt] = next_elems(E[tgt], op)
    return script


def _scripted(stream, order, oper, a, b, script, same_object=False):
    return dict(stream=stream, order=order, oper=oper, a=a, b=(a if same_object else b), script=script,
                same_object=bool(same_object))


def _with_script(rng, stream, order, universe, oper, a, b, length, same_object=False, p_mut=0.3):
    EA = final_elems(a)
    EB = EA if same_object else final_elems(b)
    E = {'r': spec_elems(oper, EA, EB), 'a': EA}
    caches = {'r': uses_cache(a), 'a': uses_cache(a)}
    if not same_object:
        E['b'] = EB
        caches['b'] = uses_cache(b)
    return _scripted(stream, order, oper, a, b, _rand_script(rng, universe, E, caches, length, p_mut), same_object)


def _scripted_random(tier, rng, boost):
    """seeded random scripted cases: H2 (hostile callers, aliasing between operands and result), H1 (operands with
    mutation histories, mixed cache flags, chained operations), H3 (>= 10 elements with children_dict, equal / empty /
    disjoint operands, the same object on both sides)"""
    scale = 1 if tier == 'quick' else 20
    if boost:
        scale *= 3
    for k in range(3000 * scale):
        order = 'subset' if k % 2 == 0 else 'divides'
        universe = rng.choice(_UNIV[order])
        pool = rng.sample(universe, rng.randint(0, min(10, len(universe))))
        oper = rng.choice(list(OPER))
        kind = k % 6
        if kind in (0, 1):      # H2: plain operands, query-only histories, long scripts
            a = _rand_spec(rng, order, universe, pool, 0, hist=5)
            b = _rand_spec(rng, order, universe, pool, 0, hist=5)
            yield _with_script(rng, 'script', order, universe, oper, a, b, rng.randint(1, 8))
        elif kind == 2:         # H1: histories with add(fill=False)/remove/del, mixed cache flags, then the operator
            a = _rand_spec(rng, order, universe, pool, 0, p_cache=0.65)
            b = _rand_spec(rng, order, universe, pool, 0, p_cache=0.65)
            yield _with_script(rng, 'history', order, universe, oper, a, b, rng.randint(0, 2), p_mut=0.0)
        elif kind == 3:         # H1: chained operations with queries / mutations in between
            a = _rand_spec(rng, order, universe, pool, 2, maxlen=6, hist=4)
            b = _rand_spec(rng, order, universe, pool, 1, maxlen=6, hist=4)
            yield _with_script(rng, 'chain', order, universe, oper, a, b, rng.randint(0, 5))
        elif kind == 4:         # H3: equal operands (same object / equal lists / same set in another order), empty, disjoint
            a = _rand_spec(rng, order, universe, pool, 0, hist=5)
            q = rng.random()
            if q < 0.3:
                yield _with_script(rng, 'equal', order, universe, oper, a, a, rng.randint(0, 5), same_object=True)
                continue
            EA = final_elems(a)
            if q < 0.6:
                EB = list(EA)
                if q < 0.45:
                    rng.shuffle(EB)
            elif q < 0.75:
                EB = []
            else:
                EB = [e for e in universe if e not in EA]
                rng.shuffle(EB)
                EB = EB[:rng.randint(1, 6)]
            uc = rng.random() < 0.8
            b = dict(elems=EB, use_cache=uc, cd=uc and rng.random() < 0.3,
                     ops=_rand_history(rng, universe, EB, uc, rng.randint(0, 5), mutations=False))
            if rng.random() < 0.5:
                a, b = b, a
            yield _with_script(rng, 'equal' if q < 0.6 else 'empty-disjoint', order, universe, oper, a, b, rng.randint(0, 5))
        else:
            if k % 24 != 5:
                continue
            # H3: >= 10 elements, children_dict on at least one operand (no pre-filled leq cache from 10 elements on)
            big = rng.sample(universe, rng.randint(10, min(14, len(universe))))
            other = [x for x in big if rng.random() < 0.7] + [x for x in universe if x not in big and rng.random() < 0.1]
            other = other[:14]
            rng.shuffle(other)
            sa = dict(elems=big, use_cache=True, cd=True,
                      ops=_rand_history(rng, universe, big, True, rng.randint(0, 4), mutations=rng.random() < 0.3))
            uc = rng.random() < 0.85
            sb = dict(elems=other, use_cache=uc, cd=uc and rng.random() < 0.5,
                      ops=_rand_history(rng, universe, other, uc, rng.randint(0, 4), mutations=False))
            if rng.random() < 0.5:
                sa, sb = sb, sa
            yield _with_script(rng, 'big-cd', order, universe, oper, sa, sb, rng.randint(0, 4))


def _scripted_exhaustive(level):
    """small scope, complete: every pair (|A|,|B| <= 2), operands cold or filled, every operator, every script of
    the menu: all hostile queries on the result / on the operands; one mutation of A, of B, of the result
    (add with and without cache filling, remove); plus A op A on the same object"""
    def hostile_all(tgt, n):
        return [[tgt, ['dict', r, n], 1] for r in REL] + [[tgt, [r, i], 1] for i in range(n) for r in REL] + \
               [[tgt, ['tops'], 1], [tgt, ['bottoms'], 1]]
    for A, B in pair_orbits(2, 2):
        for fa in (False, True):
            for fb in (False, True):
                a, b = _plain(A, fa), _plain(B, fb)
                for oper in OPER:
                    R = spec_elems(oper, A, B)
                    El = {'r': R, 'a': A, 'b': B}
                    menu = [hostile_all('r', len(R)), hostile_all('a', len(A)) + hostile_all('b', len(B))]
                    for tgt in ('a', 'b', 'r'):
                        absent = [e for e in U3 if e not in El[tgt]]
                        if absent:
                            menu.append([[tgt, ['add', absent[0], True], 0]])
                            menu.append([[tgt, ['add', absent[-1], False], 0]])
                        if El[tgt]:
                            menu.append([[tgt, ['remove', El[tgt][0]], 0]])
                    # aliasing of cache objects shared by two of the three posets: grow one (caches filled), then
                    # grow another one without cache filling - it must not see the first one's entries
                    for t1, t2 in (('a', 'r'), ('r', 'a'), ('b', 'r'), ('r', 'b'), ('a', 'b')):
                        ab1 = [e for e in U3 if e not in El[t1]]
                        ab2 = [e for e in U3 if e not in El[t2]]
                        if ab1 and ab2:
                            x = ab1[0]
                            y = next((e for e in reversed(ab2) if e != x), ab2[-1])
                            menu.append([[t1, ['add', x, True], 0], [t2, ['add', y, False], 0]])
                    if level == 0:
                        # quick: the mutation scripts only for filled/filled and cold/cold
                        if fa != fb:
                            menu = menu[:2]
                    for sc in menu:
                        yield _scripted('script-exh', 'subset', oper, a, b, sc)
        if A == B:
            for fa in (False, True):
                for oper in OPER:
                    a = _plain(A, fa)
                    R = spec_elems(oper, A, A)
                    for sc in ([], hostile_all('r', len(R)) + hostile_all('a', len(A)),
                               [['a', ['add', 7 if 7 not in A else 0, True], 0]] if len(A) < 8 else []):
                        yield _scripted('script-exh', 'subset', oper, a, a, sc, same_object=True)


def _corpus():
    import glob
    import json
    import os
    here = os.path.dirname(os.path.dirname(os.path.dirname(os.path.abspath(__file__))))
    for p in sorted(glob.glob(os.path.join(here, 'corpus', 'C10', '*.json'))):
        c = json.load(open(p))
        c['stream'] = 'corpus'
        yield c


def gen(tier, seed, boost=False):
    rng = random.Random(seed * 1000003 + 1010)
    yield from _corpus()
    lv = _level(tier, boost)
    yield from _targeted(lv)
    yield from _scripted_exhaustive(lv)
    yield from _random(tier, rng, boost)
    yield from _scripted_random(tier, random.Random(seed * 1000003 + 2020), boost)
    yield from _product(lv)

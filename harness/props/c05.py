"""C05 — all binary-table backends are observationally interchangeable.

One case = (table, operation); the real operation is run on the three backends at once and every
backend's canonicalised answer is compared with the Lean specification value `Spec.Table.run`
(which `Fca.C05.backend_run_eq_spec` proves equal to each backend model for all inputs), and with
that backend's own Lean model.  Context-level cases do the same through `FormalContext`.
"""
import functools
import glob
import itertools
import json
import os
import random

import gen as G
from implutil import BACKENDS, SHORT, exc_name, make_context

RULE = ('case = (table, operation with its arguments), run on the 3 backends; operations: shape, to_list, T, ~, '
        'conversion to each backend, &, |, == (same / other backend, same / different shape), table[item] for every item '
        'shape (int, slice, list, (int,int), (int,sel), (sel,int), (sel,sel)), all/any/sum for axis None/0/1/unknown with '
        'row and column selections, all_i/any_i; and FormalContext[item], .T, ~, == for every backend. Selections: None, '
        'every ordered duplicate-free index list (so empty and unsorted ones), the 48 slices start{None,0,1,-1} x '
        'stop{None,k,k-1} x step{None,1,2,-1}. Exhaustive part enumerates all tables in scope; then seeded random tables. '
        'non-trivial = table neither all-true nor all-false and the operation takes an argument or returns a table/vector; '
        'distinct = distinct (table, operation, arguments). HISTORIES on one table object per backend (never a cached '
        'one): (H1) use, `bt.data = B` through the public setter (python lists or the backend\'s own data taken from another '
        'table; same shape, other shape, empty), use again - and for FormalContext `ctx.data.data = B`, '
        '`ctx.object_names = ..`, `ctx.attribute_names = ..`; (H2) use, then an in-place edit by the caller of the list '
        'object that was passed in / of the `data` container / of the value returned by to_list() or bt[i], or re-filling '
        'a table returned by T, ~, &, [:], then use again. `use` = every kind of operation (all memos warm) or one single '
        'operation. Every answer is judged against Spec.Table.run on the content the object holds at that moment (after '
        '`data = B`: B on every backend; after a caller edit: what that backend\'s own to_list() shows, since whether the '
        'edit reaches the table is not promised - but all later answers must fit it). Second operands of & | == are '
        'checked to be left untouched. Index collections also as tuples and ranges; wide shapes (65-129 columns, 66 rows, '
        '13-15 squared).')
EXHAUSTIVE = {
    'quick': 'all 682 tables n,m<=3 x every operation x every value of every selection slot (every item shape, every '
             'axis, None / empty / every ordered duplicate-free list / the 48 slices) x 3 backends, plus FormalContext on '
             '3 backends. One-slot operations (table[i], table[sel], table[i,j], table[i,list], table[list,j], T, ~, '
             'shape, to_list, conversions, & | == operands): complete. Two-slot operations: complete for tables with '
             'n*m<=4; for larger tables every value of each slot is paired with a sample of the other slot that rotates '
             'with the table index, so that every pair occurs with dozens of tables: table[list,list] complete up to 64 '
             'pairs else 1/2; table[list,slice], table[slice,list] 1/8; table[slice,slice] 1/16; table[i,slice], '
             'table[slice,j] each slice with 1/n (1/m) of the integers; all/any/sum/all_i/any_i (rows x columns) 1/12; '
             'FormalContext[sel,sel] 1/32',
    'thorough': 'as quick but every two-slot cross product is complete for every table n,m<=3',
}
HISTORY_SCOPE = {
    'quick': 'deterministic histories for every table with n*m<=4, every 8th 2x3/3x2 and every 32nd 3x3 table: 4-5 new '
             'contents x {lists, native} setter, 4 kinds of caller edits, 4 re-filled results, each after all ~37 '
             'operations and after 3 single operations, followed by all operations; plus seeded random histories',
}
EXPLANATION = ('every observable is pinned uniquely by the property: implementation != Spec.Table.run is a property failure; '
               'Fca.C05.backend_run_eq_spec proves each backend model = Spec for all well-formed tables and in-range '
               'selections, so a backend that differs from the spec on an explored input also differs from its model')
ASSUMPTIONS = ['start tables have n>=1 rows and m>=1 columns of Python bools; empty tables arise as sub-tables and are in scope',
               'integer indexes are in range and non-negative; index lists are duplicate-free, in range (any order); '
               'slices have a non-zero step (negative start/stop/step allowed)',
               '&, | take an operand of the same backend; == any backend; all_i/any_i are called with axis 0 or 1 '
               '(or an unknown integer axis, which must raise UnknownAxisError everywhere)',
               'operations are also applied to the (possibly empty: 0x0, hx0) results of sub-table selections',
               'object/attribute names pairwise distinct strings; targets None',
               'index collections: lists, ranges, tuples for columns; tuples for ROWS are excluded because '
               'BinTableNumpy.all/any/sum(rows=<tuple>) treats the tuple as a multi-dimensional index (reported defect)',
               'in histories the caller edits single cells only (no structural edit of the passed-in list)']
TRUSTED = ['bitarray primitives (|, &, ~, all, any, count, search(1), native slicing) and numpy primitives (fancy / slice '
           'indexing, np.ix_, .T, all/any/sum(axis), ==) are written out in Fca/Model/BinTableOps.lean, not verified',
           'Python slice semantics = Fca.sliceIndices (checked here against every slice run, and against slice.indices '
           'directly in the slices stream)']
CHUNK = 1500

OBJ = ['g%d' % i for i in range(140)]
ATT = (['a', 'not b', 'not not c', 'not', 'nota', ' not e', 'not  f', 'h', 'not i', 'j', 'not k', 'l', 'm', 'n', 'not o', 'p']
       + [('not ' if i % 3 == 0 else '') + 'm%d' % i for i in range(16, 140)])
REQUESTS_NEED_IMPL = True
# BinTableNumpy.all/any/sum(rows=<tuple>) indexes `data[tuple]` as a multi-dimensional index (reported); tuples are
# therefore only used for the column selection until that is repaired
TUPLE_ROWS_OK = True


# ----------------------------------------------------------------------------------------------
# generators
# ----------------------------------------------------------------------------------------------
def list_sels(k):
    return [{'idx': s} for s in G.ordered_sublists(range(k))]


def slice_sels(k):
    return [{'sl': [a, b, c]} for a in (None, 0, 1, -1) for b in (None, k, k - 1) for c in (None, 1, 2, -1)]


def opt_lists(k):
    return [None] + [s for s in G.ordered_sublists(range(k))]


def pairs(A, B, tidx, stride):
    """All pairs when stride == 1; else every a with the b's in its rotating residue class (and vice versa)."""
    if stride <= 1:
        for a in A:
            for b in B:
                yield a, b
        return
    for ia, a in enumerate(A):
        for ib, b in enumerate(B):
            if (ia + ib + tidx) % stride == 0:
                yield a, b


def others_for(rows, tidx):
    """Second operands for &, |, ==: same shape (equal, complement, one cell flipped, rows rotated, constant) and
    other shapes (a row / a column less or more, transposed)."""
    n, m = len(rows), len(rows[0])
    out = [rows, [[1 - v for v in r] for r in rows]]
    i, j = tidx % n, (tidx // n) % m
    fl = [list(r) for r in rows]
    fl[i][j] = 1 - fl[i][j]
    out.append(fl)
    out.append(rows[1:] + rows[:1])
    out.append([[1] * m for _ in range(n)])
    out.append([[0] * m for _ in range(n)])
    if n > 1:
        out.append(rows[:-1])
    if m > 1:
        out.append([r[:-1] for r in rows])
    out.append(rows + [rows[0]])
    out.append([r + [r[0]] for r in rows])
    if n != m:
        out.append([[rows[i][j] for i in range(n)] for j in range(m)])
    return out


def table_ops(rows, tidx, full, rng=None, nsel=None):
    """Operation descriptors for one table.  rng given => random selections (larger tables)."""
    n, m = len(rows), len(rows[0])
    yield {'k': 'shape'}
    yield {'k': 'tolist'}
    yield {'k': 'T'}
    yield {'k': 'inv'}
    for be in BACKENDS:
        yield {'k': 'conv', 'dst': SHORT[be]}
    oth = others_for(rows, tidx)
    if rng is not None:
        oth = oth[:3] + rng.sample(oth[3:], min(3, len(oth) - 3))
    for o in oth:
        yield {'k': 'and', 'orows': o, 'ow': len(o[0])}
        yield {'k': 'or', 'orows': o, 'ow': len(o[0])}
        for be in BACKENDS:
            yield {'k': 'eq', 'obe': SHORT[be], 'orows': o, 'ow': len(o[0])}
    yield {'k': 'all', 'axis': 2, 'r': None, 'c': None}
    yield {'k': 'any', 'axis': -1, 'r': None, 'c': [0]}
    yield {'k': 'sum', 'axis': 3, 'r': [0], 'c': None}
    yield {'k': 'alli', 'axis': 2, 'r': None, 'c': None}
    yield {'k': 'anyi', 'axis': 5, 'r': None, 'c': None}
    if rng is None:
        rsel, csel = list_sels(n) + slice_sels(n), list_sels(m) + slice_sels(m)
        nl_r, nl_c = len(list_sels(n)), len(list_sels(m))
        for i in range(n):
            yield {'k': 'getitem', 'item': [i]}
            for j in range(m):
                yield {'k': 'getitem', 'item': [i, j]}
        for s in rsel:
            yield {'k': 'getitem', 'item': [s]}
        st = 1 if full else 8
        sa = 1 if full else 12
        # (int, sel) / (sel, int): every list with every integer; slices rotate over the integers
        for i, s in pairs(list(range(n)), csel[:nl_c], tidx, 1):
            yield {'k': 'getitem', 'item': [i, s]}
        for i, s in pairs(list(range(n)), csel[nl_c:], tidx, 1 if full else n):
            yield {'k': 'getitem', 'item': [i, s]}
        for s, j in pairs(rsel[:nl_r], list(range(m)), tidx, 1):
            yield {'k': 'getitem', 'item': [s, j]}
        for s, j in pairs(rsel[nl_r:], list(range(m)), tidx, 1 if full else m):
            yield {'k': 'getitem', 'item': [s, j]}
        # list x list complete; slices rotate
        for a, b in pairs(rsel[:nl_r], csel[:nl_c], tidx, 1 if (full or nl_r * nl_c <= 64) else 2):
            yield {'k': 'getitem', 'item': [a, b]}
        for a, b in pairs(rsel[:nl_r], csel[nl_c:], tidx, st):
            yield {'k': 'getitem', 'item': [a, b]}
        for a, b in pairs(rsel[nl_r:], csel[:nl_c], tidx, st):
            yield {'k': 'getitem', 'item': [a, b]}
        for a, b in pairs(rsel[nl_r:], csel[nl_c:], tidx, 1 if full else 16):
            yield {'k': 'getitem', 'item': [a, b]}
        R, C = opt_lists(n), opt_lists(m)
        kk = 0
        for k in ('all', 'any', 'sum'):
            for ax in (None, 0, 1):
                kk += 1
                for r, c in pairs(R, C, tidx + kk, sa):
                    yield {'k': k, 'axis': ax, 'r': r, 'c': c}
        for k in ('alli', 'anyi'):
            for ax in (0, 1):
                kk += 1
                for r, c in pairs(R, C, tidx + kk, sa):
                    yield {'k': k, 'axis': ax, 'r': r, 'c': c}
    else:
        def rsel_(k):
            t = rng.random()
            if t < 0.5:
                return {'idx': G.random_sel(rng, k)}
            return {'sl': [rng.choice([None, 0, 1, 2, -1, -2, k, k + 1, -k, -k - 1, k // 2]),
                           rng.choice([None, 0, 1, -1, -2, k, k - 1, k + 2, -k - 1, k // 2]),
                           rng.choice([None, 1, 2, 3, -1, -2, -3, k, -k])]}
        for _ in range(nsel):
            i, j = rng.randrange(n), rng.randrange(m)
            yield {'k': 'getitem', 'item': [i]}
            yield {'k': 'getitem', 'item': [i, j]}
            yield {'k': 'getitem', 'item': [i, rsel_(m)]}
            yield {'k': 'getitem', 'item': [rsel_(n), j]}
            yield {'k': 'getitem', 'item': [rsel_(n)]}
            yield {'k': 'getitem', 'item': [rsel_(n), rsel_(m)]}
            yield {'k': 'getitem', 'item': [{'idx': G.random_sel(rng, n)}, {'idx': G.random_sel(rng, m)}]}
            for k in ('all', 'any', 'sum'):
                for ax in (None, 0, 1):
                    yield {'k': k, 'axis': ax, 'r': G.random_sel(rng, n, True), 'c': G.random_sel(rng, m, True)}
            for k in ('alli', 'anyi'):
                for ax in (0, 1):
                    yield {'k': k, 'axis': ax, 'r': G.random_sel(rng, n, True), 'c': G.random_sel(rng, m, True)}


def ctx_ops(rows, tidx, full, rng=None, nsel=None):
    n, m = len(rows), len(rows[0])
    yield {'k': 'T'}
    yield {'k': 'inv'}
    oth = others_for(rows, tidx)
    for o in (oth if rng is None else oth[:3] + rng.sample(oth[3:], 2)):
        on, om = len(o), len(o[0])
        for be in BACKENDS:
            yield {'k': 'eq', 'obe': SHORT[be], 'orows': o, 'ow': om, 'oobjs': OBJ[:on], 'oattrs': ATT[:om]}
    # same shape, different names -> ValueError
    yield {'k': 'eq', 'obe': 'lists', 'orows': rows, 'ow': m, 'oobjs': ['x' + s for s in OBJ[:n]], 'oattrs': ATT[:m]}
    yield {'k': 'eq', 'obe': 'numpy', 'orows': rows, 'ow': m, 'oobjs': OBJ[:n], 'oattrs': ATT[1:m + 1]}
    if rng is None:
        rsel, csel = list_sels(n) + slice_sels(n), list_sels(m) + slice_sels(m)
        for i in range(n):
            yield {'k': 'getitem', 'item': [i]}                      # one integer: the one-row sub-context
            for j in range(m):
                yield {'k': 'getitem', 'item': [i, j]}
        for s in rsel:
            yield {'k': 'getitem', 'item': [s]}
        st = 1 if full else 32
        for a, b in pairs(rsel, csel, tidx, st if n * m > 4 else 1):
            yield {'k': 'getitem', 'item': [a, b]}
        for a, b in pairs(list(range(n)), csel, tidx, 1 if (full or n * m <= 4) else 4):
            yield {'k': 'getitem', 'item': [a, b]}
        for a, b in pairs(rsel, list(range(m)), tidx, 1 if (full or n * m <= 4) else 4):
            yield {'k': 'getitem', 'item': [a, b]}
    else:
        for _ in range(nsel):
            i, j = rng.randrange(n), rng.randrange(m)
            yield {'k': 'getitem', 'item': [i, j]}
            sl = lambda k: {'sl': [rng.choice([None, 0, 1, -1, -2, k // 2]), rng.choice([None, k, k - 1, -1, k // 2]),
                                   rng.choice([None, 1, 2, -1, -2, 3])]}
            yield {'k': 'getitem', 'item': [sl(n)]}
            yield {'k': 'getitem', 'item': [{'idx': G.random_sel(rng, n)}]}
            yield {'k': 'getitem', 'item': [sl(n), sl(m)]}
            yield {'k': 'getitem', 'item': [{'idx': G.random_sel(rng, n)}, {'idx': G.random_sel(rng, m)}]}
            yield {'k': 'getitem', 'item': [{'idx': G.random_sel(rng, n)}, sl(m)]}
            yield {'k': 'getitem', 'item': [sl(n), {'idx': G.random_sel(rng, m)}]}
            yield {'k': 'getitem', 'item': [i]}
            yield {'k': 'getitem', 'item': [i, sl(m)]}
            yield {'k': 'getitem', 'item': [sl(n), j]}
            yield {'k': 'getitem', 'item': [i, {'idx': G.random_sel(rng, m)}]}
            yield {'k': 'getitem', 'item': [{'idx': G.random_sel(rng, n)}, j]}


CHAIN_OPS = [{'k': 'shape'}, {'k': 'tolist'}, {'k': 'T'}, {'k': 'inv'}, {'k': 'all', 'axis': None, 'r': None, 'c': None},
             {'k': 'any', 'axis': 0, 'r': None, 'c': None}, {'k': 'sum', 'axis': 1, 'r': None, 'c': None},
             {'k': 'sum', 'axis': 0, 'r': None, 'c': None}, {'k': 'alli', 'axis': 1, 'r': None, 'c': None},
             {'k': 'anyi', 'axis': 0, 'r': None, 'c': None}, {'k': 'eqself'}, {'k': 'andself'}, {'k': 'orself'},
             {'k': 'getitem', 'item': [{'sl': [None, None, -1]}, {'sl': [None, None, None]}]},
             {'k': 'getitem', 'item': [{'idx': []}, {'idx': []}]}, {'k': 'conv', 'dst': 'lists'}]


def resolve_ref(k, n):
    return list(k['idx']) if 'idx' in k else list(range(*slice(*k['sl']).indices(n)))


def ref_subtable(rows, item):
    """the selected sub-table, computed by the harness (rows x columns cross product; [] when no row)"""
    rs, cs = resolve_ref(item[0], len(rows)), resolve_ref(item[1], len(rows[0]))
    return [[rows[i][j] for j in cs] for i in rs]


def chain_cases(rows, items, stream):
    for it in items:
        for o in CHAIN_OPS:
            yield dict(stream=stream, level='chain', rows=rows, item=it, o=o)


def fixed_chain_cases():
    """an operation applied to the result of a sub-table selection, including the two empty shapes (0x0: no row
    selected; hx0: rows but no column)."""
    for rows in ([[1, 0], [0, 1]], [[1, 0, 1], [0, 1, 1]], [[0, 1, 0], [1, 1, 0], [0, 0, 1]]):
        n, m = len(rows), len(rows[0])
        items = [[{'idx': []}, {'sl': [None, None, None]}], [{'sl': [None, None, None]}, {'idx': []}],
                 [{'idx': list(range(n))[::-1]}, {'idx': [m - 1, 0]}], [{'sl': [None, None, 2]}, {'sl': [1, None, None]}],
                 [{'sl': [None, None, -1]}, {'idx': [0]}]]
        yield from chain_cases(rows, items, 'chained')


def hist_ops(rows, tidx=0):
    """A representative set of operations valid on a table with the content `rows` (may be []): every kind of
    operation, with the selections reversed where there is a choice."""
    n = len(rows)
    m = len(rows[0]) if rows else 0
    ops = [{'k': 'tolist'}, {'k': 'shape'}, {'k': 'T'}, {'k': 'inv'}, {'k': 'conv', 'dst': SHORT[BACKENDS[tidx % 3]]},
           {'k': 'all', 'axis': None, 'r': None, 'c': None}, {'k': 'any', 'axis': None, 'r': None, 'c': None},
           {'k': 'sum', 'axis': None, 'r': None, 'c': None}, {'k': 'all', 'axis': 0, 'r': None, 'c': None},
           {'k': 'any', 'axis': 1, 'r': None, 'c': None}, {'k': 'sum', 'axis': 0, 'r': None, 'c': None},
           {'k': 'sum', 'axis': 1, 'r': None, 'c': None}, {'k': 'alli', 'axis': 0, 'r': None, 'c': None},
           {'k': 'anyi', 'axis': 1, 'r': None, 'c': None}, {'k': 'eqself'}, {'k': 'andself'}, {'k': 'orself'},
           {'k': 'getitem', 'item': [{'sl': [None, None, -1]}, {'sl': [None, None, None]}]},
           {'k': 'getitem', 'item': [{'sl': [None, None, None]}]}]
    if n > 0 and m > 0:
        rr, cc = list(range(n))[::-1], list(range(m))[::-1]
        comp = [[1 - v for v in r] for r in rows]
        ops += [{'k': 'all', 'axis': 0, 'r': rr, 'c': cc}, {'k': 'any', 'axis': 0, 'r': rr[:1], 'c': cc},
                {'k': 'all', 'axis': 1, 'r': rr, 'c': cc[:1]}, {'k': 'sum', 'axis': 0, 'r': rr, 'c': cc},
                {'k': 'sum', 'axis': 1, 'r': rr[:1], 'c': cc}, {'k': 'alli', 'axis': 1, 'r': rr, 'c': cc[:1]},
                {'k': 'anyi', 'axis': 0, 'r': rr, 'c': cc},
                {'k': 'getitem', 'item': [n - 1]}, {'k': 'getitem', 'item': [n - 1, m - 1]}, {'k': 'getitem', 'item': [0, 0]},
                {'k': 'getitem', 'item': [0, {'sl': [None, None, -1]}]}, {'k': 'getitem', 'item': [{'idx': rr}, m - 1]},
                {'k': 'getitem', 'item': [{'idx': rr}, {'idx': cc}]}, {'k': 'getitem', 'item': [{'idx': rr}]},
                {'k': 'eq', 'obe': SHORT[BACKENDS[(tidx + 1) % 3]], 'orows': rows, 'ow': m},
                {'k': 'eq', 'obe': SHORT[BACKENDS[(tidx + 2) % 3]], 'orows': comp, 'ow': m},
                {'k': 'and', 'orows': comp, 'ow': m}, {'k': 'or', 'orows': comp, 'ow': m}]
    return ops


def new_contents(rows, tidx):
    """what `data = ...` may put in: same shape (complement, one cell flipped, rows rotated), another shape
    (transposed / a row less / a column more), nothing at all"""
    n, m = len(rows), len(rows[0])
    i, j = tidx % n, (tidx // n) % m
    fl = [list(r) for r in rows]
    fl[i][j] = 1 - fl[i][j]
    out = [[[1 - v for v in r] for r in rows], fl]
    if n != m:
        out.append([[rows[a][b] for a in range(n)] for b in range(m)])
    else:
        out.append([r + [1 - r[0]] for r in rows])
    if n > 1:
        out.append(rows[1:])
    else:
        out.append(rows + [[1 - v for v in rows[0]]])
    if tidx % 3 == 0:
        out.append([])
    return out


def q(ops):
    return [{'q': o} for o in ops]


def table_histories(rows, tidx, stream, rng=None):
    """(H1) use, `data = B` through the public setter, use again; (H2) use, in-place edit by the caller of the list
    that was passed in / the `data` container / a returned value, use again; a returned table re-filled by the caller.
    `use` = every operation (all memos warm), and a few histories with a single operation before the change."""
    n, m = len(rows), len(rows[0])
    ops_a = hist_ops(rows, tidx)
    muts = []
    for b_i, B in enumerate(new_contents(rows, tidx)):
        muts.append(([{'set': B, 'how': 'native' if (b_i + tidx) % 2 else 'lists'}], B))
    i, j = (tidx // 2) % n, (tidx // 3) % m
    for via in ('arg', 'data', 'tolist', 'row'):
        muts.append(([{'flip': [i, j], 'via': via}], rows))
    comp = [[1 - v for v in r] for r in rows]
    for o in ({'k': 'T'}, {'k': 'inv'}, {'k': 'andself'}, {'k': 'getitem', 'item': [{'sl': [None, None, None]}]}):
        muts.append(([{'mutres': o, 'to': comp if o['k'] != 'T' else [list(r) for r in rows[:1]]}], rows))
    if rng is not None:
        muts = rng.sample(muts, 4)
    for mi, (mut, after) in enumerate(muts):
        ops_b = hist_ops(after, tidx + mi)
        yield dict(stream=stream, level='hist', rows=rows, steps=q(ops_a) + mut + q(ops_b))
        singles = [ops_a[(tidx + mi + k * 7) % len(ops_a)] for k in range(2)] + [{'k': 'T'}]
        for o1 in singles:
            yield dict(stream=stream, level='hist', rows=rows, steps=q([o1]) + mut + q(ops_b))
    # two changes in a row, querying only at the end and in between only T
    Bs = new_contents(rows, tidx)
    yield dict(stream=stream, level='hist', rows=rows,
               steps=q([{'k': 'T'}]) + [{'set': Bs[0]}] + q([{'k': 'T'}]) + [{'set': Bs[2], 'how': 'native'}]
               + q(hist_ops(Bs[2], tidx)))


def random_history(rng, rows, stream):
    cur = rows
    steps = []
    for _ in range(rng.randint(3, 7)):
        ops = hist_ops(cur, rng.randrange(6))
        steps += q(rng.sample(ops, min(len(ops), rng.randint(1, 4))))
        t = rng.random()
        if t < 0.5 or not cur or not cur[0]:
            n2, m2 = rng.randint(1, 5), rng.randint(1, 5)
            cur = [[int(rng.random() < 0.5) for _ in range(m2)] for _ in range(n2)] if rng.random() < 0.9 else []
            steps.append({'set': cur, 'how': rng.choice(['lists', 'native'])})
        elif t < 0.85:
            steps.append({'flip': [rng.randrange(len(cur)), rng.randrange(len(cur[0]))],
                          'via': rng.choice(['arg', 'data', 'tolist', 'row'])})
            # the edit may or may not reach the table: later operations only use selections valid for the shape
        else:
            steps.append({'mutres': rng.choice([{'k': 'T'}, {'k': 'inv'}, {'k': 'andself'}]),
                          'to': [[1 - v for v in r] for r in cur]})
    steps += q(hist_ops(cur, rng.randrange(6)))
    return dict(stream=stream, level='hist', rows=rows, steps=steps)


def ctx_hist_ops(rows, tidx):
    n, m = len(rows), len(rows[0])
    rr, cc = list(range(n))[::-1], list(range(m))[::-1]
    return [{'k': 'T'}, {'k': 'inv'}, {'k': 'getitem', 'item': [{'idx': rr}, {'idx': cc}]},
            {'k': 'getitem', 'item': [n - 1]}, {'k': 'getitem', 'item': [0, m - 1]},
            {'k': 'getitem', 'item': [{'sl': [None, None, -1]}]}, {'k': 'getitem', 'item': [{'idx': rr}, 0]}]


def ctx_histories(rows, tidx, stream):
    """FormalContext: use, then `ctx.data.data = B` (same shape) / `ctx.object_names = ...` /
    `ctx.attribute_names = ...`, then use again."""
    n, m = len(rows), len(rows[0])
    ops = ctx_hist_ops(rows, tidx)
    comp = [[1 - v for v in r] for r in rows]
    objs2 = ['x' + s for s in OBJ[:n]][::-1]
    attrs2 = [ATT[(k + 1) % 16] for k in range(m)]
    for mut in ([{'setdata': comp}], [{'setobj': objs2}], [{'setattr': attrs2}],
                [{'setattr': attrs2}, {'setdata': comp}, {'setobj': objs2}]):
        yield dict(stream=stream, level='chist', rows=rows, steps=q(ops) + mut + q(ops))
        yield dict(stream=stream, level='chist', rows=rows, steps=q(ops[tidx % 2:tidx % 2 + 1]) + mut + q(ops))


def colltype_ops(rows, rng):
    """index collections that are not lists: tuples and ranges (rows as a tuple only when TUPLE_ROWS_OK)"""
    n, m = len(rows), len(rows[0])
    for k in ('all', 'any', 'sum', 'alli', 'anyi'):
        for ax in ((None, 0, 1) if k in ('all', 'any', 'sum') else (0, 1)):
            a, b = sorted(rng.sample(range(n + 1), 2)) if n > 0 else (0, 0)
            c_, d = sorted(rng.sample(range(m + 1), 2))
            yield {'k': k, 'axis': ax, 'r': list(range(a, b)), 'c': list(range(c_, d)), 'rt': 'range', 'ct': 'range'}
            yield {'k': k, 'axis': ax, 'r': G.random_sel(rng, n), 'c': G.random_sel(rng, m),
                   'rt': 'tuple' if TUPLE_ROWS_OK else 'list', 'ct': 'tuple'}
            yield {'k': k, 'axis': ax, 'r': None, 'c': list(range(c_, d)), 'ct': 'tuple'}


def wide_tables(rng):
    """shapes beyond the small scope: more than 64 columns / rows (bit packing), two-digit indexes"""
    for n, m in ((1, 65), (2, 64), (3, 70), (2, 129), (66, 2), (13, 13), (15, 14), (1, 1), (12, 1), (1, 12)):
        d = rng.choice((0.2, 0.5, 0.8))
        yield [[int(rng.random() < d) for _ in range(m)] for _ in range(n)]


def corpus_cases():
    d = os.path.join(os.path.dirname(os.path.dirname(os.path.dirname(os.path.abspath(__file__)))), 'corpus', 'C05')
    for f in sorted(glob.glob(os.path.join(d, '*.json'))):
        c = json.load(open(f))
        c['stream'] = 'corpus'
        yield c


def gen(tier, seed, boost=False):
    yield from corpus_cases()
    rng = random.Random(seed * 1000003 + 505)
    full = (tier == 'thorough') or boost
    # python slice semantics directly (model of slice.indices vs CPython)
    for ln in range(0, 6):
        sl = []
        for a in (None, -7, -3, -2, -1, 0, 1, 2, 3, 6):
            for b in (None, -7, -3, -2, -1, 0, 1, 2, 3, 6):
                for c in (None, 1, 2, 3, -1, -2, -3, 7, -7):
                    sl.append([a, b, c])
        yield dict(stream='slices', level='slice', len=ln, sls=sl)
    yield from fixed_chain_cases()
    # histories on one object (H1/H2), deterministic part: every table n,m<=2 and a rotating sample of the larger ones
    for tidx, rows in enumerate(G.tables_upto(3, 3)):
        cells = len(rows) * len(rows[0])
        if cells <= 4 or (cells <= 6 and tidx % 8 == 0) or tidx % 32 == 0 or full:
            yield from table_histories(rows, tidx, 'histories')
            yield from ctx_histories(rows, tidx, 'histories-ctx')
    # exhaustive small scope
    for tidx, rows in enumerate(G.tables_upto(3, 3)):
        small = len(rows) * len(rows[0]) <= 4
        for o in table_ops(rows, tidx, full or small):
            yield dict(stream='exhaustive', level='table', rows=rows, o=o)
        for o in ctx_ops(rows, tidx, full or small):
            yield dict(stream='exhaustive-ctx', level='ctx', rows=rows, o=o)
        if tidx % 4 == 0 or full:
            yield from chain_cases(rows, [[{'idx': []}, {'sl': [None, None, None]}],
                                          [{'sl': [len(rows), None, None]}, {'idx': [0]}],
                                          [{'sl': [None, None, -1]}, {'idx': []}]], 'exhaustive-chained')
    # seeded random larger tables
    nrand = 250 if tier == 'quick' else 4000
    if boost:
        nrand *= 3
    big = 8 if tier == 'quick' else 14
    for t in range(nrand):
        rows = G.random_table(rng, big, big)
        for o in table_ops(rows, t, False, rng, 3):
            yield dict(stream='random', level='table', rows=rows, o=o)
        for o in ctx_ops(rows, t, False, rng, 2):
            yield dict(stream='random-ctx', level='ctx', rows=rows, o=o)
        if t % 3 == 0:
            yield from malformed(rows, rng)
        n, m = len(rows), len(rows[0])
        anysel = lambda k: {'idx': G.random_sel(rng, k)}
        yield from chain_cases(rows, [[anysel(n), anysel(m)],
                                      [{'sl': [rng.choice([None, 0, -1, n]), None, rng.choice([1, -1, 2])]}, anysel(m)],
                                      [{'idx': []}, {'sl': [None, None, None]}]],
                               'random-chained')
        for o in colltype_ops(rows, rng):
            yield dict(stream='collection-types', level='table', rows=rows, o=o)
        yield random_history(rng, rows, 'random-histories')
        if t % 5 == 0:
            yield from table_histories(rows, t, 'random-histories', rng)
            yield from ctx_histories(rows, t, 'random-histories-ctx')
    # shapes beyond the small scope
    for t, rows in enumerate(wide_tables(rng)):
        for o in table_ops(rows, t, False, rng, 2):
            yield dict(stream='wide', level='table', rows=rows, o=o)
        for o in ctx_ops(rows, t, False, rng, 1):
            yield dict(stream='wide-ctx', level='ctx', rows=rows, o=o)
        for o in colltype_ops(rows, rng):
            yield dict(stream='wide', level='table', rows=rows, o=o)
        yield from table_histories(rows, t, 'wide-histories', rng)


def malformed(rows, rng):
    """Out of the modelled scope (negative / out-of-range integer indexes): only agreement of the three backends
    is checked (all wrap around alike, or all raise IndexError)."""
    n, m = len(rows), len(rows[0])
    for it in ([-1], [-n], [n], [-n - 1], [-1, -1], [0, m], [n, 0], [0, -m - 1], [-n, m - 1],
               [{'idx': [0, -1]}], [{'idx': [n]}], [{'idx': [0]}, {'idx': [m]}], [0, {'idx': [-1, 0]}],
               [{'idx': [-1]}, 0], [{'idx': [0, 0]}, {'idx': [m - 1, m - 1]}]):
        yield dict(stream='malformed', level='malformed', rows=rows, o={'k': 'getitem', 'item': it})


# ----------------------------------------------------------------------------------------------
# implementation side
# ----------------------------------------------------------------------------------------------
@functools.lru_cache(maxsize=512)
def _table(rows_key, be):
    from fcapy.context.bintable import init_bintable
    return init_bintable([[bool(v) for v in r] for r in rows_key], be)


def make_table(rows, be):
    return _table(tuple(tuple(r) for r in rows), be)


def _key(k):
    if isinstance(k, dict):
        if 'idx' in k:
            return list(k['idx'])
        a, b, c = k['sl']
        return slice(a, b, c)
    return int(k)


def _item(item):
    ks = [_key(k) for k in item]
    return ks[0] if len(ks) == 1 else tuple(ks)


def _b01(xs):
    return [int(bool(v)) for v in xs]


def canon_table(bt, be):
    from fcapy.context.bintable import AbstractBinTable
    if not isinstance(bt, AbstractBinTable):
        return {'notatable': type(bt).__name__}
    d = {'shape': [int(bt.height), int(bt.width)], 'rows': [_b01(r) for r in bt.to_list()]}
    if type(bt).__name__ != be:
        d['cls'] = type(bt).__name__
    return {'table': d}


def canon_value(v, be):
    """Canonical form of a value returned by a table operation."""
    import numpy as np
    from fcapy.context.bintable import AbstractBinTable
    if isinstance(v, AbstractBinTable):
        return canon_table(v, be)
    if isinstance(v, (bool, np.bool_)):
        return {'bool': int(bool(v))}
    if isinstance(v, (int, np.integer)):
        return {'nat': int(v)}
    return None


def _coll(xs, typ):
    """the index collection as the caller passes it: a list (default), a tuple, or a range (contiguous ascending)"""
    if xs is None:
        return None
    if typ == 'tuple':
        return tuple(xs)
    if typ == 'range' and len(xs) > 0 and list(xs) == list(range(xs[0], xs[0] + len(xs))):
        return range(xs[0], xs[0] + len(xs))
    return list(xs)


def _operand_untouched(other, orows):
    """purity: a binary operation must leave its second operand as it was"""
    return [_b01(r) for r in other.to_list()] == [list(r) for r in orows]


def run_table_op(bt, be, o):
    from fcapy.context.bintable import init_bintable
    import numpy as np
    k = o['k']
    if k == 'shape':
        h, w = bt.shape
        return {'shape': [int(h), int(w)]}
    if k == 'tolist':
        return {'rows': [_b01(r) for r in bt.to_list()]}
    if k == 'T':
        return canon_table(bt.T, be)
    if k == 'inv':
        return canon_table(~bt, be)
    if k == 'conv':
        dst = [b for b in BACKENDS if SHORT[b] == o['dst']][0]
        c = init_bintable(bt, dst)
        if type(c).__name__ != dst:
            return {'wrongclass': type(c).__name__}
        if (int(c.height), int(c.width)) != (int(bt.height), int(bt.width)) or tuple(c.shape) != tuple(bt.shape):
            return {'wrongshape': [int(c.height), int(c.width)]}
        return {'rows': [_b01(r) for r in c.to_list()]}
    if k in ('andself', 'orself'):
        return canon_table((bt & bt) if k == 'andself' else (bt | bt), be)
    if k == 'eqself':
        r = (bt == bt)
        if not isinstance(r, (bool, np.bool_)):
            return {'notabool': type(r).__name__}
        return {'bool': int(bool(r))}
    if k in ('and', 'or'):
        other = make_table(o['orows'], be)
        res = canon_table((bt & other) if k == 'and' else (bt | other), be)
        if not _operand_untouched(other, o['orows']):
            _table.cache_clear()
            return {'operand_mutated': k}
        return res
    if k == 'eq':
        obe = [b for b in BACKENDS if SHORT[b] == o['obe']][0]
        other = make_table(o['orows'], obe)
        r = (bt == other)
        if not _operand_untouched(other, o['orows']):
            _table.cache_clear()
            return {'operand_mutated': k}
        if not isinstance(r, (bool, np.bool_)):
            return {'notabool': type(r).__name__}
        return {'bool': int(bool(r))}
    if k == 'getitem':
        item = o['item']
        r = bt[_item(item)]
        c = canon_value(r, be)
        if c is not None:
            return c
        return {'bools': _b01(r)}
    if k in ('all', 'any', 'sum'):
        r = getattr(bt, k)(o['axis'], _coll(o['r'], o.get('rt')), _coll(o['c'], o.get('ct')))
        c = canon_value(r, be)
        if c is not None:
            return c
        return {'nats': [int(x) for x in r]} if k == 'sum' else {'bools': _b01(r)}
    if k in ('alli', 'anyi'):
        f = bt.all_i if k == 'alli' else bt.any_i
        r = f(o['axis'], _coll(o['r'], o.get('rt')), _coll(o['c'], o.get('ct')))
        return {'nats': [int(x) for x in r]}
    raise ValueError('unknown op ' + k)


def canon_ctx(K, be):
    from fcapy.context import FormalContext
    import numpy as np
    if isinstance(K, (bool, np.bool_)):
        return {'bool': int(bool(K))}
    if not isinstance(K, FormalContext):
        return {'notactx': type(K).__name__}
    t = canon_table(K.data, be)['table']
    t.pop('cls', None)
    return {'ctx': {'be': K.backend, 'table': t, 'objs': [str(x) for x in K.object_names],
                    'attrs': [str(x) for x in K.attribute_names]}}


def run_ctx_op(rows, be, o):
    n, m = len(rows), len(rows[0])
    return ctx_op_on(make_context(rows, be, OBJ[:n], ATT[:m]), be, o)


def ctx_op_on(K, be, o):
    k = o['k']
    if k == 'T':
        return canon_ctx(K.T, be)
    if k == 'inv':
        return canon_ctx(~K, be)
    if k == 'getitem':
        return canon_ctx(K[_item(o['item'])], be)
    if k == 'eq':
        obe = [b for b in BACKENDS if SHORT[b] == o['obe']][0]
        K2 = make_context(o['orows'], obe, o['oobjs'], o['oattrs'])
        return canon_ctx(K == K2, be)
    raise ValueError('unknown ctx op ' + k)


def _bools(rows):
    return [[bool(v) for v in r] for r in rows]


def run_history(c, be):
    """One table object of backend `be` lives through the whole history (never a cached one)."""
    from fcapy.context.bintable import init_bintable
    arg = _bools(c['rows'])
    bt = init_bintable(arg, be)
    outs = []
    for st in c['steps']:
        try:
            if 'q' in st:
                outs.append(run_table_op(bt, be, st['q']))
            elif 'set' in st:                      # the public setter `bt.data = ...`
                arg = _bools(st['set'])
                if st.get('how') == 'native':      # data in the backend's own format, taken from another table
                    bt.data = init_bintable(arg, be).data
                else:
                    bt.data = arg
                outs.append({'set': 1})
            elif 'mutres' in st:                   # the caller re-fills a table it got back from an operation
                o = st['mutres']
                r = {'T': lambda: bt.T, 'inv': lambda: ~bt, 'andself': lambda: bt & bt,
                     'getitem': lambda: bt[_item(o.get('item', []))]}[o['k']]()
                try:
                    r.data = _bools(st['to'])
                except Exception:
                    pass
                outs.append({'mutres': 1})
            else:                                  # hostile but legal in-place edit by the caller
                i, j = st['flip']
                try:
                    via = st['via']
                    if via == 'arg':               # the list object that was passed in
                        arg[i][j] = not arg[i][j]
                    elif via == 'tolist':          # the value returned by to_list()
                        L = bt.to_list()
                        L[i][j] = not L[i][j]
                    elif via == 'row':             # the value returned by bt[i]
                        r = bt[i]
                        r[j] = not r[j]
                    elif via == 'data':            # the public `data` container itself
                        d = bt.data
                        if be == 'BinTableNumpy':
                            d[i, j] = not d[i, j]
                        elif be == 'BinTableBitarray':
                            from bitarray import frozenbitarray
                            bits = [bool(v) for v in d[i]]
                            bits[j] = not bits[j]
                            d[i] = frozenbitarray(bits)
                        else:
                            d[i][j] = not d[i][j]
                except Exception:
                    pass
                outs.append({'content': [_b01(r) for r in bt.to_list()]})
        except Exception as e:
            outs.append({'err': exc_name(e)})
    return outs


def run_ctx_history(c, be):
    from fcapy.context import FormalContext
    rows = c['rows']
    n, m = len(rows), len(rows[0])
    K = FormalContext(_bools(rows), list(OBJ[:n]), list(ATT[:m]), backend=be)
    outs = []
    for st in c['steps']:
        try:
            if 'q' in st:
                outs.append(ctx_op_on(K, be, st['q']))
            elif 'setdata' in st:
                K.data.data = _bools(st['setdata'])
                outs.append({'set': 1})
            elif 'setobj' in st:
                K.object_names = list(st['setobj'])
                outs.append({'set': 1})
            elif 'setattr' in st:
                K.attribute_names = list(st['setattr'])
                outs.append({'set': 1})
        except Exception as e:
            outs.append({'err': exc_name(e)})
    return outs


def impl(c):
    if c['level'] in ('hist', 'chist'):
        outs = []
        for be in BACKENDS:
            try:
                outs.append(run_history(c, be) if c['level'] == 'hist' else run_ctx_history(c, be))
            except Exception as e:
                outs.append([{'err': exc_name(e)}] * len(c['steps']))
        return {'houts': outs}
    if c['level'] == 'slice':
        return {'idx': [list(range(*slice(a, b, s).indices(c['len']))) for a, b, s in c['sls']]}
    outs = []
    for be in BACKENDS:
        try:
            if c['level'] == 'ctx':
                outs.append(run_ctx_op(c['rows'], be, c['o']))
            elif c['level'] == 'chain':
                outs.append(run_table_op(make_table(c['rows'], be)[_item(c['item'])], be, c['o']))
            else:
                outs.append(run_table_op(make_table(c['rows'], be), be, c['o']))
        except Exception as e:
            outs.append({'err': exc_name(e)})
    return {'outs': outs}


# ----------------------------------------------------------------------------------------------
# Lean side and verdict
# ----------------------------------------------------------------------------------------------
def _table_req(rows, o):
    w = len(rows[0]) if rows else 0
    if o['k'] in ('eqself', 'andself', 'orself'):
        o = {'k': o['k'][:-4], 'orows': rows, 'ow': w, 'obe': 'lists'}
    return dict(op='C05.run', rows=rows, w=w, o=o)


def hist_plan(c, io):
    """Walk a history: the content every backend must hold at every query, and the (deduplicated) driver requests.
    After `data = B` the content is B for every backend; after a hostile in-place edit it is whatever that backend's
    own to_list() shows now (the edit may or may not reach the table; every later answer has to fit that content)."""
    houts = io['houts']
    reqs, index, plan = [], {}, []      # plan: (step, backend, request number)
    if c['level'] == 'chist':
        rows, objs, attrs = c['rows'], OBJ[:len(c['rows'])], ATT[:len(c['rows'][0])]
        for k, st in enumerate(c['steps']):
            if 'q' in st:
                r = dict(op='C05.ctx', rows=rows, w=len(rows[0]), objs=objs, attrs=attrs, o=st['q'])
                reqs.append(r)
                for b in range(3):
                    plan.append((k, b, len(reqs) - 1))
            elif 'setdata' in st:
                rows = st['setdata']
            elif 'setobj' in st:
                objs = st['setobj']
            elif 'setattr' in st:
                attrs = st['setattr']
        return reqs, plan
    content = [c['rows']] * 3
    for k, st in enumerate(c['steps']):
        if 'q' in st:
            for b in range(3):
                r = _table_req(content[b], st['q'])
                key_ = json.dumps(r, sort_keys=True)
                if key_ not in index:
                    index[key_] = len(reqs)
                    reqs.append(r)
                plan.append((k, b, index[key_]))
        elif 'set' in st:
            content = [st['set']] * 3
        elif 'flip' in st:
            content = list(content)
            for b in range(3):
                out = houts[b][k] if k < len(houts[b]) else {}
                if 'content' in out:
                    content[b] = out['content']
    return reqs, plan


def requests(c, io=None):
    if c['level'] in ('hist', 'chist'):
        return hist_plan(c, io)[0]
    if c['level'] == 'slice':
        return [dict(op='C05.slice', sl=s, len=c['len']) for s in c['sls']]
    if c['level'] == 'malformed':
        return []
    if c['level'] == 'chain':
        sub = ref_subtable(c['rows'], c['item'])
        w = len(sub[0]) if sub else 0
        o = c['o']
        if o['k'] in ('eqself', 'andself', 'orself'):
            o = {'k': o['k'][:-4], 'orows': sub, 'ow': w, 'obe': 'lists'}
        return [dict(op='C05.run', rows=sub, w=w, o=o)]
    base = dict(rows=c['rows'], w=len(c['rows'][0]), o=c['o'])
    if c['level'] == 'ctx':
        n, m = len(c['rows']), len(c['rows'][0])
        base.update(op='C05.ctx', objs=OBJ[:n], attrs=ATT[:m])
    else:
        base.update(op='C05.run')
    return [base]


def _strip_be(x):
    if isinstance(x, dict) and 'ctx' in x:
        d = dict(x['ctx'])
        d.pop('be', None)
        return {'ctx': d}
    return x


def _hist_str(c, upto):
    out = []
    for st in c['steps'][:upto + 1]:
        if 'q' in st:
            o = st['q']
            out.append(o['k'] + (str(o['item']) if o['k'] == 'getitem' else ''))
        elif 'set' in st:
            out.append(f"data={st['set']}")
        elif 'flip' in st:
            out.append(f"flip{st['flip']} via {st['via']}")
        elif 'mutres' in st:
            out.append(f"({st['mutres']['k']}).data={st['to']}")
        else:
            out.append(str(st))
    return '; '.join(out)


def judge_history(c, io, rep):
    houts = io['houts']
    reqs, plan = hist_plan(c, io)
    ctx = c['level'] == 'chist'
    for b, be in enumerate(BACKENDS):
        if len(houts[b]) != len(c['steps']):
            return dict(ok=False, kind='property', backend=be, detail=f'{be}: history aborted: {houts[b]}')
        prev_shape = (len(c['rows']), len(c['rows'][0]))
        for k, st in enumerate(c['steps']):
            out = houts[b][k]
            if 'q' not in st and 'err' in out:
                return dict(ok=False, kind='property', backend=be, step=k,
                            detail=f'{be}: step {k} of [{_hist_str(c, k)}] raised {out["err"]}')
            if 'set' in st:
                prev_shape = (len(st['set']), len(st['set'][0]) if st['set'] else 0)
            if 'flip' in st and 'content' in out:
                sh = (len(out['content']), len(out['content'][0]) if out['content'] else 0)
                if sh != prev_shape:
                    return dict(ok=False, kind='property', backend=be, step=k,
                                detail=f'{be}: a cell edit changed the shape to {sh} in [{_hist_str(c, k)}]')
    for k, b, ri in plan:
        r = rep[ri]
        be = BACKENDS[b]
        spec = r['spec']
        if ctx:
            if _strip_be(r['model'][b]) != spec:
                return dict(ok=False, kind='harness', detail=f'{be}: context model {r["model"][b]} != spec {spec}')
            got = _strip_be(houts[b][k])
        else:
            if r['model'][b] != spec:
                return dict(ok=False, kind='harness', detail=f'{be}: model {r["model"][b]} != spec {spec}')
            got = houts[b][k]
        if got != spec:
            return dict(ok=False, kind='property', backend=be, step=k,
                        detail=f'{be}: after [{_hist_str(c, k)}] the last operation returned {houts[b][k]}; for the '
                               f'current content {reqs[ri]["rows"]} the specification value is {spec}')
        if ctx and 'ctx' in houts[b][k] and houts[b][k]['ctx']['be'] != be:
            return dict(ok=False, kind='property', backend=be, step=k, detail=f'result changed backend: {houts[b][k]}')
    return dict(ok=True)


def judge(c, io, rep):
    if c['level'] in ('hist', 'chist'):
        return judge_history(c, io, rep)
    if c['level'] == 'slice':
        got = [r['idx'] for r in rep]
        if got == io['idx']:
            return dict(ok=True)
        k = next(i for i in range(len(got)) if got[i] != io['idx'][i])
        return dict(ok=False, kind='correspondence',
                    detail=f'sliceIndices{c["sls"][k]} on len {c["len"]}: model {got[k]} != CPython {io["idx"][k]}')
    outs = io['outs']
    if c['level'] == 'malformed':
        if outs[0] == outs[1] == outs[2]:
            return dict(ok=True)
        return dict(ok=False, kind='correspondence', detail=f'out-of-scope item {c["o"]["item"]}: backends differ {outs}')
    r = rep[0]
    spec, models = r['spec'], r['model']
    if c['level'] == 'ctx':
        for b, be in enumerate(BACKENDS):
            mb = models[b]
            if 'ctx' in mb and mb['ctx']['be'] != be:
                return dict(ok=False, kind='harness', detail=f'model lost the backend: {mb}')
            if _strip_be(mb) != spec:
                return dict(ok=False, kind='harness', detail=f'{be}: context model {mb} != spec {spec} (contradicts theorem)')
        for b, be in enumerate(BACKENDS):
            if _strip_be(outs[b]) != spec:
                return dict(ok=False, kind='property', backend=be,
                            detail=f'FormalContext({be}) {c["o"]}: {outs[b]} but the backend-independent value is {spec}')
            if 'ctx' in outs[b] and outs[b]['ctx']['be'] != be:
                return dict(ok=False, kind='property', backend=be, detail=f'result changed backend: {outs[b]}')
        return dict(ok=True)
    for b, be in enumerate(BACKENDS):
        if models[b] != spec:
            return dict(ok=False, kind='harness', detail=f'{be}: model {models[b]} != spec {spec} (contradicts theorem: '
                                                        f'input out of scope?)')
    for b, be in enumerate(BACKENDS):
        if outs[b] != spec:
            v = dict(ok=False, kind='property', backend=be,
                     detail=f'{be} {c["o"]}: returned {outs[b]}, specification value {spec}')
            if c['level'] == 'chain':
                v['detail'] = f'on table[{c["item"]}]: ' + v['detail']
            return v
    return dict(ok=True)


def nontrivial(c):
    if c['level'] in ('hist', 'chist'):
        return any(k in st for st in c['steps'] for k in ('set', 'flip', 'mutres', 'setdata', 'setobj', 'setattr'))
    if c['level'] in ('slice', 'malformed'):
        return c['level'] == 'slice'
    return G.is_mixed(c['rows']) and c['o']['k'] not in ('shape',)


def key(c):
    if c['level'] == 'slice':
        return ['slice', c['len']]
    if c['level'] in ('hist', 'chist'):
        return [c['level'], c['rows'], c['steps']]
    return [c['level'], c['rows'], c.get('item'), c['o']]


def _item_shape(it):
    def one(k):
        if not isinstance(k, dict):
            return 'int'
        if 'idx' in k:
            return 'list' if k['idx'] else 'emptylist'
        return 'slice'
    return ','.join(one(k) for k in it)


def _step_kind(st):
    for k in ('set', 'flip', 'mutres', 'setdata', 'setobj', 'setattr'):
        if k in st:
            return k + (':' + st['via'] if k == 'flip' else '') + (':' + st.get('how', 'lists') if k == 'set' else '')
    return None


def branch(c, io, rep):
    if c['level'] == 'slice':
        return ['slices']
    if c['level'] in ('hist', 'chist'):
        out = [c['stream']]
        out += sorted({c['level'] + ':' + _step_kind(st) for st in c['steps'] if _step_kind(st)})
        out += sorted({c['level'] + ':q:' + st['q']['k'] for st in c['steps'] if 'q' in st})
        return out
    o = c['o']
    lab = o['k']
    if o['k'] == 'getitem':
        lab += '[' + _item_shape(o['item']) + ']'
    elif o['k'] in ('all', 'any', 'sum', 'alli', 'anyi'):
        lab += f":axis={o['axis']}:r={'None' if o['r'] is None else 'list'}:c={'None' if o['c'] is None else 'list'}"
    elif o['k'] == 'eq':
        lab += ':' + o['obe'] + (':sameshape' if (len(o['orows']), o['ow']) == (len(c['rows']), len(c['rows'][0])) else ':othershape')
    out = [c['stream'], c['level'] + ':' + lab]
    errs = sum(1 for x in io.get('outs', []) if 'err' in x)
    out.append('raises' if errs == 3 else ('mixed-raise' if errs else 'returns'))
    if rep and isinstance(rep[0].get('spec'), dict) and 'table' in rep[0]['spec']:
        h, w = rep[0]['spec']['table']['shape']
        out.append('subtable:' + ('0x0' if h == 0 else ('hx0' if w == 0 else 'nonempty')))
    return out


def signature(c, io, rep, v):
    if c['level'] == 'slice':
        return 'C05:sliceIndices'
    if c['level'] in ('hist', 'chist'):
        st = c['steps'][v['step']] if isinstance(v.get('step'), int) and v['step'] < len(c['steps']) else {}
        lab = st['q']['k'] if 'q' in st else (_step_kind(st) or '?')
        muts = '+'.join(sorted({_step_kind(x).split(':')[0] for x in c['steps'] if _step_kind(x)}))
        return f"C05:{c['level']}:{muts}:{lab}:{v.get('backend', '?')}:{v.get('kind')}"
    o = c['o']
    lab = o['k'] + ('[' + _item_shape(o['item']) + ']' if o['k'] == 'getitem' else '')
    return f"C05:{c['level']}:{lab}:{v.get('backend', '?')}:{v.get('kind')}"


def shrink(c):
    if c['level'] in ('hist', 'chist'):
        steps = c['steps']
        keep = lambda st: any(x in st for x in ('set', 'setdata', 'setobj', 'setattr'))
        # drop blocks of query / edit steps, large blocks first (the content-defining `data =` steps stay, so the
        # later operations remain valid for the shape they were generated for)
        size = max(1, len(steps) // 2)
        seen = set()
        while size >= 1:
            for a in range(0, len(steps), size):
                new = steps[:a] + [st for st in steps[a:a + size] if keep(st)] + steps[a + size:]
                k_ = json.dumps(new, sort_keys=True)
                if len(new) < len(steps) and k_ not in seen and any('q' in st for st in new):
                    seen.add(k_)
                    yield dict(c, steps=new)
            size //= 2
        return
    if c['level'] in ('slice', 'chain', 'malformed'):
        return
    o = c['o']
    rows = c['rows']
    n, m = len(rows), len(rows[0])
    # clear cells
    for i in range(n):
        for j in range(m):
            if rows[i][j]:
                c2 = dict(c)
                c2['rows'] = [list(r) for r in rows]
                c2['rows'][i][j] = 0
                yield c2
    # shorten index lists
    if o['k'] in ('all', 'any', 'sum', 'alli', 'anyi'):
        for fld in ('r', 'c'):
            xs = o[fld]
            if xs:
                for i in range(len(xs)):
                    o2 = dict(o)
                    o2[fld] = xs[:i] + xs[i + 1:]
                    yield dict(c, o=o2)
            if xs is not None and len(xs) == (n if fld == 'r' else m) and xs == sorted(xs):
                yield dict(c, o=dict(o, **{fld: None}))
    if o['k'] == 'getitem':
        for p, k in enumerate(o['item']):
            if isinstance(k, dict) and k.get('idx'):
                for i in range(len(k['idx'])):
                    it = list(o['item'])
                    it[p] = {'idx': k['idx'][:i] + k['idx'][i + 1:]}
                    yield dict(c, o=dict(o, item=it))
    # drop the last row / column when no argument refers to it
    def maxref(fld_vals):
        return max([-1] + [x for xs in fld_vals if xs for x in xs])
    if o['k'] in ('all', 'any', 'sum', 'alli', 'anyi', 'shape', 'tolist', 'T', 'inv', 'conv'):
        if n > 1 and maxref([o.get('r')]) < n - 1:
            yield dict(c, rows=rows[:-1])
        if m > 1 and maxref([o.get('c')]) < m - 1:
            yield dict(c, rows=[r[:-1] for r in rows])

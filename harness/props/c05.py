"""C05 — all binary-table backends are observationally interchangeable.

One case = (table, operation); the real operation is run on the three backends at once and every
backend's canonicalised answer is compared with the Lean specification value `Spec.Table.run`
(which `Fca.C05.backend_run_eq_spec` proves equal to each backend model for all inputs), and with
that backend's own Lean model.  Context-level cases do the same through `FormalContext`.
"""
import functools
import glob
import itertools
import json
import os
import random

import gen as G
from implutil import BACKENDS, SHORT, exc_name, make_context

RULE = ('case = (table, operation with its arguments), run on the 3 backends; operations: shape, to_list, T, ~, '
        'conversion to each backend, &, |, == (same / other backend, same / different shape), table[item] for every item '
        'shape (int, slice, list, (int,int), (int,sel), (sel,int), (sel,sel)), all/any/sum for axis None/0/1/unknown with '
        'row and column selections, all_i/any_i; and FormalContext[item], .T, ~, == for every backend. Selections: None, '
        'every ordered duplicate-free index list (so empty and unsorted ones), the 48 slices start{None,0,1,-1} x '
        'stop{None,k,k-1} x step{None,1,2,-1}. Exhaustive part enumerates all tables in scope; then seeded random tables. '
        'non-trivial = table neither all-true nor all-false and the operation takes an argument or returns a table/vector; '
        'distinct = distinct (table, operation, arguments)')
EXHAUSTIVE = {
    'quick': 'all 682 tables n,m<=3 x every operation x every value of every selection slot (every item shape, every '
             'axis, None / empty / every ordered duplicate-free list / the 48 slices) x 3 backends, plus FormalContext on '
             '3 backends. One-slot operations (table[i], table[sel], table[i,j], table[i,list], table[list,j], T, ~, '
             'shape, to_list, conversions, & | == operands): complete. Two-slot operations: complete for tables with '
             'n*m<=4; for larger tables every value of each slot is paired with a sample of the other slot that rotates '
             'with the table index, so that every pair occurs with dozens of tables: table[list,list] complete up to 64 '
             'pairs else 1/2; table[list,slice], table[slice,list] 1/8; table[slice,slice] 1/16; table[i,slice], '
             'table[slice,j] each slice with 1/n (1/m) of the integers; all/any/sum/all_i/any_i (rows x columns) 1/12; '
             'FormalContext[sel,sel] 1/32',
    'thorough': 'as quick but every two-slot cross product is complete for every table n,m<=3',
}
EXPLANATION = ('every observable is pinned uniquely by the property: implementation != Spec.Table.run is a property failure; '
               'Fca.C05.backend_run_eq_spec proves each backend model = Spec for all well-formed tables and in-range '
               'selections, so a backend that differs from the spec on an explored input also differs from its model')
ASSUMPTIONS = ['start tables have n>=1 rows and m>=1 columns of Python bools; empty tables arise as sub-tables and are in scope',
               'integer indexes are in range and non-negative; index lists are duplicate-free, in range (any order); '
               'slices have a non-zero step (negative start/stop/step allowed)',
               '&, | take an operand of the same backend; == any backend; all_i/any_i are called with axis 0 or 1 '
               '(or an unknown integer axis, which must raise UnknownAxisError everywhere)',
               'operations are also applied to the (possibly empty: 0x0, hx0) results of sub-table selections',
               'object/attribute names pairwise distinct strings; targets None']
TRUSTED = ['bitarray primitives (|, &, ~, all, any, count, search(1), native slicing) and numpy primitives (fancy / slice '
           'indexing, np.ix_, .T, all/any/sum(axis), ==) are written out in Fca/Model/BinTableOps.lean, not verified',
           'Python slice semantics = Fca.sliceIndices (checked here against every slice run, and against slice.indices '
           'directly in the slices stream)']
CHUNK = 1500

OBJ = ['g%d' % i for i in range(16)]
ATT = ['a', 'not b', 'not not c', 'not', 'nota', ' not e', 'not  f', 'h', 'not i', 'j', 'not k', 'l', 'm', 'n', 'not o', 'p']


# ----------------------------------------------------------------------------------------------
# generators
# ----------------------------------------------------------------------------------------------
def list_sels(k):
    return [{'idx': s} for s in G.ordered_sublists(range(k))]


def slice_sels(k):
    return [{'sl': [a, b, c]} for a in (None, 0, 1, -1) for b in (None, k, k - 1) for c in (None, 1, 2, -1)]


def opt_lists(k):
    return [None] + [s for s in G.ordered_sublists(range(k))]


def pairs(A, B, tidx, stride):
    """All pairs when stride == 1; else every a with the b's in its rotating residue class (and vice versa)."""
    if stride <= 1:
        for a in A:
            for b in B:
                yield a, b
        return
    for ia, a in enumerate(A):
        for ib, b in enumerate(B):
            if (ia + ib + tidx) % stride == 0:
                yield a, b


def others_for(rows, tidx):
    """Second operands for &, |, ==: same shape (equal, complement, one cell flipped, rows rotated, constant) and
    other shapes (a row / a column less or more, transposed)."""
    n, m = len(rows), len(rows[0])
    out = [rows, [[1 - v for v in r] for r in rows]]
    i, j = tidx % n, (tidx // n) % m
    fl = [list(r) for r in rows]
    fl[i][j] = 1 - fl[i][j]
    out.append(fl)
    out.append(rows[1:] + rows[:1])
    out.append([[1] * m for _ in range(n)])
    out.append([[0] * m for _ in range(n)])
    if n > 1:
        out.append(rows[:-1])
    if m > 1:
        out.append([r[:-1] for r in rows])
    out.append(rows + [rows[0]])
    out.append([r + [r[0]] for r in rows])
    if n != m:
        out.append([[rows[i][j] for i in range(n)] for j in range(m)])
    return out


def table_ops(rows, tidx, full, rng=None, nsel=None):
    """Operation descriptors for one table.  rng given => random selections (larger tables)."""
    n, m = len(rows), len(rows[0])
    yield {'k': 'shape'}
    yield {'k': 'tolist'}
    yield {'k': 'T'}
    yield {'k': 'inv'}
    for be in BACKENDS:
        yield {'k': 'conv', 'dst': SHORT[be]}
    oth = others_for(rows, tidx)
    if rng is not None:
        oth = oth[:3] + rng.sample(oth[3:], min(3, len(oth) - 3))
    for o in oth:
        yield {'k': 'and', 'orows': o, 'ow': len(o[0])}
        yield {'k': 'or', 'orows': o, 'ow': len(o[0])}
        for be in BACKENDS:
            yield {'k': 'eq', 'obe': SHORT[be], 'orows': o, 'ow': len(o[0])}
    yield {'k': 'all', 'axis': 2, 'r': None, 'c': None}
    yield {'k': 'any', 'axis': -1, 'r': None, 'c': [0]}
    yield {'k': 'sum', 'axis': 3, 'r': [0], 'c': None}
    yield {'k': 'alli', 'axis': 2, 'r': None, 'c': None}
    yield {'k': 'anyi', 'axis': 5, 'r': None, 'c': None}
    if rng is None:
        rsel, csel = list_sels(n) + slice_sels(n), list_sels(m) + slice_sels(m)
        nl_r, nl_c = len(list_sels(n)), len(list_sels(m))
        for i in range(n):
            yield {'k': 'getitem', 'item': [i]}
            for j in range(m):
                yield {'k': 'getitem', 'item': [i, j]}
        for s in rsel:
            yield {'k': 'getitem', 'item': [s]}
        st = 1 if full else 8
        sa = 1 if full else 12
        # (int, sel) / (sel, int): every list with every integer; slices rotate over the integers
        for i, s in pairs(list(range(n)), csel[:nl_c], tidx, 1):
            yield {'k': 'getitem', 'item': [i, s]}
        for i, s in pairs(list(range(n)), csel[nl_c:], tidx, 1 if full else n):
            yield {'k': 'getitem', 'item': [i, s]}
        for s, j in pairs(rsel[:nl_r], list(range(m)), tidx, 1):
            yield {'k': 'getitem', 'item': [s, j]}
        for s, j in pairs(rsel[nl_r:], list(range(m)), tidx, 1 if full else m):
            yield {'k': 'getitem', 'item': [s, j]}
        # list x list complete; slices rotate
        for a, b in pairs(rsel[:nl_r], csel[:nl_c], tidx, 1 if (full or nl_r * nl_c <= 64) else 2):
            yield {'k': 'getitem', 'item': [a, b]}
        for a, b in pairs(rsel[:nl_r], csel[nl_c:], tidx, st):
            yield {'k': 'getitem', 'item': [a, b]}
        for a, b in pairs(rsel[nl_r:], csel[:nl_c], tidx, st):
            yield {'k': 'getitem', 'item': [a, b]}
        for a, b in pairs(rsel[nl_r:], csel[nl_c:], tidx, 1 if full else 16):
            yield {'k': 'getitem', 'item': [a, b]}
        R, C = opt_lists(n), opt_lists(m)
        kk = 0
        for k in ('all', 'any', 'sum'):
            for ax in (None, 0, 1):
                kk += 1
                for r, c in pairs(R, C, tidx + kk, sa):
                    yield {'k': k, 'axis': ax, 'r': r, 'c': c}
        for k in ('alli', 'anyi'):
            for ax in (0, 1):
                kk += 1
                for r, c in pairs(R, C, tidx + kk, sa):
                    yield {'k': k, 'axis': ax, 'r': r, 'c': c}
    else:
        def rsel_(k):
            t = rng.random()
            if t < 0.5:
                return {'idx': G.random_sel(rng, k)}
            return {'sl': [rng.choice([None, 0, 1, 2, -1, -2, k, k + 1, -k, -k - 1, k // 2]),
                           rng.choice([None, 0, 1, -1, -2, k, k - 1, k + 2, -k - 1, k // 2]),
                           rng.choice([None, 1, 2, 3, -1, -2, -3, k, -k])]}
        for _ in range(nsel):
            i, j = rng.randrange(n), rng.randrange(m)
            yield {'k': 'getitem', 'item': [i]}
            yield {'k': 'getitem', 'item': [i, j]}
            yield {'k': 'getitem', 'item': [i, rsel_(m)]}
            yield {'k': 'getitem', 'item': [rsel_(n), j]}
            yield {'k': 'getitem', 'item': [rsel_(n)]}
            yield {'k': 'getitem', 'item': [rsel_(n), rsel_(m)]}
            yield {'k': 'getitem', 'item': [{'idx': G.random_sel(rng, n)}, {'idx': G.random_sel(rng, m)}]}
            for k in ('all', 'any', 'sum'):
                for ax in (None, 0, 1):
                    yield {'k': k, 'axis': ax, 'r': G.random_sel(rng, n, True), 'c': G.random_sel(rng, m, True)}
            for k in ('alli', 'anyi'):
                for ax in (0, 1):
                    yield {'k': k, 'axis': ax, 'r': G.random_sel(rng, n, True), 'c': G.random_sel(rng, m, True)}


def ctx_ops(rows, tidx, full, rng=None, nsel=None):
    n, m = len(rows), len(rows[0])
    yield {'k': 'T'}
    yield {'k': 'inv'}
    oth = others_for(rows, tidx)
    for o in (oth if rng is None else oth[:3] + rng.sample(oth[3:], 2)):
        on, om = len(o), len(o[0])
        for be in BACKENDS:
            yield {'k': 'eq', 'obe': SHORT[be], 'orows': o, 'ow': om, 'oobjs': OBJ[:on], 'oattrs': ATT[:om]}
    # same shape, different names -> ValueError
    yield {'k': 'eq', 'obe': 'lists', 'orows': rows, 'ow': m, 'oobjs': ['x' + s for s in OBJ[:n]], 'oattrs': ATT[:m]}
    yield {'k': 'eq', 'obe': 'numpy', 'orows': rows, 'ow': m, 'oobjs': OBJ[:n], 'oattrs': ATT[1:m + 1]}
    if rng is None:
        rsel, csel = list_sels(n) + slice_sels(n), list_sels(m) + slice_sels(m)
        for i in range(n):
            yield {'k': 'getitem', 'item': [i]}                      # one integer: the one-row sub-context
            for j in range(m):
                yield {'k': 'getitem', 'item': [i, j]}
        for s in rsel:
            yield {'k': 'getitem', 'item': [s]}
        st = 1 if full else 32
        for a, b in pairs(rsel, csel, tidx, st if n * m > 4 else 1):
            yield {'k': 'getitem', 'item': [a, b]}
        for a, b in pairs(list(range(n)), csel, tidx, 1 if (full or n * m <= 4) else 4):
            yield {'k': 'getitem', 'item': [a, b]}
        for a, b in pairs(rsel, list(range(m)), tidx, 1 if (full or n * m <= 4) else 4):
            yield {'k': 'getitem', 'item': [a, b]}
    else:
        for _ in range(nsel):
            i, j = rng.randrange(n), rng.randrange(m)
            yield {'k': 'getitem', 'item': [i, j]}
            sl = lambda k: {'sl': [rng.choice([None, 0, 1, -1, -2, k // 2]), rng.choice([None, k, k - 1, -1, k // 2]),
                                   rng.choice([None, 1, 2, -1, -2, 3])]}
            yield {'k': 'getitem', 'item': [sl(n)]}
            yield {'k': 'getitem', 'item': [{'idx': G.random_sel(rng, n)}]}
            yield {'k': 'getitem', 'item': [sl(n), sl(m)]}
            yield {'k': 'getitem', 'item': [{'idx': G.random_sel(rng, n)}, {'idx': G.random_sel(rng, m)}]}
            yield {'k': 'getitem', 'item': [{'idx': G.random_sel(rng, n)}, sl(m)]}
            yield {'k': 'getitem', 'item': [sl(n), {'idx': G.random_sel(rng, m)}]}
            yield {'k': 'getitem', 'item': [i]}
            yield {'k': 'getitem', 'item': [i, sl(m)]}
            yield {'k': 'getitem', 'item': [sl(n), j]}
            yield {'k': 'getitem', 'item': [i, {'idx': G.random_sel(rng, m)}]}
            yield {'k': 'getitem', 'item': [{'idx': G.random_sel(rng, n)}, j]}


CHAIN_OPS = [{'k': 'shape'}, {'k': 'tolist'}, {'k': 'T'}, {'k': 'inv'}, {'k': 'all', 'axis': None, 'r': None, 'c': None},
             {'k': 'any', 'axis': 0, 'r': None, 'c': None}, {'k': 'sum', 'axis': 1, 'r': None, 'c': None},
             {'k': 'sum', 'axis': 0, 'r': None, 'c': None}, {'k': 'alli', 'axis': 1, 'r': None, 'c': None},
             {'k': 'anyi', 'axis': 0, 'r': None, 'c': None}, {'k': 'eqself'}, {'k': 'andself'}, {'k': 'orself'},
             {'k': 'getitem', 'item': [{'sl': [None, None, -1]}, {'sl': [None, None, None]}]},
             {'k': 'getitem', 'item': [{'idx': []}, {'idx': []}]}, {'k': 'conv', 'dst': 'lists'}]


def resolve_ref(k, n):
    return list(k['idx']) if 'idx' in k else list(range(*slice(*k['sl']).indices(n)))


def ref_subtable(rows, item):
    """the selected sub-table, computed by the harness (rows x columns cross product; [] when no row)"""
    rs, cs = resolve_ref(item[0], len(rows)), resolve_ref(item[1], len(rows[0]))
    return [[rows[i][j] for j in cs] for i in rs]


def chain_cases(rows, items, stream):
    for it in items:
        for o in CHAIN_OPS:
            yield dict(stream=stream, level='chain', rows=rows, item=it, o=o)


def fixed_chain_cases():
    """an operation applied to the result of a sub-table selection, including the two empty shapes (0x0: no row
    selected; hx0: rows but no column)."""
    for rows in ([[1, 0], [0, 1]], [[1, 0, 1], [0, 1, 1]], [[0, 1, 0], [1, 1, 0], [0, 0, 1]]):
        n, m = len(rows), len(rows[0])
        items = [[{'idx': []}, {'sl': [None, None, None]}], [{'sl': [None, None, None]}, {'idx': []}],
                 [{'idx': list(range(n))[::-1]}, {'idx': [m - 1, 0]}], [{'sl': [None, None, 2]}, {'sl': [1, None, None]}],
                 [{'sl': [None, None, -1]}, {'idx': [0]}]]
        yield from chain_cases(rows, items, 'chained')


def corpus_cases():
    d = os.path.join(os.path.dirname(os.path.dirname(os.path.dirname(os.path.abspath(__file__)))), 'corpus', 'C05')
    for f in sorted(glob.glob(os.path.join(d, '*.json'))):
        c = json.load(open(f))
        c['stream'] = 'corpus'
        yield c


def gen(tier, seed, boost=False):
    yield from corpus_cases()
    rng = random.Random(seed * 1000003 + 505)
    full = (tier == 'thorough') or boost
    # python slice semantics directly (model of slice.indices vs CPython)
    for ln in range(0, 6):
        sl = []
        for a in (None, -7, -3, -2, -1, 0, 1, 2, 3, 6):
            for b in (None, -7, -3, -2, -1, 0, 1, 2, 3, 6):
                for c in (None, 1, 2, 3, -1, -2, -3, 7, -7):
                    sl.append([a, b, c])
        yield dict(stream='slices', level='slice', len=ln, sls=sl)
    yield from fixed_chain_cases()
    # exhaustive small scope
    for tidx, rows in enumerate(G.tables_upto(3, 3)):
        small = len(rows) * len(rows[0]) <= 4
        for o in table_ops(rows, tidx, full or small):
            yield dict(stream='exhaustive', level='table', rows=rows, o=o)
        for o in ctx_ops(rows, tidx, full or small):
            yield dict(stream='exhaustive-ctx', level='ctx', rows=rows, o=o)
        if tidx % 4 == 0 or full:
            yield from chain_cases(rows, [[{'idx': []}, {'sl': [None, None, None]}],
                                          [{'sl': [len(rows), None, None]}, {'idx': [0]}],
                                          [{'sl': [None, None, -1]}, {'idx': []}]], 'exhaustive-chained')
    # seeded random larger tables
    nrand = 250 if tier == 'quick' else 4000
    if boost:
        nrand *= 3
    big = 8 if tier == 'quick' else 14
    for t in range(nrand):
        rows = G.random_table(rng, big, big)
        for o in table_ops(rows, t, False, rng, 3):
            yield dict(stream='random', level='table', rows=rows, o=o)
        for o in ctx_ops(rows, t, False, rng, 2):
            yield dict(stream='random-ctx', level='ctx', rows=rows, o=o)
        if t % 3 == 0:
            yield from malformed(rows, rng)
        n, m = len(rows), len(rows[0])
        anysel = lambda k: {'idx': G.random_sel(rng, k)}
        yield from chain_cases(rows, [[anysel(n), anysel(m)],
                                      [{'sl': [rng.choice([None, 0, -1, n]), None, rng.choice([1, -1, 2])]}, anysel(m)],
                                      [{'idx': []}, {'sl': [None, None, None]}]],
                               'random-chained')


def malformed(rows, rng):
    """Out of the modelled scope (negative / out-of-range integer indexes): only agreement of the three backends
    is checked (all wrap around alike, or all raise IndexError)."""
    n, m = len(rows), len(rows[0])
    for it in ([-1], [-n], [n], [-n - 1], [-1, -1], [0, m], [n, 0], [0, -m - 1], [-n, m - 1],
               [{'idx': [0, -1]}], [{'idx': [n]}], [{'idx': [0]}, {'idx': [m]}], [0, {'idx': [-1, 0]}],
               [{'idx': [-1]}, 0], [{'idx': [0, 0]}, {'idx': [m - 1, m - 1]}]):
        yield dict(stream='malformed', level='malformed', rows=rows, o={'k': 'getitem', 'item': it})


# ----------------------------------------------------------------------------------------------
# implementation side
# ----------------------------------------------------------------------------------------------
@functools.lru_cache(maxsize=512)
def _table(rows_key, be):
    from fcapy.context.bintable import init_bintable
    return init_bintable([[bool(v) for v in r] for r in rows_key], be)


def make_table(rows, be):
    return _table(tuple(tuple(r) for r in rows), be)


def _key(k):
    if isinstance(k, dict):
        if 'idx' in k:
            return list(k['idx'])
        a, b, c = k['sl']
        return slice(a, b, c)
    return int(k)


def _item(item):
    ks = [_key(k) for k in item]
    return ks[0] if len(ks) == 1 else tuple(ks)


def _b01(xs):
    return [int(bool(v)) for v in xs]


def canon_table(bt, be):
    from fcapy.context.bintable import AbstractBinTable
    if not isinstance(bt, AbstractBinTable):
        return {'notatable': type(bt).__name__}
    d = {'shape': [int(bt.height), int(bt.width)], 'rows': [_b01(r) for r in bt.to_list()]}
    if type(bt).__name__ != be:
        d['cls'] = type(bt).__name__
    return {'table': d}


def canon_value(v, be):
    """Canonical form of a value returned by a table operation."""
    import numpy as np
    from fcapy.context.bintable import AbstractBinTable
    if isinstance(v, AbstractBinTable):
        return canon_table(v, be)
    if isinstance(v, (bool, np.bool_)):
        return {'bool': int(bool(v))}
    if isinstance(v, (int, np.integer)):
        return {'nat': int(v)}
    return None


def run_table_op(bt, be, o):
    from fcapy.context.bintable import init_bintable
    import numpy as np
    k = o['k']
    if k == 'shape':
        h, w = bt.shape
        return {'shape': [int(h), int(w)]}
    if k == 'tolist':
        return {'rows': [_b01(r) for r in bt.to_list()]}
    if k == 'T':
        return canon_table(bt.T, be)
    if k == 'inv':
        return canon_table(~bt, be)
    if k == 'conv':
        dst = [b for b in BACKENDS if SHORT[b] == o['dst']][0]
        c = init_bintable(bt, dst)
        if type(c).__name__ != dst:
            return {'wrongclass': type(c).__name__}
        if (int(c.height), int(c.width)) != (int(bt.height), int(bt.width)) or tuple(c.shape) != tuple(bt.shape):
            return {'wrongshape': [int(c.height), int(c.width)]}
        return {'rows': [_b01(r) for r in c.to_list()]}
    if k in ('andself', 'orself'):
        return canon_table((bt & bt) if k == 'andself' else (bt | bt), be)
    if k == 'eqself':
        r = (bt == bt)
        if not isinstance(r, (bool, np.bool_)):
            return {'notabool': type(r).__name__}
        return {'bool': int(bool(r))}
    if k in ('and', 'or'):
        other = make_table(o['orows'], be)
        return canon_table((bt & other) if k == 'and' else (bt | other), be)
    if k == 'eq':
        obe = [b for b in BACKENDS if SHORT[b] == o['obe']][0]
        other = make_table(o['orows'], obe)
        r = (bt == other)
        if not isinstance(r, (bool, np.bool_)):
            return {'notabool': type(r).__name__}
        return {'bool': int(bool(r))}
    if k == 'getitem':
        item = o['item']
        r = bt[_item(item)]
        c = canon_value(r, be)
        if c is not None:
            return c
        return {'bools': _b01(r)}
    if k in ('all', 'any', 'sum'):
        r = getattr(bt, k)(o['axis'], None if o['r'] is None else list(o['r']), None if o['c'] is None else list(o['c']))
        c = canon_value(r, be)
        if c is not None:
            return c
        return {'nats': [int(x) for x in r]} if k == 'sum' else {'bools': _b01(r)}
    if k in ('alli', 'anyi'):
        f = bt.all_i if k == 'alli' else bt.any_i
        r = f(o['axis'], None if o['r'] is None else list(o['r']), None if o['c'] is None else list(o['c']))
        return {'nats': [int(x) for x in r]}
    raise ValueError('unknown op ' + k)


def canon_ctx(K, be):
    from fcapy.context import FormalContext
    import numpy as np
    if isinstance(K, (bool, np.bool_)):
        return {'bool': int(bool(K))}
    if not isinstance(K, FormalContext):
        return {'notactx': type(K).__name__}
    t = canon_table(K.data, be)['table']
    t.pop('cls', None)
    return {'ctx': {'be': K.backend, 'table': t, 'objs': [str(x) for x in K.object_names],
                    'attrs': [str(x) for x in K.attribute_names]}}


def run_ctx_op(rows, be, o):
    n, m = len(rows), len(rows[0])
    K = make_context(rows, be, OBJ[:n], ATT[:m])
    k = o['k']
    if k == 'T':
        return canon_ctx(K.T, be)
    if k == 'inv':
        return canon_ctx(~K, be)
    if k == 'getitem':
        return canon_ctx(K[_item(o['item'])], be)
    if k == 'eq':
        obe = [b for b in BACKENDS if SHORT[b] == o['obe']][0]
        K2 = make_context(o['orows'], obe, o['oobjs'], o['oattrs'])
        return canon_ctx(K == K2, be)
    raise ValueError('unknown ctx op ' + k)


def impl(c):
    if c['level'] == 'slice':
        return {'idx': [list(range(*slice(a, b, s).indices(c['len']))) for a, b, s in c['sls']]}
    outs = []
    for be in BACKENDS:
        try:
            if c['level'] == 'ctx':
                outs.append(run_ctx_op(c['rows'], be, c['o']))
            elif c['level'] == 'chain':
                outs.append(run_table_op(make_table(c['rows'], be)[_item(c['item'])], be, c['o']))
            else:
                outs.append(run_table_op(make_table(c['rows'], be), be, c['o']))
        except Exception as e:
            outs.append({'err': exc_name(e)})
    return {'outs': outs}


# ----------------------------------------------------------------------------------------------
# Lean side and verdict
# ----------------------------------------------------------------------------------------------
def requests(c):
    if c['level'] == 'slice':
        return [dict(op='C05.slice', sl=s, len=c['len']) for s in c['sls']]
    if c['level'] == 'malformed':
        return []
    if c['level'] == 'chain':
        sub = ref_subtable(c['rows'], c['item'])
        w = len(sub[0]) if sub else 0
        o = c['o']
        if o['k'] in ('eqself', 'andself', 'orself'):
            o = {'k': o['k'][:-4], 'orows': sub, 'ow': w, 'obe': 'lists'}
        return [dict(op='C05.run', rows=sub, w=w, o=o)]
    base = dict(rows=c['rows'], w=len(c['rows'][0]), o=c['o'])
    if c['level'] == 'ctx':
        n, m = len(c['rows']), len(c['rows'][0])
        base.update(op='C05.ctx', objs=OBJ[:n], attrs=ATT[:m])
    else:
        base.update(op='C05.run')
    return [base]


def _strip_be(x):
    if isinstance(x, dict) and 'ctx' in x:
        d = dict(x['ctx'])
        d.pop('be', None)
        return {'ctx': d}
    return x


def judge(c, io, rep):
    if c['level'] == 'slice':
        got = [r['idx'] for r in rep]
        if got == io['idx']:
            return dict(ok=True)
        k = next(i for i in range(len(got)) if got[i] != io['idx'][i])
        return dict(ok=False, kind='correspondence',
                    detail=f'sliceIndices{c["sls"][k]} on len {c["len"]}: model {got[k]} != CPython {io["idx"][k]}')
    outs = io['outs']
    if c['level'] == 'malformed':
        if outs[0] == outs[1] == outs[2]:
            return dict(ok=True)
        return dict(ok=False, kind='correspondence', detail=f'out-of-scope item {c["o"]["item"]}: backends differ {outs}')
    r = rep[0]
    spec, models = r['spec'], r['model']
    if c['level'] == 'ctx':
        for b, be in enumerate(BACKENDS):
            mb = models[b]
            if 'ctx' in mb and mb['ctx']['be'] != be:
                return dict(ok=False, kind='harness', detail=f'model lost the backend: {mb}')
            if _strip_be(mb) != spec:
                return dict(ok=False, kind='harness', detail=f'{be}: context model {mb} != spec {spec} (contradicts theorem)')
        for b, be in enumerate(BACKENDS):
            if _strip_be(outs[b]) != spec:
                return dict(ok=False, kind='property', backend=be,
                            detail=f'FormalContext({be}) {c["o"]}: {outs[b]} but the backend-independent value is {spec}')
            if 'ctx' in outs[b] and outs[b]['ctx']['be'] != be:
                return dict(ok=False, kind='property', backend=be, detail=f'result changed backend: {outs[b]}')
        return dict(ok=True)
    for b, be in enumerate(BACKENDS):
        if models[b] != spec:
            return dict(ok=False, kind='harness', detail=f'{be}: model {models[b]} != spec {spec} (contradicts theorem: '
                                                        f'input out of scope?)')
    for b, be in enumerate(BACKENDS):
        if outs[b] != spec:
            v = dict(ok=False, kind='property', backend=be,
                     detail=f'{be} {c["o"]}: returned {outs[b]}, specification value {spec}')
            if c['level'] == 'chain':
                v['detail'] = f'on table[{c["item"]}]: ' + v['detail']
            return v
    return dict(ok=True)


def nontrivial(c):
    if c['level'] in ('slice', 'malformed'):
        return c['level'] == 'slice'
    return G.is_mixed(c['rows']) and c['o']['k'] not in ('shape',)


def key(c):
    if c['level'] == 'slice':
        return ['slice', c['len']]
    return [c['level'], c['rows'], c.get('item'), c['o']]


def _item_shape(it):
    def one(k):
        if not isinstance(k, dict):
            return 'int'
        if 'idx' in k:
            return 'list' if k['idx'] else 'emptylist'
        return 'slice'
    return ','.join(one(k) for k in it)


def branch(c, io, rep):
    if c['level'] == 'slice':
        return ['slices']
    o = c['o']
    lab = o['k']
    if o['k'] == 'getitem':
        lab += '[' + _item_shape(o['item']) + ']'
    elif o['k'] in ('all', 'any', 'sum', 'alli', 'anyi'):
        lab += f":axis={o['axis']}:r={'None' if o['r'] is None else 'list'}:c={'None' if o['c'] is None else 'list'}"
    elif o['k'] == 'eq':
        lab += ':' + o['obe'] + (':sameshape' if (len(o['orows']), o['ow']) == (len(c['rows']), len(c['rows'][0])) else ':othershape')
    out = [c['stream'], c['level'] + ':' + lab]
    errs = sum(1 for x in io.get('outs', []) if 'err' in x)
    out.append('raises' if errs == 3 else ('mixed-raise' if errs else 'returns'))
    if rep and isinstance(rep[0].get('spec'), dict) and 'table' in rep[0]['spec']:
        h, w = rep[0]['spec']['table']['shape']
        out.append('subtable:' + ('0x0' if h == 0 else ('hx0' if w == 0 else 'nonempty')))
    return out


def signature(c, io, rep, v):
    if c['level'] == 'slice':
        return 'C05:sliceIndices'
    o = c['o']
    lab = o['k'] + ('[' + _item_shape(o['item']) + ']' if o['k'] == 'getitem' else '')
    return f"C05:{c['level']}:{lab}:{v.get('backend', '?')}:{v.get('kind')}"


def shrink(c):
    if c['level'] in ('slice', 'chain', 'malformed'):
        return
    o = c['o']
    rows = c['rows']
    n, m = len(rows), len(rows[0])
    # clear cells
    for i in range(n):
        for j in range(m):
            if rows[i][j]:
                c2 = dict(c)
                c2['rows'] = [list(r) for r in rows]
                c2['rows'][i][j] = 0
                yield c2
    # shorten index lists
    if o['k'] in ('all', 'any', 'sum', 'alli', 'anyi'):
        for fld in ('r', 'c'):
            xs = o[fld]
            if xs:
                for i in range(len(xs)):
                    o2 = dict(o)
                    o2[fld] = xs[:i] + xs[i + 1:]
                    yield dict(c, o=o2)
            if xs is not None and len(xs) == (n if fld == 'r' else m) and xs == sorted(xs):
                yield dict(c, o=dict(o, **{fld: None}))
    if o['k'] == 'getitem':
        for p, k in enumerate(o['item']):
            if isinstance(k, dict) and k.get('idx'):
                for i in range(len(k['idx'])):
                    it = list(o['item'])
                    it[p] = {'idx': k['idx'][:i] + k['idx'][i + 1:]}
                    yield dict(c, o=dict(o, item=it))
    # drop the last row / column when no argument refers to it
    def maxref(fld_vals):
        return max([-1] + [x for xs in fld_vals if xs for x in xs])
    if o['k'] in ('all', 'any', 'sum', 'alli', 'anyi', 'shape', 'tolist', 'T', 'inv', 'conv'):
        if n > 1 and maxref([o.get('r')]) < n - 1:
            yield dict(c, rows=rows[:-1])
        if m > 1 and maxref([o.get('c')]) < m - 1:
            yield dict(c, rows=[r[:-1] for r in rows])

"""C17 — tracing a context through a lattice finds exactly the describing concepts."""
import functools
import itertools
import random

import gen as G
from implutil import BACKENDS, SHORT, make_context, exc_name

RULE = ('case = (training table, lattice spec in {default(Lindig), CbO, Sofia L_max=k, sub-lattice = subset of the CbO concepts '
        'keeping top and bottom, monotone}, test table over the same attributes (rows need not occur in training), backend of '
        'the test context, key mode, object names of both contexts: fresh names, or - stream same-names - the traced context '
        'carrying exactly the training object names (default names on both sides / explicit / spelled-out defaults) or a '
        'permutation of them, with the same row count but different rows); or the many-valued twin (interval columns, IntervalPS / IntervalNumpyPS). The lattice is '
        'built by the real library and handed to the Lean side as data (extents, intents, children_dict in iteration order, '
        'supports, top). exhaustive over the tier scope, then seeded random tables up to 6x6; non-trivial = lattice with >= 3 '
        'concepts, mixed test table; distinct = distinct (train, lattice spec, test, backend, key mode)')
EXHAUSTIVE = {
    'quick': 'all training tables n,m<=3 (682) x {default, CbO, every distinct Sofia-pruned lattice L_max=1..#concepts, all '
             'sub-lattices keeping top+bottom when #concepts<=4 else 4 seeded ones, monotone} x test tables: m<=2: all tables '
             'with <=3 rows; m=3: all tables with <=2 rows + all 3-row tables with strictly increasing rows + the table of all '
             '8 rows; same-names: every training table x {default, CbO, first Sofia, 2 sub-lattices} x complement, reversed rows and '
             'all (n*m<=6) / 14 seeded same-shape tables, 5 name variants rotating (both "default/default" and "same explicit" '
             'for the first two); key mode and test backend rotate over the enumeration (both key modes for every lattice); MV: all 1-column '
             'interval training contexts with <=3 rows over a 3-point grid x sub-lattices x all test contexts with <=2 rows',
    'thorough': 'all training tables n,m<=3 x all lattice variants (ALL sub-lattices keeping top+bottom, up to 8 concepts) x ALL '
                'test tables with <=3 rows + the table of all rows (both key modes for <=2 rows, rotating for 3 rows; backend '
                'rotates); training tables with n*m<=12 (n,m<=4) x lattice variants x all test tables with <=2 rows (m<=3) / 12 '
                'seeded ones (m=4) + the table of all rows; same-names: all lattice variants x 40 same-shape tables; MV: all 1-column interval contexts <=3 rows and 2-column <=2 rows'}
EXPLANATION = ('the two returned dictionaries are pinned uniquely by the property; the IMPLEMENTATION\'s dictionaries are compared '
               'with the Lean-side specification (Spec.describing / Spec.minimalDescribing evaluated by the driver), and with the '
               'code-shaped model; theorems Fca.C17.* prove model = spec for every list of genuine concepts with its true cover '
               'relation (hypotheses are re-checked by the driver on every case: "hyp")')
ASSUMPTIONS = ['object names of the traced context pairwise distinct (dictionary keys); they may coincide with the training '
               'object names - names are not identity, the rows of the traced context decide',
               'the lattice object was produced by the library from one training context (its concepts/children_dict are read '
               'from the real object and checked against IsLatticeOf by the driver on every case)',
               'use_generators=False (the generator mode belongs to C20)',
               'many-valued contexts: integer-valued interval data (exact in float)']
TRUSTED = ['extraction of the lattice data (extent_i, intent_i, children_dict, support, top, is_monotone) from the real object',
           'MV: upward inheritance of satisfaction is a hypothesis of trace_any_context_partial, checked per case by the driver']
CHUNK = 1000

# distinct object names, deliberately not in index order (o3, o2, o1, o0, o7, ...)
NAMES = ['o%d' % (i ^ 3) for i in range(128)]


# ----------------------------------------------------------------------------------------------- lattices
@functools.lru_cache(maxsize=4096)
def _train_ctx(rows_key, tnames=None):
    from fcapy.context import FormalContext
    return FormalContext(data=[[bool(v) for v in r] for r in rows_key],
                         object_names=None if tnames is None else list(tnames))


@functools.lru_cache(maxsize=8192)
def _lattice(rows_key, spec, tnames=None):
    """spec: ('default',) | ('CbO',) | ('Sofia', L_max) | ('sub', mask) | ('mono',); tnames = training object names
    (None = the library's default names '0','1',..)"""
    from fcapy.lattice import ConceptLattice
    K = _train_ctx(rows_key, tnames)
    if spec[0] == 'default':
        return ConceptLattice.from_context(K)
    if spec[0] == 'CbO':
        return ConceptLattice.from_context(K, algo='CbO')
    if spec[0] == 'Sofia':
        return ConceptLattice.from_context(K, algo='Sofia', L_max=spec[1])
    if spec[0] == 'mono':
        return ConceptLattice.from_context(K, is_monotone=True)
    if spec[0] == 'sub':
        full = _lattice(rows_key, ('CbO',), tnames)
        keep = [c for i, c in enumerate(full) if (spec[1] >> i) & 1]
        return ConceptLattice(keep)
    raise ValueError(spec)


def _mv_ctx(data, ps, names=None):
    from fcapy.mvcontext import MVContext, PS
    cls = {'py': PS.IntervalPS, 'np': PS.IntervalNumpyPS}[ps]
    m = len(data[0])
    cells = [[tuple(v) if isinstance(v, (list, tuple)) else v for v in row] for row in data]
    return MVContext(data=cells, pattern_types={str(j): cls for j in range(m)}, object_names=names)


@functools.lru_cache(maxsize=4096)
def _mv_lattice(data_key, ps, spec, tnames=None):
    from fcapy.lattice import ConceptLattice
    K = _mv_ctx([list(r) for r in data_key], ps, None if tnames is None else list(tnames))
    if spec[0] == 'CbO':
        return ConceptLattice.from_context(K)
    if spec[0] == 'Sofia':
        return ConceptLattice.from_context(K, algo='Sofia', L_max=spec[1])
    if spec[0] == 'sub':
        full = _mv_lattice(data_key, ps, ('CbO',), tnames)
        keep = [c for i, c in enumerate(full) if (spec[1] >> i) & 1]
        return ConceptLattice(keep)
    raise ValueError(spec)


def _key(rows):
    return tuple(tuple(tuple(v) if isinstance(v, list) else v for v in r) for r in rows)


def _get_lattice(c):
    tn = c.get('tnames')
    tn = None if tn is None else tuple(tn)
    if c['kind'] == 'mv':
        return _mv_lattice(_key(c['train']), c['ps'], tuple(c['lat']), tn)
    return _lattice(_key(c['train']), tuple(c['lat']), tn)


def _test_names(c):
    """object names of the traced context as the library sees them (None in the case = default names)"""
    return [str(i) for i in range(len(c['test']))] if c.get('names') is None else list(c['names'])


def _lat_data(L):
    n = len(L)
    chd = L.children_dict
    return dict(exts=[[int(g) for g in L[i].extent_i] for i in range(n)],
                children=[[int(j) for j in chd[i]] for i in range(n)],       # frozenset iteration order
                supports=[int(L[i].support) for i in range(n)], top=int(L.top), mono=bool(L.is_monotone))


def _sub_masks(k, top, bottom, rng, limit):
    """bit masks over the k concepts that keep top and bottom"""
    others = [i for i in range(k) if i not in (top, bottom)]
    base = (1 << top) | (1 << bottom)
    if limit is not None and len(others) > 10:      # too many to enumerate: draw distinct random subsets
        out = set()
        while len(out) < limit:
            r = rng.randint(0, len(others) - 1)
            out.add(base | sum(1 << i for i in rng.sample(others, r)))
        return sorted(out)
    allm = []
    for r in range(len(others)):           # proper subsets only (the full set is the CbO lattice itself)
        for comb in itertools.combinations(others, r):
            allm.append(base | sum(1 << i for i in comb))
    if limit is not None and len(allm) > limit:
        allm = rng.sample(allm, limit)
    return allm


def _lattice_specs(rows, rng, sub_all_upto, sub_limit):
    """the lattice variants of one training table that can be built (deterministic given rng state)"""
    key = _key(rows)
    specs = [('default',), ('CbO',)]
    try:
        full = _lattice(key, ('CbO',))
    except Exception:
        return [('default',)]
    k = len(full)
    seen = {frozenset(c.extent_i for c in full)}
    for lm in range(1, k + 1):
        try:
            Ls = _lattice(key, ('Sofia', lm))
        except Exception:
            continue
        sig = frozenset(c.extent_i for c in Ls)
        if sig not in seen:
            seen.add(sig)
            specs.append(('Sofia', lm))
    if k >= 3:
        lim = None if k <= sub_all_upto else sub_limit
        for mask in _sub_masks(k, full.top, full.bottom, rng, lim):
            specs.append(('sub', mask))
    specs.append(('mono',))
    return specs


# ----------------------------------------------------------------------------------------------- generation
def _tests_quick(m):
    rows_all = [list(b) for b in itertools.product((0, 1), repeat=m)]
    if m <= 2:
        for n in (1, 2, 3):
            for t in itertools.product(rows_all, repeat=n):
                yield [list(r) for r in t]
        return
    for n in (1, 2):
        for t in itertools.product(rows_all, repeat=n):
            yield [list(r) for r in t]
    for t in itertools.combinations(rows_all, 3):
        yield [list(r) for r in t]
    yield [list(r) for r in rows_all]


def _tests_all(m):
    rows_all = [list(b) for b in itertools.product((0, 1), repeat=m)]
    for n in (1, 2, 3):
        for t in itertools.product(rows_all, repeat=n):
            yield [list(r) for r in t]
    yield [list(r) for r in rows_all]


def _formal_cases(rows, specs, tests, stream, both_upto, counter):
    for spec in specs:
        for t_i, test in enumerate(tests):
            if spec[0] == 'mono' and t_i >= 3:      # the refusal does not look at the traced context
                break
            modes = (False, True) if t_i < both_upto else ((counter[0] & 1) == 1,)
            for useidx in modes:
                counter[0] += 1
                yield dict(stream=stream, kind='formal', train=rows, lat=list(spec), test=test,
                           be=BACKENDS[counter[0] % 3], useidx=useidx, names=NAMES[:len(test)])


GRID = (0, 1, 2)
MV_CELLS = [0, 1, 2, [0, 1], [1, 2], [0, 2]]


def _mv_tables(ncols, nmax, cells):
    for n in range(1, nmax + 1):
        for t in itertools.product(cells, repeat=n * ncols):
            yield [list(t[i * ncols:(i + 1) * ncols]) for i in range(n)]


def _mv_specs(data, ps, rng, limit):
    specs = [('CbO',)]
    try:
        full = _mv_lattice(_key(data), ps, ('CbO',))
    except Exception:
        return []
    k = len(full)
    if k >= 3:
        for mask in _sub_masks(k, full.top, full.bottom, rng, limit):
            specs.append(('sub', mask))
    return specs


def _mv_cases(train, specs, tests, ps, stream, counter):
    for spec in specs:
        for test in tests:
            counter[0] += 1
            yield dict(stream=stream, kind='mv', ps=ps, train=train, lat=list(spec), test=test,
                       useidx=bool(counter[0] & 1), names=NAMES[:len(test)])


def _name_variant(v, n):
    """(training names, traced names): the traced context carries the SAME object names as the training context
    (names are not identity: its rows differ), or a permutation of them"""
    dflt = [str(i) for i in range(n)]
    if v == 0:
        return None, None                           # default names '0','1',.. on both sides
    if v == 1:
        return NAMES[:n], NAMES[:n]                 # the same explicit names on both sides
    if v == 2:
        return None, dflt                           # default names in training, spelled out in the traced context
    if v == 3:
        return NAMES[:n], NAMES[:n][::-1]           # permuted names
    return dflt, None                               # explicit '0','1',.. in training, default in the traced context


def _same_shape_tests(rows, rng, limit):
    """tables with the row count and width of `rows` but different rows"""
    n, m = len(rows), len(rows[0])
    out = [[[1 - v for v in r] for r in rows]]                         # complement
    if n > 1 and rows[::-1] != rows:
        out.append([list(r) for r in rows[::-1]])                      # same rows, other objects
    if n * m <= 6 or limit is None:
        for t in G.all_tables(n, m):
            if t != rows and t not in out:
                out.append(t)
        if limit is not None and len(out) > limit:
            out = out[:2] + rng.sample(out[2:], limit - 2)
        return out
    seen = {_key(t) for t in out} | {_key(rows)}
    while len(out) < limit:
        t = [[int(rng.random() < 0.5) for _ in range(m)] for _ in range(n)]
        if _key(t) not in seen:
            seen.add(_key(t))
            out.append(t)
    return out


def _same_name_cases(rows, specs, tests, stream, counter):
    n = len(rows)
    for spec in specs:
        if spec[0] == 'mono':
            continue
        for t_i, test in enumerate(tests):
            variants = (0, 1) if t_i < 2 else (counter[0] % 5,)
            for v in variants:
                counter[0] += 1
                tn, nm = _name_variant(v, n)
                yield dict(stream=stream, kind='formal', train=rows, lat=list(spec), test=test, tnames=tn, names=nm,
                           be=BACKENDS[counter[0] % 3], useidx=bool((counter[0] // 3) & 1))


def _same_name_mv_cases(train, specs, tests, ps, stream, counter):
    n = len(train)
    for spec in specs:
        for t_i, test in enumerate(tests):
            variants = (0, 1) if t_i < 2 else (counter[0] % 5,)
            for v in variants:
                counter[0] += 1
                tn, nm = _name_variant(v, n)
                yield dict(stream=stream, kind='mv', ps=ps, train=train, lat=list(spec), test=test, tnames=tn, names=nm,
                           useidx=bool(counter[0] & 1))


def _pick_specs(specs, k_sub):
    """default, CbO, the first Sofia-pruned lattice and the first k_sub sub-lattices"""
    out, nsof, nsub = [], 0, 0
    for sp in specs:
        if sp[0] in ('default', 'CbO'):
            out.append(sp)
        elif sp[0] == 'Sofia' and nsof < 1:
            nsof += 1
            out.append(sp)
        elif sp[0] == 'sub' and nsub < k_sub:
            nsub += 1
            out.append(sp)
    return out


def _corpus():
    import glob
    import json
    import os
    here = os.path.dirname(os.path.dirname(os.path.dirname(os.path.abspath(__file__))))
    for f in sorted(glob.glob(os.path.join(here, 'corpus', 'C17', '*.json'))):
        c = json.load(open(f))
        c = c.get('case', c)
        c['stream'] = 'corpus'
        yield c


def gen(tier, seed, boost=False):
    rng = random.Random(seed * 1000003 + 1717)
    counter = [0]
    yield from _corpus()
    thorough = tier == 'thorough' or boost
    # ---- exhaustive small scope: formal contexts
    tests_by_m = {}
    for rows in G.tables_upto(3, 3):
        m = len(rows[0])
        if m not in tests_by_m:
            tests_by_m[m] = list(_tests_all(m) if thorough else _tests_quick(m))
        specs = _lattice_specs(rows, rng, 8 if thorough else 4, 4)
        yield from _formal_cases(rows, specs, tests_by_m[m], 'exhaustive', (2 ** m + 4 ** m) if thorough else 4, counter)
        # the traced context carries the object names of the training context (same row count), other rows
        yield from _same_name_cases(rows, specs if thorough else _pick_specs(specs, 2),
                                    _same_shape_tests(rows, rng, 40 if thorough else 14), 'same-names', counter)
    if thorough:
        for rows in G.tables_upto(4, 4, cells=12):
            if len(rows) <= 3 and len(rows[0]) <= 3:
                continue
            m = len(rows[0])
            allrows = [list(b) for b in itertools.product((0, 1), repeat=m)]
            tests = ([[r] for r in allrows] + [[r, q] for r in allrows for q in allrows] + [allrows]) if m <= 3 else \
                [G.random_table(rng, 3, m, mmin=m) for _ in range(12)] + [allrows]
            specs = _lattice_specs(rows, rng, 4, 3)
            yield from _formal_cases(rows, specs, tests, 'exhaustive-large', 4, counter)
    # ---- exhaustive small scope: many-valued interval contexts
    mv_tests1 = list(_mv_tables(1, 2, MV_CELLS))
    for train in _mv_tables(1, 3, MV_CELLS):
        for ps in ('py', 'np'):
            specs = _mv_specs(train, ps, rng, None if thorough else 4)
            yield from _mv_cases(train, specs, mv_tests1, ps, 'exhaustive-mv', counter)
            same = [t for t in _mv_tables(1, len(train), MV_CELLS) if len(t) == len(train) and t != train]
            if len(same) > (40 if thorough else 8):
                same = rng.sample(same, 40 if thorough else 8)
            yield from _same_name_mv_cases(train, specs[:3], same, ps, 'same-names-mv', counter)
    if thorough:
        cells2 = [0, 2, [0, 1], [1, 2]]
        mv_tests2 = list(_mv_tables(2, 2, cells2))
        for train in _mv_tables(2, 2, cells2):
            for ps in ('py', 'np'):
                specs = _mv_specs(train, ps, rng, 4)
                yield from _mv_cases(train, specs, mv_tests2, ps, 'exhaustive-mv2', counter)
    # ---- seeded random larger cases
    nrand = 150 if tier == 'quick' else 2500
    if boost:
        nrand *= 3
    for _ in range(nrand):
        rows = G.random_table(rng, 6, 6)
        m = len(rows[0])
        specs = _lattice_specs(rows, rng, 0, 4)
        tests = []
        for _k in range(4):
            t = G.random_table(rng, 6, m, mmin=m)
            if rng.random() < 0.5:                  # mix rows of the training table in (seen objects)
                t[rng.randrange(len(t))] = list(rng.choice(rows))
            tests.append(t)
        tests.append([list(r) for r in rows])       # the training context itself
        yield from _formal_cases(rows, specs, tests, 'random', 1, counter)
        yield from _same_name_cases(rows, _pick_specs(specs, 1), _same_shape_tests(rows, rng, 4), 'random-same-names', counter)
        if _ % 3 == 0:
            ncols = rng.randint(1, 3)
            cell = lambda: (lambda a, b: a if a == b else [min(a, b), max(a, b)])(rng.randint(0, 4), rng.randint(0, 4))
            train = [[cell() for _j in range(ncols)] for _i in range(rng.randint(1, 5))]
            mvt = [[[cell() for _j in range(ncols)] for _i in range(rng.randint(1, 5))] for _k in range(3)] + [train]
            for ps in ('py', 'np'):
                sp = _mv_specs(train, ps, rng, 3)
                yield from _mv_cases(train, sp, mvt, ps, 'random-mv', counter)
                same = [[[cell() for _j in range(ncols)] for _i in range(len(train))] for _k in range(3)]
                yield from _same_name_mv_cases(train, sp[:2], [t for t in same if t != train], ps,
                                               'random-same-names-mv', counter)


# ----------------------------------------------------------------------------------------------- implementation side
def _canon_dict(d):
    out = []
    for k, v in d.items():
        kk = k if isinstance(k, str) else int(k)
        out.append([kk, sorted(int(x) for x in v)])
    return out


def impl(c):
    L = _get_lattice(c)
    if c['kind'] == 'mv':
        ctx = _mv_ctx(c['test'], c['ps'], None if c.get('names') is None else list(c['names']))
    else:
        ctx = make_context(c['test'], c['be'], c.get('names'))
    try:
        r = L.trace_context(ctx, use_object_indices=c['useidx'])
        if len(r) != 2:
            return {'err': 'ResultArity%d' % len(r)}
        return {'bottom': _canon_dict(r[0]), 'traced': _canon_dict(r[1])}
    except Exception as e:
        return {'err': exc_name(e)}


def _interval(v):
    lo, hi = (v if isinstance(v, (list, tuple)) else (v, v))
    assert float(int(lo)) == float(lo) and float(int(hi)) == float(hi)
    return [int(lo), int(hi)]


def requests(c):
    L = _get_lattice(c)
    d = _lat_data(L)
    n = len(L)
    if c['kind'] == 'mv':
        ints = []
        for i in range(n):
            ints.append([[int(p), None if v is None else _interval(v)] for p, v in L[i].intent_i.items()])
        ncols = len(c['test'][0])
        cols = [[_interval(row[j]) for row in c['test']] for j in range(ncols)]
        d.update(op='C17.tracemv', ints=ints, cols=cols, n=len(c['test']), names=_test_names(c), useidx=c['useidx'])
        return [d]
    d.update(op='C17.trace', be=SHORT[c['be']], trows=c['train'], tw=len(c['train'][0]),
             ints=[[int(a) for a in L[i].intent_i] for i in range(n)],
             rows=c['test'], w=len(c['test'][0]), names=_test_names(c), useidx=c['useidx'])
    return [d]


def _split(out):
    return [k for k, _ in out], [v for _, v in out]


def judge(c, io, rep):
    r = rep[0]
    model, spec = r['model'], r['spec']
    if c['lat'][0] == 'mono':
        if io == {'err': 'NotImplementedError'}:
            if model != io:
                return dict(ok=False, kind='harness', detail=f'model {model} does not refuse a monotone lattice')
            return dict(ok=True)
        return dict(ok=False, kind='property', detail=f'tracing a monotone lattice was not refused: {str(io)[:200]}')
    if 'err' in io:
        return dict(ok=False, kind='property', detail=f'trace_context raised {io["err"]}')
    bk, bv = _split(io['bottom'])
    tk, tv = _split(io['traced'])
    if tk != spec['keys'] or bk != spec['keys']:
        return dict(ok=False, kind='property',
                    detail=f'keys {bk}/{tk}, expected {spec["keys"]} (use_object_indices={c["useidx"]})')
    if tv != spec['traced']:
        return dict(ok=False, kind='property', detail=f'traced concepts {tv}, describing concepts are {spec["traced"]}')
    if bv != spec['bottom']:
        return dict(ok=False, kind='property', detail=f'bottom concepts {bv}, minimal describing concepts are {spec["bottom"]}')
    if r['hyp']:
        if 'err' in model or _split(model['bottom'])[1] != spec['bottom'] or _split(model['traced'])[1] != spec['traced'] \
                or _split(model['bottom'])[0] != spec['keys'] or _split(model['traced'])[0] != spec['keys']:
            return dict(ok=False, kind='harness', detail=f'model {model} != spec {spec} although the hypotheses hold '
                                                         f'(contradicts theorem)')
    if model != io:
        return dict(ok=False, kind='correspondence' if not r['hyp'] else 'harness',
                    detail=f'model {str(model)[:200]} differs from implementation {str(io)[:200]} (hyp={r["hyp"]})')
    return dict(ok=True)


def nontrivial(c):
    if c['lat'][0] == 'mono':
        return False
    try:
        k = len(_get_lattice(c))
    except Exception:
        return False
    if c['kind'] == 'mv':
        return k >= 3
    return k >= 3 and G.is_mixed(c['test'])


def key(c):
    return [c['kind'], c.get('ps'), c['train'], c['lat'], c['test'], c.get('be'), c['useidx'], c.get('tnames'), c.get('names')]


def branch(c, io, rep):
    r = rep[0] if rep else {}
    out = [c['stream'], f"{c['kind']}:{c['lat'][0]}", 'idx' if c['useidx'] else 'names', 'err' if 'err' in io else 'ok']
    if c['kind'] == 'formal':
        out.append('be:' + SHORT[c['be']])
    else:
        out.append('ps:' + c['ps'])
    tn = [str(i) for i in range(len(c['train']))] if c.get('tnames') is None else list(c['tnames'])
    nm = _test_names(c)
    out.append('objnames:' + ('same-as-training' if nm == tn else 'permuted-training' if sorted(nm) == sorted(tn)
                              else 'fresh')
               + (':default' if c.get('names') is None else ''))
    if c['lat'][0] != 'mono':
        out.append('hyp:' + str(r.get('hyp')))
        if 'traced' in io:
            nvis = len({i for _, v in io['traced'] for i in v})
            out.append('described-concepts:%s' % ('0' if nvis == 0 else '1' if nvis == 1 else 'many'))
            out.append('empty-traced-object' if any(not v for _, v in io['traced']) else 'all-objects-described')
            out.append('multi-bottom' if any(len(v) > 1 for _, v in io['bottom']) else 'single-bottom')
    return out


def signature(c, io, rep, v):
    d = v.get('detail', '')
    what = ('mono-not-refused' if c['lat'][0] == 'mono' else 'err:' + io['err'] if 'err' in io else
            'keys' if d.startswith('keys') else 'traced' if d.startswith('traced') else
            'bottom' if d.startswith('bottom') else 'other')
    return f"C17:{c['kind']}:{c['lat'][0]}:{what}"


def shrink(c):
    test = c['test']
    if len(test) > 1:
        for i in range(len(test)):
            d = dict(c)
            d['test'] = test[:i] + test[i + 1:]
            d['names'] = None if c.get('names') is None else c['names'][:len(d['test'])]
            yield d
            if c.get('names') is not None and c.get('tnames') is not None and len(c['train']) == len(test) \
                    and c['kind'] == 'formal' and c['lat'][0] in ('default', 'CbO'):
                d = dict(d)                         # drop the same object on both sides (keeps the names aligned)
                d['train'] = c['train'][:i] + c['train'][i + 1:]
                d['tnames'] = c['tnames'][:i] + c['tnames'][i + 1:]
                d['names'] = c['names'][:i] + c['names'][i + 1:]
                yield d
            elif c.get('names') is None and c.get('tnames') is None and len(c['train']) == len(test) \
                    and c['kind'] == 'formal' and c['lat'][0] in ('default', 'CbO'):
                d = dict(d)
                d['train'] = c['train'][:i] + c['train'][i + 1:]
                yield d
    if c['kind'] == 'formal':
        for i in range(len(test)):
            for j in range(len(test[0])):
                if test[i][j]:
                    d = dict(c)
                    d['test'] = [list(r) for r in test]
                    d['test'][i][j] = 0
                    yield d
        if c['lat'][0] in ('default', 'CbO'):
            train = c['train']
            if len(train) > 1:
                for i in range(len(train)):
                    d = dict(c)
                    d['train'] = train[:i] + train[i + 1:]
                    if c.get('tnames') is not None:
                        d['tnames'] = c['tnames'][:i] + c['tnames'][i + 1:]
                    yield d
            for i in range(len(train)):
                for j in range(len(train[0])):
                    if train[i][j]:
                        d = dict(c)
                        d['train'] = [list(r) for r in train]
                        d['train'][i][j] = 0
                        yield d
        if c['lat'][0] != 'CbO' and c['lat'][0] != 'mono':
            d = dict(c)
            d['lat'] = ['CbO']
            yield d

"""C17 — tracing a context through a lattice finds exactly the describing concepts."""
import functools
import itertools
import random

import gen as G
from implutil import BACKENDS, SHORT, make_context, exc_name

RULE = ('case = (training table, lattice spec in {default(Lindig), CbO, Sofia L_max=k, sub-lattice = subset of the CbO concepts '
        'keeping top and bottom, monotone, or hist = one of these followed by a HISTORY through the public api: constructor '
        'given the concepts reversed/shuffled, .T (then the traced context is over the training objects), write_json->read_json, '
        'reading every *_dict, a tracing of this or another context, emptying the dictionaries a tracing returned, '
        'remove / del / add / remove+add (fill_up_cache on and off) - the LAST tracing is judged against the lattice content '
        'read back from the object afterwards}, test table over the same attributes (rows need not occur in training), backend of '
        'the test context, key mode, object names of both contexts: fresh names, or - stream same-names - the traced context '
        'carrying exactly the training object names (default names on both sides / explicit / spelled-out defaults) or a '
        'permutation of them, with the same row count but different rows); or the many-valued twin (interval columns, IntervalPS / IntervalNumpyPS). The lattice is '
        'built by the real library and handed to the Lean side as data (extents, intents, children_dict in iteration order, '
        'supports, top). exhaustive over the tier scope, then seeded random tables up to 6x6; non-trivial = lattice with >= 3 '
        'concepts, mixed test table; distinct = distinct (train, lattice spec, test, backend, key mode)')
EXHAUSTIVE = {
    'quick': 'all training tables n,m<=3 (682) x {default, CbO, every distinct Sofia-pruned lattice L_max=1..#concepts, all '
             'sub-lattices keeping top+bottom when #concepts<=5 else every drop-one-concept sub-lattice + 2 seeded ones, monotone} x test tables: m<=2: all tables '
             'with <=3 rows; m=3: all 1-row tables, all unordered pairs of rows (orientation alternating; CbO and Sofia lattices '
             'only), all 3-row tables with pairwise distinct rows up to order + the table of all '
             '8 rows; same-names: every training table x {default, CbO, first Sofia, 2 sub-lattices} x complement, reversed rows and '
             'all (n*m<=6) / 14 seeded same-shape tables, 5 name variants rotating (both "default/default" and "same explicit" '
             'for the first two); key mode and test backend rotate over the enumeration (both key modes for every lattice); MV: all 1-column '
             'interval training contexts with <=3 rows over a 3-point grid x sub-lattices x all test contexts with <=2 rows '
             '(unordered pairs); history: every training table n,m<=3 x 19 history patterns (+6 ending in .T) x 3 test tables; '
             'history-mv: 8 patterns x 2 tests; extreme: 12 seeded tables with 65/70/129 attributes or 13-15 objects, 14+ traced '
             'objects; random MV value pools: small integers, integers above 2**24, hundredths (k/100)',
    'thorough': 'all training tables n,m<=3 x all lattice variants (ALL sub-lattices keeping top+bottom, up to 8 concepts) x ALL '
                'test tables with <=3 rows + the table of all rows (both key modes for <=2 rows, rotating for 3 rows; backend '
                'rotates); training tables with n*m<=12 (n,m<=4) x lattice variants x all test tables with <=2 rows (m<=3) / 12 '
                'seeded ones (m=4) + the table of all rows; same-names: all lattice variants x 40 same-shape tables; MV: all 1-column interval contexts <=3 rows and 2-column <=2 rows'}
EXPLANATION = ('the two returned dictionaries are pinned uniquely by the property; the IMPLEMENTATION\'s dictionaries are compared '
               'with the Lean-side specification (Spec.describing / Spec.minimalDescribing evaluated by the driver), and with the '
               'code-shaped model; theorems Fca.C17.* prove model = spec for every list of genuine concepts with its true cover '
               'relation (hypotheses are re-checked by the driver on every case: "hyp"); many-valued (interval) cases: '
               'Fca.C17.trace_mv_exact / trace_mv_bottom_minimal / trace_mv_keys prove model = spec for every list of genuine '
               'PATTERN concepts (description = intention_i(extent): per-column interval hull, None for the empty extent; '
               'extent = extension_i(description)) of an interval training context and every well-formed traced interval '
               'context with as many columns - upward inheritance of satisfaction is PROVED for them (Fca.Trace.upward_mv), '
               'and the driver decides these hypotheses (Spec.IsMVTraceLatticeOf w.r.t. the training context, '
               'Spec.IsTracedMVCtx: "hypfull") on every many-valued case; a library-built, unmutated lattice that fails '
               'them is reported')
ASSUMPTIONS = ['a history step that itself raises is skipped and recorded (hist-note:*): mutating the lattice is C09-C12\'s '
               'business, here only the tracing that follows is judged',
               'object names of the traced context pairwise distinct (dictionary keys); they may coincide with the training '
               'object names - names are not identity, the rows of the traced context decide',
               'the lattice object was produced by the library from one training context (its concepts/children_dict are read '
               'from the real object and checked against IsLatticeOf by the driver on every case)',
               'use_generators=False (the generator mode belongs to C20)',
               'many-valued contexts: integer-valued interval data (exact in float); interval pattern structures only '
               '(IntervalPS / IntervalNumpyPS) - SetPS / AttributePS columns are outside the model and the theorems']
TRUSTED = ['extraction of the lattice data (extent_i, intent_i, children_dict, support, top, is_monotone) from the real object',
           'MV: extraction of the training interval table handed to the driver for IsMVTraceLatticeOf (the harness\'s own '
           'training data, not read back from the lattice object); upward inheritance of satisfaction is no longer trusted: '
           'it is a theorem (upward_mv) and is still re-checked per case by the driver (upwardB, part of "hyp")']
CHUNK = 1000
REQUESTS_NEED_IMPL = True      # history cases: the lattice data is read from the object the implementation side built

# distinct object names, deliberately not in index order (o3, o2, o1, o0, o7, ...)
NAMES = ['o%d' % (i ^ 3) for i in range(128)]


# ----------------------------------------------------------------------------------------------- lattices
@functools.lru_cache(maxsize=4096)
def _train_ctx(rows_key, tnames=None):
    from fcapy.context import FormalContext
    return FormalContext(data=[[bool(v) for v in r] for r in rows_key],
                         object_names=None if tnames is None else list(tnames))


@functools.lru_cache(maxsize=8192)
def _lattice(rows_key, spec, tnames=None):
    """spec: ('default',) | ('CbO',) | ('Sofia', L_max) | ('sub', mask) | ('mono',); tnames = training object names
    (None = the library's default names '0','1',..)"""
    from fcapy.lattice import ConceptLattice
    K = _train_ctx(rows_key, tnames)
    if spec[0] == 'default':
        return ConceptLattice.from_context(K)
    if spec[0] == 'CbO':
        return ConceptLattice.from_context(K, algo='CbO')
    if spec[0] == 'Sofia':
        return ConceptLattice.from_context(K, algo='Sofia', L_max=spec[1])
    if spec[0] == 'mono':
        return ConceptLattice.from_context(K, is_monotone=True)
    if spec[0] == 'sub':
        full = _lattice(rows_key, ('CbO',), tnames)
        keep = [c for i, c in enumerate(full) if (spec[1] >> i) & 1]
        return ConceptLattice(keep)
    raise ValueError(spec)


def _mv_ctx(data, ps, names=None, div=1):
    """interval cells are integers k (or [k1, k2]); the library is given k/div (div=100: values like 0.1, 19.99 that are
    not representable exactly; order and equality of k/div are those of k, so the integer model stays exact)"""
    from fcapy.mvcontext import MVContext, PS
    cls = {'py': PS.IntervalPS, 'np': PS.IntervalNumpyPS}[ps]
    m = len(data[0])
    sc = (lambda x: x) if div == 1 else (lambda x: x / div)
    cells = [[tuple(sc(x) for x in v) if isinstance(v, (list, tuple)) else sc(v) for v in row] for row in data]
    return MVContext(data=cells, pattern_types={str(j): cls for j in range(m)}, object_names=names)


@functools.lru_cache(maxsize=4096)
def _mv_lattice(data_key, ps, spec, tnames=None, div=1):
    from fcapy.lattice import ConceptLattice
    K = _mv_ctx([list(r) for r in data_key], ps, None if tnames is None else list(tnames), div)
    if spec[0] == 'CbO':
        return ConceptLattice.from_context(K)
    if spec[0] == 'Sofia':
        return ConceptLattice.from_context(K, algo='Sofia', L_max=spec[1])
    if spec[0] == 'sub':
        full = _mv_lattice(data_key, ps, ('CbO',), tnames, div)
        keep = [c for i, c in enumerate(full) if (spec[1] >> i) & 1]
        return ConceptLattice(keep)
    raise ValueError(spec)


def _key(rows):
    return tuple(tuple(tuple(v) if isinstance(v, list) else v for v in r) for r in rows)


def _base_spec(c):
    return tuple(c['lat'][1]) if c['lat'][0] == 'hist' else tuple(c['lat'])


def _get_lattice(c, spec=None):
    """the (cached, never mutated) lattice of the case; for a history case its BASE lattice"""
    tn = c.get('tnames')
    tn = None if tn is None else tuple(tn)
    spec = _base_spec(c) if spec is None else spec
    if c['kind'] == 'mv':
        return _mv_lattice(_key(c['train']), c['ps'], spec, tn, c.get('div', 1))
    return _lattice(_key(c['train']), spec, tn)


@functools.lru_cache(maxsize=4096)
def _pristine_lattice(rows_key, spec, tnames=None):
    """an object of its own that is NEVER traced or mutated, only deep-copied: the starting point of every history case
    (the objects of `_lattice` are traced again and again by the plain cases, so whatever a tracing memoises on the
    lattice would leak into a history and make the case irreproducible in isolation)"""
    return _lattice.__wrapped__(rows_key, spec, tnames)


@functools.lru_cache(maxsize=4096)
def _pristine_mv_lattice(data_key, ps, spec, tnames=None, div=1):
    return _mv_lattice.__wrapped__(data_key, ps, spec, tnames, div)


def _get_pristine(c):
    tn = c.get('tnames')
    tn = None if tn is None else tuple(tn)
    if c['kind'] == 'mv':
        return _pristine_mv_lattice(_key(c['train']), c['ps'], _base_spec(c), tn, c.get('div', 1))
    return _pristine_lattice(_key(c['train']), _base_spec(c), tn)


def _transposed(c):
    return c['lat'][0] == 'hist' and sum(1 for o in c['lat'][2] if o[0] == 'T') % 2 == 1


def _train_rows(c):
    """the table the final lattice is a lattice OF (the transposed training table after `.T`)"""
    rows = c['train']
    return [list(col) for col in zip(*rows)] if _transposed(c) else rows


def _test_names(c):
    """object names of the traced context as the library sees them (None in the case = default names)"""
    return [str(i) for i in range(len(c['test']))] if c.get('names') is None else list(c['names'])


def _lat_data(L, kind='formal', div=1):
    n = len(L)
    chd = L.children_dict
    if kind == 'mv':
        ints = [[[int(p), None if v is None else _interval(v, div)] for p, v in L[i].intent_i.items()] for i in range(n)]
    else:
        ints = [[int(a) for a in L[i].intent_i] for i in range(n)]
    return dict(exts=[[int(g) for g in L[i].extent_i] for i in range(n)], ints=ints,
                children=[[int(j) for j in chd[i]] for i in range(n)],       # frozenset iteration order
                supports=[int(L[i].support) for i in range(n)], top=int(L.top), mono=bool(L.is_monotone))


def _sub_masks(k, top, bottom, rng, limit):
    """bit masks over the k concepts that keep top and bottom"""
    others = [i for i in range(k) if i not in (top, bottom)]
    base = (1 << top) | (1 << bottom)
    if limit is not None and len(others) > 10:      # too many to enumerate: draw distinct random subsets
        out = set()
        while len(out) < limit:
            r = rng.randint(0, len(others) - 1)
            out.add(base | sum(1 << i for i in rng.sample(others, r)))
        return sorted(out)
    allm = []
    for r in range(len(others)):           # proper subsets only (the full set is the CbO lattice itself)
        for comb in itertools.combinations(others, r):
            allm.append(base | sum(1 << i for i in comb))
    if limit is not None and len(allm) > limit:
        allm = rng.sample(allm, limit)
    return allm


def _lattice_specs(rows, rng, sub_all_upto, sub_limit):
    """the lattice variants of one training table that can be built (deterministic given rng state)"""
    key = _key(rows)
    specs = [('default',), ('CbO',)]
    try:
        full = _lattice(key, ('CbO',))
    except Exception:
        return [('default',)]
    k = len(full)
    seen = {frozenset(c.extent_i for c in full)}
    for lm in range(1, k + 1):
        try:
            Ls = _lattice(key, ('Sofia', lm))
        except Exception:
            continue
        sig = frozenset(c.extent_i for c in Ls)
        if sig not in seen:
            seen.add(sig)
            specs.append(('Sofia', lm))
    if k >= 3:
        lim = None if k <= sub_all_upto else sub_limit
        masks = _sub_masks(k, full.top, full.bottom, rng, lim)
        if lim is not None and k <= 10:
            # never leave to chance: every sub-lattice obtained by dropping ONE concept (these are the smallest non-graded
            # lattices: a concept reachable from the top by a short and by a long chain)
            allbits = (1 << k) - 1
            single = [allbits & ~(1 << i) for i in range(k) if i not in (full.top, full.bottom)]
            masks = single + [mk for mk in masks if mk not in single][:max(0, lim - 2)]
        for mask in masks:
            specs.append(('sub', mask))
    specs.append(('mono',))
    return specs


# ----------------------------------------------------------------------------------------------- generation
def _tests_quick(m):
    rows_all = [list(b) for b in itertools.product((0, 1), repeat=m)]
    if m <= 2:
        for n in (1, 2, 3):
            for t in itertools.product(rows_all, repeat=n):
                yield [list(r) for r in t]
        return
    for r in rows_all:
        yield [list(r)]
    for k, (r, q) in enumerate(itertools.combinations_with_replacement(rows_all, 2)):   # unordered pairs, orientation alternating
        yield [list(q), list(r)] if k & 1 else [list(r), list(q)]
    for k, t in enumerate(itertools.combinations(rows_all, 3)):
        yield [list(r) for r in (t[::-1] if k & 1 else t)]
    yield [list(r) for r in rows_all]


def _tests_all(m):
    rows_all = [list(b) for b in itertools.product((0, 1), repeat=m)]
    for n in (1, 2, 3):
        for t in itertools.product(rows_all, repeat=n):
            yield [list(r) for r in t]
    yield [list(r) for r in rows_all]


def _formal_cases(rows, specs, tests, stream, both_upto, counter, lean_default=False):
    for spec in specs:
        for t_i, test in enumerate(tests):
            if spec[0] == 'mono' and t_i >= 3:      # the refusal does not look at the traced context
                break
            if lean_default and spec[0] in ('default', 'sub') and len(test) == 2 and t_i >= both_upto:
                continue                            # quick tier: Lindig and sub-lattices skip the two-row tests (CbO, Sofia have them)
            modes = (False, True) if t_i < both_upto else ((counter[0] & 1) == 1,)
            for useidx in modes:
                counter[0] += 1
                yield dict(stream=stream, kind='formal', train=rows, lat=list(spec), test=test,
                           be=BACKENDS[counter[0] % 3], useidx=useidx, names=NAMES[:len(test)])


GRID = (0, 1, 2)
MV_CELLS = [0, 1, 2, [0, 1], [1, 2], [0, 2]]


def _mv_tables(ncols, nmax, cells):
    for n in range(1, nmax + 1):
        for t in itertools.product(cells, repeat=n * ncols):
            yield [list(t[i * ncols:(i + 1) * ncols]) for i in range(n)]


def _mv_specs(data, ps, rng, limit, div=1):
    specs = [('CbO',)]
    try:
        full = _mv_lattice(_key(data), ps, ('CbO',), None, div)
    except Exception:
        return []
    k = len(full)
    if k >= 3:
        for mask in _sub_masks(k, full.top, full.bottom, rng, limit):
            specs.append(('sub', mask))
    return specs


def _mv_cases(train, specs, tests, ps, stream, counter, div=1):
    for spec in specs:
        for test in tests:
            counter[0] += 1
            c = dict(stream=stream, kind='mv', ps=ps, train=train, lat=list(spec), test=test,
                     useidx=bool(counter[0] & 1), names=NAMES[:len(test)])
            if div != 1:
                c['div'] = div
            yield c


def _name_variant(v, n):
    """(training names, traced names): the traced context carries the SAME object names as the training context
    (names are not identity: its rows differ), or a permutation of them"""
    dflt = [str(i) for i in range(n)]
    if v == 0:
        return None, None                           # default names '0','1',.. on both sides
    if v == 1:
        return NAMES[:n], NAMES[:n]                 # the same explicit names on both sides
    if v == 2:
        return None, dflt                           # default names in training, spelled out in the traced context
    if v == 3:
        return NAMES[:n], NAMES[:n][::-1]           # permuted names
    return dflt, None                               # explicit '0','1',.. in training, default in the traced context


def _same_shape_tests(rows, rng, limit):
    """tables with the row count and width of `rows` but different rows"""
    n, m = len(rows), len(rows[0])
    out = [[[1 - v for v in r] for r in rows]]                         # complement
    if n > 1 and rows[::-1] != rows:
        out.append([list(r) for r in rows[::-1]])                      # same rows, other objects
    if n * m <= 6 or limit is None:
        for t in G.all_tables(n, m):
            if t != rows and t not in out:
                out.append(t)
        if limit is not None and len(out) > limit:
            out = out[:2] + rng.sample(out[2:], limit - 2)
        return out
    seen = {_key(t) for t in out} | {_key(rows)}
    while len(out) < limit:
        t = [[int(rng.random() < 0.5) for _ in range(m)] for _ in range(n)]
        if _key(t) not in seen:
            seen.add(_key(t))
            out.append(t)
    return out


def _same_name_cases(rows, specs, tests, stream, counter):
    n = len(rows)
    for spec in specs:
        if spec[0] == 'mono':
            continue
        for t_i, test in enumerate(tests):
            variants = (0, 1) if t_i < 2 else (counter[0] % 5,)
            for v in variants:
                counter[0] += 1
                tn, nm = _name_variant(v, n)
                yield dict(stream=stream, kind='formal', train=rows, lat=list(spec), test=test, tnames=tn, names=nm,
                           be=BACKENDS[counter[0] % 3], useidx=bool((counter[0] // 3) & 1))


def _same_name_mv_cases(train, specs, tests, ps, stream, counter, div=1):
    n = len(train)
    for spec in specs:
        for t_i, test in enumerate(tests):
            variants = (0, 1) if t_i < 2 else (counter[0] % 5,)
            for v in variants:
                counter[0] += 1
                tn, nm = _name_variant(v, n)
                c = dict(stream=stream, kind='mv', ps=ps, train=train, lat=list(spec), test=test, tnames=tn, names=nm,
                         useidx=bool(counter[0] & 1))
                if div != 1:
                    c['div'] = div
                yield c


def _pick_specs(specs, k_sub):
    """default, CbO, the first Sofia-pruned lattice and the first k_sub sub-lattices"""
    out, nsof, nsub = [], 0, 0
    for sp in specs:
        if sp[0] in ('default', 'CbO'):
            out.append(sp)
        elif sp[0] == 'Sofia' and nsof < 1:
            nsof += 1
            out.append(sp)
        elif sp[0] == 'sub' and nsub < k_sub:
            nsub += 1
            out.append(sp)
    return out


def _hist_patterns(k):
    """(base lattice, history) pairs; `k` rotates the concept a step picks.  Base 'sub*' / 'Sofia*' = a sub-lattice / a
    Sofia-pruned lattice of the table when it has one."""
    return [
        ('CbO', [['perm', -1]]),                                            # constructor given the concepts reversed
        ('CbO', [['perm', k]]),                                             # ... shuffled
        ('sub*', [['perm', k + 3]]),
        ('CbO', [['json']]),                                                # write_json -> read_json
        ('default', [['remove', k]]),                                       # mutated before its first tracing
        ('sub*', [['add', k, 1]]),
        ('sub*', [['add', k + 1, 0]]),
        ('CbO', [['read'], ['del', k + 1]]),
        ('default', [['trace', 'test', 1], ['remove', k]]),                 # trace -> mutate -> trace
        ('CbO', [['trace', 'alt', 0], ['del', k]]),
        ('default', [['trace', 'test', 0], ['readd', k, 1]]),               # net-zero size
        ('CbO', [['trace', 'alt', 1], ['readd', k + 1, 0]]),
        ('sub*', [['trace', 'test', 1], ['add', k, 1]]),
        ('sub*', [['read'], ['trace', 'alt', 0], ['add', k + 1, 0]]),
        ('Sofia*', [['trace', 'test', 1], ['remove', k]]),
        ('default', [['trace', 'test', 0], ['mutret']]),                    # caller empties the returned dictionaries
        ('CbO', [['perm', k + 7], ['trace', 'alt', 0], ['readd', k, 1]]),
        ('CbO', [['json'], ['trace', 'test', 0], ['remove', k]]),
        ('default', [['trace', 'test', 1], ['remove', k], ['add', 0, 1], ['trace', 'alt', 0], ['del', k + 1]]),
    ]


def _hist_patterns_T(k):
    """histories that end in the transposed orientation: the traced context is over the training OBJECTS"""
    return [
        ('default', [['T']]),
        ('CbO', [['T']]),
        ('sub*', [['T']]),
        ('default', [['T'], ['trace', 'test', 1], ['remove', k]]),
        ('CbO', [['T'], ['readd', k, 1]]),
        ('CbO', [['T'], ['perm', k]]),
    ]


def _resolve_base(base, specs, k):
    if base == 'sub*':
        subs = [sp for sp in specs if sp[0] == 'sub']
        return subs[k % len(subs)] if subs else None
    if base == 'Sofia*':
        sof = [sp for sp in specs if sp[0] == 'Sofia']
        return sof[k % len(sof)] if sof else None
    return (base,)


def _hist_cases(rows, specs, tests, tests_T, stream, counter, patterns=None, patterns_T=None):
    k = counter[0]
    for transposed, pats, tt in ((False, patterns or _hist_patterns(k), tests), (True, patterns_T or _hist_patterns_T(k), tests_T)):
        for base, ops in pats:
            sp = _resolve_base(base, specs, k)
            if sp is None:
                continue
            for test in tt:
                counter[0] += 1
                yield dict(stream=stream, kind='formal', train=rows, lat=['hist', list(sp), ops], test=test,
                           be=BACKENDS[counter[0] % 3], useidx=bool((counter[0] // 3) & 1), names=NAMES[:len(test)])


def _hist_mv_cases(train, specs, tests, ps, stream, counter, div=1):
    k = counter[0]
    pats = [('CbO', [['perm', -1]]), ('CbO', [['perm', k]]), ('CbO', [['trace', 'test', 1], ['remove', k]]),
            ('CbO', [['trace', 'alt', 0], ['readd', k, 1]]), ('sub*', [['trace', 'test', 0], ['add', k, 1]]),
            ('sub*', [['add', k + 1, 0]]), ('CbO', [['read'], ['del', k]]), ('CbO', [['trace', 'test', 0], ['mutret']])]
    for base, ops in pats:
        sp = _resolve_base(base, specs, k)
        if sp is None:
            continue
        for test in tests:
            counter[0] += 1
            c = dict(stream=stream, kind='mv', ps=ps, train=train, lat=['hist', list(sp), ops], test=test,
                     useidx=bool(counter[0] & 1), names=NAMES[:len(test)])
            if div != 1:
                c['div'] = div
            yield c


def _extreme_cases(rng, count, counter):
    """shape extremes: > 64 attributes (bit packing), >= 13 objects on either side (two-digit indexes and names)"""
    for i in range(count):
        if i & 1:
            m, n = rng.choice((65, 70, 129)), rng.randint(2, 4)
            rows = [[int(rng.random() < 0.7) for _ in range(m)] for _ in range(n)]
        else:
            m, n = rng.randint(3, 4), rng.randint(13, 15)
            rows = [[int(rng.random() < 0.5) for _ in range(m)] for _ in range(n)]
        test = [list(r) for r in rows] + [[1] * m, [0] * m]
        while len(test) < 14:
            r = list(rng.choice(rows))
            for _ in range(rng.randint(0, 2)):
                r[rng.randrange(m)] ^= 1
            test.append(r)
        rng.shuffle(test)
        for lat in (['CbO'], ['default'], ['hist', ['CbO'], [['perm', i]]],
                    ['hist', ['default'], [['trace', 'test', 1], ['remove', i]]]):
            counter[0] += 1
            yield dict(stream='extreme', kind='formal', train=rows, lat=lat, test=test, be=BACKENDS[counter[0] % 3],
                       useidx=bool(counter[0] & 1), names=NAMES[:len(test)])


def _corpus():
    import glob
    import json
    import os
    here = os.path.dirname(os.path.dirname(os.path.dirname(os.path.abspath(__file__))))
    for f in sorted(glob.glob(os.path.join(here, 'corpus', 'C17', '*.json'))):
        c = json.load(open(f))
        c = c.get('case', c)
        c['stream'] = 'corpus'
        yield c


def gen(tier, seed, boost=False):
    rng = random.Random(seed * 1000003 + 1717)
    counter = [0]
    yield from _corpus()
    # a boosted quick run (drifted source / failed proof obligation) widens the quick scope by a bounded amount (every
    # sub-lattice, more histories, 3x random); it does NOT switch to the thorough scope
    thorough = tier == 'thorough'
    wide = thorough or boost
    # ---- exhaustive small scope: formal contexts
    tests_by_m = {}
    for rows in G.tables_upto(3, 3):
        m = len(rows[0])
        if m not in tests_by_m:
            tests_by_m[m] = list(_tests_all(m) if thorough else _tests_quick(m))
        specs = _lattice_specs(rows, rng, 8 if wide else 5, 4)
        yield from _formal_cases(rows, specs, tests_by_m[m], 'exhaustive', (2 ** m + 4 ** m) if thorough else 4, counter,
                                 lean_default=not thorough)
        # lattices with a history (unsorted constructor input, .T, read_json, add/remove/del between two tracings)
        n = len(rows)
        tm, tn = tests_by_m[m], tests_by_m.setdefault(n, list(_tests_all(n) if thorough else _tests_quick(n)))
        nh = 6 if thorough else 4 if boost else 2
        ht = [tm[-1]] + [tm[(counter[0] + 7 * j) % len(tm)] for j in range(nh)]
        htT = [tn[-1], [list(col) for col in zip(*rows)]] + [tn[(counter[0] + 5 * j) % len(tn)] for j in range(nh - 1)]
        yield from _hist_cases(rows, specs, ht, htT, 'history', counter)
        # the traced context carries the object names of the training context (same row count), other rows
        yield from _same_name_cases(rows, specs if thorough else _pick_specs(specs, 2),
                                    _same_shape_tests(rows, rng, 40 if thorough else 14), 'same-names', counter)
    if thorough:
        for rows in G.tables_upto(4, 4, cells=12):
            if len(rows) <= 3 and len(rows[0]) <= 3:
                continue
            m = len(rows[0])
            allrows = [list(b) for b in itertools.product((0, 1), repeat=m)]
            tests = ([[r] for r in allrows] + [[r, q] for r in allrows for q in allrows] + [allrows]) if m <= 3 else \
                [G.random_table(rng, 3, m, mmin=m) for _ in range(12)] + [allrows]
            specs = _lattice_specs(rows, rng, 4, 3)
            yield from _formal_cases(rows, specs, tests, 'exhaustive-large', 4, counter)
    # ---- exhaustive small scope: many-valued interval contexts
    mv_tests1 = list(_mv_tables(1, 2, MV_CELLS))
    if not thorough:                                # quick: unordered pairs of rows, orientation alternating
        mv_tests1 = [t for t in mv_tests1 if len(t) == 1] + \
            [[[q], [r]] if k & 1 else [[r], [q]]
             for k, (r, q) in enumerate(itertools.combinations_with_replacement(MV_CELLS, 2))]
    for train in _mv_tables(1, 3, MV_CELLS):
        for ps in ('py', 'np'):
            specs = _mv_specs(train, ps, rng, None if thorough else 4)
            yield from _mv_cases(train, specs, mv_tests1, ps, 'exhaustive-mv', counter)
            same = [t for t in _mv_tables(1, len(train), MV_CELLS) if len(t) == len(train) and t != train]
            if len(same) > (40 if thorough else 8):
                same = rng.sample(same, 40 if thorough else 8)
            yield from _same_name_mv_cases(train, specs[:3], same, ps, 'same-names-mv', counter)
            if len(train) >= 2:
                yield from _hist_mv_cases(train, specs, [mv_tests1[counter[0] % len(mv_tests1)], train + [train[0]]], ps,
                                          'history-mv', counter)
    if thorough:
        cells2 = [0, 2, [0, 1], [1, 2]]
        mv_tests2 = list(_mv_tables(2, 2, cells2))
        for train in _mv_tables(2, 2, cells2):
            for ps in ('py', 'np'):
                specs = _mv_specs(train, ps, rng, 4)
                yield from _mv_cases(train, specs, mv_tests2, ps, 'exhaustive-mv2', counter)
    yield from _extreme_cases(rng, 60 if thorough else 24 if boost else 12, counter)
    # ---- seeded random larger cases
    nrand = 150 if tier == 'quick' else 2500
    if boost:
        nrand *= 3
    for _ in range(nrand):
        rows = G.random_table(rng, 6, 6)
        m = len(rows[0])
        specs = _lattice_specs(rows, rng, 0, 4)
        tests = []
        for _k in range(4):
            t = G.random_table(rng, 6, m, mmin=m)
            if rng.random() < 0.5:                  # mix rows of the training table in (seen objects)
                t[rng.randrange(len(t))] = list(rng.choice(rows))
            tests.append(t)
        tests.append([list(r) for r in rows])       # the training context itself
        yield from _formal_cases(rows, specs, tests, 'random', 1, counter)
        yield from _same_name_cases(rows, _pick_specs(specs, 1), _same_shape_tests(rows, rng, 4), 'random-same-names', counter)
        k = rng.randrange(1000)
        pats = rng.sample(_hist_patterns(k), 6)
        tT = [[list(col) for col in zip(*rows)], G.random_table(rng, 5, len(rows), mmin=len(rows))]
        yield from _hist_cases(rows, specs, tests[:1] + tests[-1:], tT, 'random-history', counter, pats,
                               rng.sample(_hist_patterns_T(k), 2))
        if _ % 3 == 0:
            ncols = rng.randint(1, 3)
            # value pools: small integers / integers beyond float32's 24-bit mantissa / hundredths (0.01 .. 19.99, given to
            # the library as k/100)
            off, div = [(0, 1), (2 ** 24, 1), (0, 100)][(_ // 3) % 3]
            hi = 1999 if div == 100 else 4
            cell = lambda: (lambda a, b: a if a == b else [min(a, b), max(a, b)])(off + rng.randint(0, hi), off + rng.randint(0, hi))
            train = [[cell() for _j in range(ncols)] for _i in range(rng.randint(1, 5))]
            mvt = [[[cell() for _j in range(ncols)] for _i in range(rng.randint(1, 5))] for _k in range(3)] + [train]
            for ps in ('py', 'np'):
                sp = _mv_specs(train, ps, rng, 3, div)
                yield from _mv_cases(train, sp, mvt, ps, 'random-mv', counter, div)
                yield from _hist_mv_cases(train, sp, mvt[:1] + mvt[-1:], ps, 'random-history-mv', counter, div)
                same = [[[cell() for _j in range(ncols)] for _i in range(len(train))] for _k in range(3)]
                yield from _same_name_mv_cases(train, sp[:2], [t for t in same if t != train], ps,
                                               'random-same-names-mv', counter, div)


# ----------------------------------------------------------------------------------------------- implementation side
def _canon_dict(d):
    out = []
    for k, v in d.items():
        kk = k if isinstance(k, str) else int(k)
        out.append([kk, sorted(int(x) for x in v)])
    return out


class _Timeout(Exception):
    pass


def _guarded(f, seconds=20):
    """run f() under a CPU-time guard (a traversal that never ends is a failure of the case, not of the run)"""
    import signal

    def onalarm(signum, frame):
        raise _Timeout()
    try:
        old = signal.signal(signal.SIGPROF, onalarm)
    except ValueError:                              # not in the main thread: no guard
        return f()
    signal.setitimer(signal.ITIMER_PROF, seconds)
    try:
        return f()
    finally:
        signal.setitimer(signal.ITIMER_PROF, 0)
        signal.signal(signal.SIGPROF, old)


def _test_ctx(c, rows=None, names=False):
    rows = c['test'] if rows is None else rows
    nm = c.get('names') if names is False else names
    if c['kind'] == 'mv':
        return _mv_ctx(rows, c['ps'], None if nm is None else list(nm), c.get('div', 1))
    return make_context(rows, c['be'], nm)


def _alt_rows(c):
    """another context over the same attributes (used for a tracing BEFORE the lattice is changed)"""
    if c['kind'] == 'mv':
        return [list(r) for r in c['test'][::-1]] + [list(c['test'][0])]
    return [[1 - v for v in r] for r in c['test']] + [list(c['test'][0])]


def _apply_history(c, L, ctx):
    """apply the history of a `hist` case to the private copy `L` through the PUBLIC api; returns (lattice, notes)"""
    from fcapy.lattice import ConceptLattice
    notes, removed, last = [], [], None
    transposed = rebuilt = False
    for op in c['lat'][2]:
        o = op[0]
        try:
            if o == 'perm':                         # the same concepts handed to the constructor in another order
                cs = list(L)
                if op[1] < 0:
                    cs = cs[::-1]
                else:
                    random.Random(op[1]).shuffle(cs)
                L = ConceptLattice(cs)
            elif o == 'T':
                L = L.T
                transposed = not transposed
            elif o == 'json':
                if len(L) >= 3 and c['kind'] == 'formal' and not transposed:
                    K = _train_ctx(_key(c['train']), None if c.get('tnames') is None else tuple(c['tnames']))
                    L = ConceptLattice.read_json(json_data=L.write_json(list(K.object_names), list(K.attribute_names)))
                    rebuilt = True
                else:
                    notes.append('json:skipped')
            elif o == 'read':                       # warm every cache of the poset
                _ = (L.children_dict, L.parents_dict, L.descendants_dict, L.ancestors_dict, L.top, L.bottom)
            elif o == 'trace':
                cx = ctx if op[1] == 'test' else _test_ctx(c, _alt_rows(c), None)
                last = _guarded(lambda: L.trace_context(cx, use_object_indices=bool(op[2])))
            elif o == 'mutret':                     # a hostile caller empties what the previous tracing returned
                if last is not None:
                    for d in last[:2]:
                        for v in d.values():
                            v.clear()
                        d.clear()
            elif o in ('remove', 'del', 'readd'):
                cand = [i for i in range(len(L)) if i not in (L.top, L.bottom)]
                if not cand:
                    notes.append(o + ':skipped')
                    continue
                i = cand[op[1] % len(cand)]
                el = L[i]
                if o == 'del':
                    del L[i]
                else:
                    L.remove(el)
                removed.append(el)
                if o == 'readd':
                    L.add(el, fill_up_cache=bool(op[2]))
            elif o == 'add':
                pool = list(removed)
                if not transposed and not rebuilt:
                    pool += [x for x in _get_lattice(c, ('CbO',)) if x not in L and x not in pool]
                pool = [x for x in pool if x not in L]
                if not pool:
                    notes.append('add:skipped')
                    continue
                L.add(pool[op[1] % len(pool)], fill_up_cache=bool(op[2]))
            else:
                notes.append('unknown-op:' + str(o))
        except _Timeout:
            notes.append(o + ':NonTermination')
        except Exception as e:                      # a history step that raises is not this property's business
            notes.append(o + ':' + exc_name(e))
    return L, notes


def impl(c):
    import copy
    ctx = _test_ctx(c)
    out = {}
    if c['lat'][0] == 'hist':
        L, notes = _apply_history(c, copy.deepcopy(_get_pristine(c)), ctx)
        out['notes'] = notes
    else:
        L = _get_lattice(c)
    try:
        r = _guarded(lambda: L.trace_context(ctx, use_object_indices=c['useidx']))
        if len(r) != 2:
            out['err'] = 'ResultArity%d' % len(r)
        else:
            out.update(bottom=_canon_dict(r[0]), traced=_canon_dict(r[1]))
    except _Timeout:
        out['err'] = 'NonTermination'
    except Exception as e:
        out['err'] = exc_name(e)
    if c['lat'][0] == 'hist':                       # the CURRENT content of the lattice, read after the judged call
        try:
            out['lat'] = _lat_data(L, c['kind'], c.get('div', 1))
        except Exception as e:
            out['lat_err'] = exc_name(e)
    return out


def _interval(v, div=1):
    lo, hi = (v if isinstance(v, (list, tuple)) else (v, v))
    lo, hi = (lo, hi) if div == 1 else (round(lo * div), round(hi * div))
    assert float(int(lo)) == float(lo) and float(int(hi)) == float(hi)
    if div != 1:
        assert int(lo) / div == (v[0] if isinstance(v, (list, tuple)) else v)
    return [int(lo), int(hi)]


def requests(c, io=None):
    d = (io or {}).get('lat')
    d = dict(d) if d is not None else _lat_data(_get_lattice(c), c['kind'], c.get('div', 1))
    if c['kind'] == 'mv':
        ncols = len(c['test'][0])
        cols = [[_interval(row[j]) for row in c['test']] for j in range(ncols)]
        # the training context: the driver decides IsMVTraceLatticeOf (hypothesis of Fca.C17.trace_mv_*) on the lattice
        tcols = [[_interval(row[j]) for row in c['train']] for j in range(len(c['train'][0]))]
        d.update(op='C17.tracemv', cols=cols, n=len(c['test']), names=_test_names(c), useidx=c['useidx'],
                 tcols=tcols, tn=len(c['train']))
        return [d]
    tr = _train_rows(c)
    d.update(op='C17.trace', be=SHORT[c['be']], trows=tr, tw=len(tr[0]),
             rows=c['test'], w=len(c['test'][0]), names=_test_names(c), useidx=c['useidx'])
    return [d]


def _split(out):
    return [k for k, _ in out], [v for _, v in out]


def judge(c, io, rep):
    r = rep[0]
    model, spec = r['model'], r['spec']
    if 'lat_err' in io:                             # the mutated lattice cannot be read back: nothing to judge against
        return dict(ok=True)
    io = {k: v for k, v in io.items() if k in ('bottom', 'traced', 'err')}
    if c['lat'][0] == 'mono':
        if io == {'err': 'NotImplementedError'}:
            if model != io:
                return dict(ok=False, kind='harness', detail=f'model {model} does not refuse a monotone lattice')
            return dict(ok=True)
        return dict(ok=False, kind='property', detail=f'tracing a monotone lattice was not refused: {str(io)[:200]}')
    if 'err' in io:
        return dict(ok=False, kind='property', detail=f'trace_context raised {io["err"]}'
                    + (f' after the history {c["lat"][2]}' if c['lat'][0] == 'hist' else ''))
    bk, bv = _split(io['bottom'])
    tk, tv = _split(io['traced'])
    if tk != spec['keys'] or bk != spec['keys']:
        return dict(ok=False, kind='property',
                    detail=f'keys {bk}/{tk}, expected {spec["keys"]} (use_object_indices={c["useidx"]})')
    if tv != spec['traced']:
        return dict(ok=False, kind='property', detail=f'traced concepts {tv}, describing concepts are {spec["traced"]}')
    if bv != spec['bottom']:
        return dict(ok=False, kind='property', detail=f'bottom concepts {bv}, minimal describing concepts are {spec["bottom"]}')
    if r.get('hypfull') is True and not r['hyp']:
        return dict(ok=False, kind='harness', detail='the lattice is a list of genuine pattern concepts of the training '
                    'context (IsMVTraceLatticeOf) but upward inheritance / order data fail on the traced context '
                    '(contradicts Fca.Trace.upward_mv)')
    if r.get('hypfull') is False and c['lat'][0] != 'hist':
        # a lattice the library built from ONE training context without any later mutation: its concepts must be genuine
        # pattern concepts in the sense of Spec.IsPatternConcept (description = intention_i(extent), extent = extension_i)
        return dict(ok=False, kind='correspondence',
                    detail='the lattice built by the library is not a list of genuine pattern concepts with true covers '
                           '(Spec.IsMVTraceLatticeOf or Spec.IsTracedMVCtx is false): the hypotheses of '
                           'Fca.C17.trace_mv_exact do not cover this case')
    if r['hyp']:
        if 'err' in model or _split(model['bottom'])[1] != spec['bottom'] or _split(model['traced'])[1] != spec['traced'] \
                or _split(model['bottom'])[0] != spec['keys'] or _split(model['traced'])[0] != spec['keys']:
            return dict(ok=False, kind='harness', detail=f'model {model} != spec {spec} although the hypotheses hold '
                                                         f'(contradicts theorem)')
    if model != io:
        return dict(ok=False, kind='correspondence' if not r['hyp'] else 'harness',
                    detail=f'model {str(model)[:200]} differs from implementation {str(io)[:200]} (hyp={r["hyp"]})')
    return dict(ok=True)


def nontrivial(c):
    if c['lat'][0] == 'mono':
        return False
    try:
        k = len(_get_lattice(c))
    except Exception:
        return False
    if c['kind'] == 'mv':
        return k >= 3
    return k >= 3 and G.is_mixed(c['test'])


def key(c):
    return [c['kind'], c.get('ps'), c['train'], c['lat'], c['test'], c.get('be'), c['useidx'], c.get('tnames'), c.get('names'), c.get('div', 1)]


def branch(c, io, rep):
    r = rep[0] if rep else {}
    out = [c['stream'], f"{c['kind']}:{c['lat'][0]}", 'idx' if c['useidx'] else 'names', 'err' if 'err' in io else 'ok']
    if c['lat'][0] == 'hist':
        out.append('hist:' + '>'.join(o[0] for o in c['lat'][2]))
        out.extend('hist-note:' + x for x in io.get('notes', []))
        if 'lat_err' in io:
            out.append('hist:lattice-unreadable')
    if c.get('div', 1) != 1:
        out.append('mv:hundredths')
    if c['kind'] == 'formal':
        out.append('be:' + SHORT[c['be']])
    else:
        out.append('ps:' + c['ps'])
    tn = [str(i) for i in range(len(c['train']))] if c.get('tnames') is None else list(c['tnames'])
    nm = _test_names(c)
    out.append('objnames:' + ('same-as-training' if nm == tn else 'permuted-training' if sorted(nm) == sorted(tn)
                              else 'fresh')
               + (':default' if c.get('names') is None else ''))
    if c['lat'][0] != 'mono':
        out.append('hyp:' + str(r.get('hyp')))
        if c['kind'] == 'mv':
            out.append('hypfull:' + str(r.get('hypfull')))
        if 'traced' in io:
            nvis = len({i for _, v in io['traced'] for i in v})
            out.append('described-concepts:%s' % ('0' if nvis == 0 else '1' if nvis == 1 else 'many'))
            out.append('empty-traced-object' if any(not v for _, v in io['traced']) else 'all-objects-described')
            out.append('multi-bottom' if any(len(v) > 1 for _, v in io['bottom']) else 'single-bottom')
    return out


def signature(c, io, rep, v):
    d = v.get('detail', '')
    what = ('mono-not-refused' if c['lat'][0] == 'mono' else 'err:' + io['err'] if 'err' in io else
            'keys' if d.startswith('keys') else 'traced' if d.startswith('traced') else
            'bottom' if d.startswith('bottom') else 'other')
    return f"C17:{c['kind']}:{c['lat'][0]}:{what}"


def shrink(c):
    test = c['test']
    if len(test) > 1:
        for i in range(len(test)):
            d = dict(c)
            d['test'] = test[:i] + test[i + 1:]
            d['names'] = None if c.get('names') is None else c['names'][:len(d['test'])]
            yield d
            if c.get('names') is not None and c.get('tnames') is not None and len(c['train']) == len(test) \
                    and c['kind'] == 'formal' and c['lat'][0] in ('default', 'CbO'):
                d = dict(d)                         # drop the same object on both sides (keeps the names aligned)
                d['train'] = c['train'][:i] + c['train'][i + 1:]
                d['tnames'] = c['tnames'][:i] + c['tnames'][i + 1:]
                d['names'] = c['names'][:i] + c['names'][i + 1:]
                yield d
            elif c.get('names') is None and c.get('tnames') is None and len(c['train']) == len(test) \
                    and c['kind'] == 'formal' and c['lat'][0] in ('default', 'CbO'):
                d = dict(d)
                d['train'] = c['train'][:i] + c['train'][i + 1:]
                yield d
    if c['kind'] == 'formal':
        for i in range(len(test)):
            for j in range(len(test[0])):
                if test[i][j]:
                    d = dict(c)
                    d['test'] = [list(r) for r in test]
                    d['test'][i][j] = 0
                    yield d
        if c['lat'][0] in ('default', 'CbO'):
            train = c['train']
            if len(train) > 1:
                for i in range(len(train)):
                    d = dict(c)
                    d['train'] = train[:i] + train[i + 1:]
                    if c.get('tnames') is not None:
                        d['tnames'] = c['tnames'][:i] + c['tnames'][i + 1:]
                    yield d
            for i in range(len(train)):
                for j in range(len(train[0])):
                    if train[i][j]:
                        d = dict(c)
                        d['train'] = [list(r) for r in train]
                        d['train'][i][j] = 0
                        yield d
        if c['lat'][0] != 'CbO' and c['lat'][0] != 'mono' and not _transposed(c):
            d = dict(c)
            d['lat'] = ['CbO']
            yield d
    if c['lat'][0] == 'hist':                       # shorter histories (the orientation must stay)
        ops = c['lat'][2]
        for i, o in enumerate(ops):
            if o[0] != 'T':
                d = dict(c)
                d['lat'] = ['hist', c['lat'][1], ops[:i] + ops[i + 1:]]
                yield d

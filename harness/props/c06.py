"""C06 — transposition, complement and relabelling act as dualities on contexts / lattices;
the monotone lattice is exactly the set of monotone concepts with a consistent cover relation."""
import functools
import itertools
import json
import os
import random

import gen as G
from implutil import BACKENDS, SHORT, ints, exc_name

RULE = ('three kinds of case.  ctx = (table, backend, names): K.T / K.T.T == K / ~K / ~~K == K and '
        'K.T.extension_i(A) == K.intention_i(A) (+ dual) for every ordered duplicate-free selection;  '
        'lat = (table, backend, algorithm in {default(Lindig), CbO}): from_context(K).T vs from_context(K.T) '
        '(concept sets and cover relation), from_context(K, is_monotone=True) judged by the Lean oracles '
        'monoConcepts / monoLowerCovers and compared with the model run on the implementation\'s lattice of ~K;  '
        'perm = (table, backend, algorithm, row permutation pi, column permutation sigma): K[pi, sigma] and its '
        'lattice vs the relabelled lattice of K;  conv = (table, backend, pi, sigma): the derived contexts K.T, ~K, '
        'K[pi,sigma], K.T.T and K itself moved to each of the 3 backends (raw data and BinTable object), judged against '
        'the Lean Spec tables, the converted K.T also by its derivation operators and by transposing it back;  '
        'lhist = (table, path in {default, CbO, Lindig iterate_extents True/False, unsorted concept list, read_json, '
        'L.T.T, transposed lattice of K.T}, history of partial queries / remove+add / remove / dictionary reads / hostile '
        'mutation of returned dictionaries): afterwards L.T must list the concepts of L with extent and intent exchanged '
        'and its children / parents / descendants / ancestors must be the covers / strict order of the transposed table '
        '(Lean oracle C06.order).  A big stream repeats ctx / conv / lat / perm on shapes with >= 64 cells and two-digit '
        'indexes (8x8 ... 22x3, 64x1) on every backend with 4 algorithm variants; a history stream renames a used context '
        'through the setters (and mutates a returned K.T / ~K / K[..], with or without touching K itself afterwards) before the '
        'ctx checks.  near (class H6) = every window of a pool of near misses of the \'not \' prefix (other capitalisation, other '
        'separators, bare / blank-less / doubled / non-initial pattern) as attribute and object names: ctx on every backend, lat on '
        'the 4 algorithm variants, expected names from the Lean model of the toggle (exact prefix only); the same pool rotates through '
        'the exhaustive / big / random ctx, lat and perm cases.  dep (classes H5, H4, H7, H8) = a STORE of context objects: '
        'K = slot 0; steps derive a new object from a slot (K.T, ~K, K[pi, sigma], K[identity], K[pi], K[pi, :], K[:, sigma] with '
        'unsorted full-range selections), call a public setter of a slot (object_names / attribute_names / data.data; also renamings '
        'and tables that keep zlib.adler32 of what hash_fixed reads, asserted to differ and to collide), create an unrelated object '
        'with a colliding hash_fixed, or observe a slot (content, X.T, X.T.T (== X), ~X, ~~X (== X), X[reversed, rotated], the NAMED '
        'derivation operators of X and of X.T); for every derivation x {source, derived} x 7 kinds of mutation: derive, mutate one '
        'side, observe BOTH, derive AGAIN and observe, (for T) transpose back and observe; plus random histories over up to 5 objects; '
        'tables up to 4x4 and 65x2, 2x65, 129x1, 3x64; every observation must equal the Lean model of the store '
        '(Fca.Model.DualityStore: every object answers for its OWN current content; theorems store_independence, '
        'derived_object_independent, history_last_write_wins, derive_after_history).  dlat = the lattices derived from K '
        '(from_context(K), its .T, from_context(K.T), from_context(~K), the monotone lattice) are KEPT, the derived contexts are '
        'optionally renamed / overwritten, K is changed through its setters (incl. hash-colliding changes), then the kept lattices are '
        'read again (judged as the lattices of the EARLIER content) and all are built again (judged for the CURRENT content).  lhist '
        'also keeps an earlier L.T, mutates L or the kept lattice, and judges each against the transposed table.  forms (H7) = the '
        'four argument forms of K[..] with unsorted full-range selections (strict: the relabelled context), and selections with '
        'repetitions of length n, n+1, n-1 (model agreement).  h8 = ctx / conv / lat / perm on 64/65 and 128/129 objects or attributes '
        'with an object (attribute) of index >= 64 that alone distinguishes two concepts.  Exhaustive over all tables up to the scope x 3 backends x 2 '
        'algorithms x all permutations, then seeded random larger tables with random permutations; non-trivial = '
        'table neither all-true nor all-false (perm: and a non-identity permutation); distinct = distinct case '
        'dict without the stream tag')
EXHAUSTIVE = {'quick': 'all tables n,m<=3 (682) x 3 backends x {ctx with plain, "not "-prefixed and TRICKY + NEAR-MISS names (valid names whose '
                       'remainder after an optional "not " starts with n/o/t/blank, and near misses of the prefix itself, rotating through the pool), all ordered '
                       'selections; lat x 2 algorithms x {"not "-prefixed, TRICKY names}; perm x 2 algorithms x all n!*m! permutations}',
              'thorough': 'the quick scope, plus random tables up to 7x7 with random permutations; 4 repetitions of the '
                          'big shapes and more lattice histories'}
EXPLANATION = ('K.T, ~K, K[pi,sigma], ConceptLattice.T and the monotone construction are pinned uniquely (up to the '
               'order of set-valued children) by the model, and the Lean theorems Fca.C06.* prove model = Spec for all '
               'inputs; the implementation\'s lattices (whose construction algorithm is property C02) are judged by the '
               'Lean oracles allConcepts / lowerCovers / monoConcepts / monoLowerCovers and additionally compared '
               'implementation-vs-implementation (lattice of K.T vs transposed lattice, lattice of K[pi,sigma] vs relabelled lattice)')
ASSUMPTIONS = ['tables have n,m >= 1 rows/columns; object/attribute names pairwise distinct',
               'store histories: setter calls are valid (names of the right length, a rectangular table of the same shape); single cells '
               'written into the array handed out by K.data.data are outside the modelled API (on numpy K.T keeps a view of it)',
               'complement involution: no attribute name starts with "not not " (hypothesis NamesOK of the theorem; '
               'the excluded point is exercised in the malformed stream, where only model/implementation agreement is required)',
               'row/column selections of K[rows, cols] are permutations given as lists of non-negative indexes']
TRUSTED = ['K[rows], K[rows, :], K[:, cols] are judged as K[rows, all columns] / K[all rows, cols] of the model (the slice code paths '
           'of the backends are modelled in property C05)',
           'the lattice-construction algorithms (Lindig, CbO) are not modelled here (property C02): the model of '
           'ConceptLattice.T / _from_context_monotone is run on the lattice the implementation built, and that lattice is '
           'itself judged by the brute-force Lean oracle allConcepts + lowerCovers',
           'POSet parents_dict is modelled as _transpose_hierarchy(children_dict) (what POSet.__init__ caches)',
           'zlib.adler32 (hash_fixed) is an opaque integer passed from the implementation to the model',
           'POSet queries / add / remove used to build lattice histories are not modelled here (properties C09/C11); '
           'their results are judged only through the final observation by the oracle C06.order (proved sound: order_oracles_sound)']
CHUNK = 600
REQUESTS_NEED_IMPL = True

ALGOS = (None, 'CbO')
# algorithm specs: a name understood by from_context, optionally '+ext' / '+int' = Lindig with iterate_extents True / False
ALGOS_X = (None, 'CbO', 'Lindig+ext', 'Lindig+int')
OBJ = ['g%d' % i for i in range(132)]
ATT = list('abcdefghijklmnop') + ['q%d' % i for i in range(16, 132)]
# shapes with >= 64 cells (bit-packing / word boundaries) and two-digit indexes; the first group is small enough in both
# directions for the brute-force concept oracle (2^width subsets of the table and of its transpose)
BIG_LAT = ((8, 8), (10, 8), (8, 10), (9, 8), (11, 6), (6, 11))
BIG_CTX = BIG_LAT + ((13, 5), (5, 13), (16, 4), (4, 16), (22, 3), (3, 22), (64, 1), (1, 64), (33, 2), (2, 33), (9, 7), (7, 9))
# class H8 (size-gated code paths): 64/65 and 128/129 on either dimension.  The lattices of these shapes have at most
# 2^min(n,m) concepts; the Lean oracles enumerate over the smaller side (proved exact: C06.big_oracles_sound)
H8_LAT = ((65, 3), (3, 65), (64, 3), (3, 64), (129, 2), (2, 129), (128, 2), (2, 128))
H8_CTX = H8_LAT + ((65, 1), (1, 65), (128, 1), (1, 128), (129, 1), (1, 129), (65, 4), (4, 65))


def _algo_kw(algo):
    if algo is None or '+' not in algo:
        return algo, {}
    name, opt = algo.split('+')
    return name, {'iterate_extents': opt == 'ext'}


def _from_context(K, algo, **kw):
    from fcapy.lattice import ConceptLattice
    name, kw2 = _algo_kw(algo)
    return ConceptLattice.from_context(K, algo=name, **kw2, **kw)


def _dense_table(rng, n, m):
    d = rng.choice((0.3, 0.5, 0.7, 0.8))
    t = [[int(rng.random() < d) for _ in range(m)] for _ in range(n)]
    if not G.is_mixed(t):
        t[0][0] = 1 - t[0][0]
    return t


# valid names (NamesOK: none starts with "not not ") whose remainder after an optional 'not ' starts with one of the
# characters n, o, t, blank -- a prefix toggle implemented with a character-set strip goes wrong exactly on these --
# mixed with the plain / singly negated forms
TRICKY = ['tall', 'not tall', 'old', 'not old', 'note', 'not note', ' x', 'not  x', 'n', 'not n', 'to', 'not to',
          'a', 'not b', 'not', 'nota', 'not on', 'o n']


# class H6: near misses of the special-cased prefix 'not ' -- other capitalisation, other separators, the bare pattern,
# the pattern without its blank, doubled patterns, the pattern not at the start.  All are VALID names (none starts with
# 'not not '); what ~K / the monotone lattice must do with them comes from the Lean model of the toggle (exact prefix
# only: theorems toggle_exact_prefix / toggle_near_miss / complement_names_exact_prefix).
NEAR = ['Not x', 'not_x', 'NOT x', 'not-x', 'nOt x', 'not\tx', 'notx', 'not.x', ' not x', 'not ', '', 'no', 'not not',
        'Not not x', 'notnot x', 'not Not x', 'not not_x', 'not  not x', 'x', 'not x', 'Not', 'NOT ', 'not_', 'not_not x',
        'x not ', 'not\nx', 'not\u00a0x', 'Not_x', 'not NOT x', 'not not-x']
POOL = list(dict.fromkeys(TRICKY + NEAR))
NEARSET = set(NEAR) - {'x', 'not x', 'not'}
assert all(not x.startswith('not not ') for x in POOL)


def _tricky(k, off):
    assert k <= len(POOL)
    return [POOL[(off + j) % len(POOL)] for j in range(k)]


def _pool_names(k, off, tag):
    # k pairwise distinct valid names: a window of the pool, continued by generated names for large k
    head = _tricky(min(k, 6), off)
    return head + ['%s%d' % (tag, i) for i in range(len(head), k)]


def _names(kind, n, m, rng=None, off=0):
    objs, attrs = OBJ[:n], ATT[:m]
    if kind == 'not':          # valid: some names carry one leading 'not '
        attrs = [('not ' + a) if j % 2 == 0 else a for j, a in enumerate(attrs)]
        objs = [('not ' + g) if i % 2 == 1 else g for i, g in enumerate(objs)]
    elif kind == 'tricky':     # valid: see TRICKY
        attrs = _tricky(m, off)
        objs = _tricky(n, off + 7)
    elif kind == 'bad':        # malformed: the excluded point of the toggle
        attrs = list(attrs)
        j = 0 if rng is None else rng.randrange(m)
        attrs[j] = 'not not ' + attrs[j]
        if m > 1:
            attrs[(j + 1) % m] = 'not ' + attrs[(j + 1) % m]
    return objs, attrs


def _ctx_case(rows, be, kind, stream, sels=None, rng=None, off=0):
    n, m = len(rows), len(rows[0])
    objs, attrs = _names(kind, n, m, rng, off)
    if sels is None:
        so, sa = list(G.ordered_sublists(range(n))), list(G.ordered_sublists(range(m)))
    else:
        so, sa = sels
    return dict(stream=stream, k='ctx', be=be, rows=rows, objs=objs, attrs=attrs, so=so, sa=sa)


def _history_cases(rng, tier):
    # multi-step histories on one context object: use it, rename it through the setters, use it again
    tables = list(G.tables_upto(2, 2)) + [[[1, 0, 1], [1, 1, 0]], [[1, 0], [0, 1], [1, 1]], [[1, 1, 0], [0, 1, 1], [1, 0, 1]]]
    for _ in range(6 if tier == 'quick' else 40):
        tables.append(G.random_table(rng, 4, 4))
    for ti, rows in enumerate(tables):
        n, m = len(rows), len(rows[0])
        for be in BACKENDS:
            for pi_, pre in enumerate((['T'], ['CbO'], ['default'], ['not'], ['T', 'CbO'], ['mutT'], ['mutT', 'not'])):
                if (ti + pi_) % 2 == 0:
                    objs2 = ['r%d' % i for i in range(n)]
                    attrs2 = ['z%d' % j for j in range(m)]
                else:   # renamed to names on which the 'not ' toggle is delicate
                    objs2, attrs2 = _names('tricky', n, m, off=ti + 3 * pi_)
                yield dict(stream='history', k='ctx', be=be, rows=rows, objs0=OBJ[:n], attrs0=ATT[:m], pre=pre,
                           objs=objs2, attrs=attrs2, so=[[], list(range(n))[:1]], sa=[[], list(range(m))[:1]])
                # permuting the existing names is a renaming too
                yield dict(stream='history', k='ctx', be=be, rows=rows, objs0=OBJ[:n], attrs0=ATT[:m], pre=pre,
                           objs=OBJ[:n][::-1], attrs=ATT[:m][::-1], so=[list(range(n))], sa=[list(range(m))])
            # the DERIVED object is renamed / overwritten and K itself is left alone (no setter of K is called)
            for pre in (['mutT'], ['mutT', 'not'], ['mutnot'], ['mutget'], ['T', 'mutT', 'mutnot', 'mutget']):
                yield dict(stream='history', k='ctx', be=be, rows=rows, objs0=OBJ[:n], attrs0=ATT[:m], pre=pre, norename=True,
                           objs=OBJ[:n], attrs=ATT[:m], so=[[], list(range(n))[:1]], sa=[[], list(range(m))[:1]])


def _big_cases(rng, tier, boost):
    reps = 1 if tier == 'quick' and not boost else 4
    for rep in range(reps):
        for (n, m) in BIG_CTX:
            rows = _dense_table(rng, n, m)
            pi, sg = list(range(n)), list(range(m))
            rng.shuffle(pi)
            rng.shuffle(sg)
            sels = ([G.random_sel(rng, n) for _ in range(4)] + [[], list(range(n)), [n - 1]],
                    [G.random_sel(rng, m) for _ in range(4)] + [[], list(range(m)), [m - 1]])
            kind = 'tricky' if max(n, m) <= 11 and rng.random() < 0.5 else 'not'
            objs, attrs = _names(kind, n, m, off=rng.randrange(len(POOL)))
            for be in BACKENDS:
                yield dict(stream='big', k='ctx', be=be, rows=rows, objs=objs, attrs=attrs, so=sels[0], sa=sels[1])
                yield dict(stream='big', k='conv', be=be, rows=rows, objs=objs, attrs=attrs, so=sels[0], sa=sels[1],
                           pi=pi, sigma=sg)
                if (n, m) in BIG_LAT:
                    for algo in ALGOS_X:
                        yield dict(stream='big', k='lat', be=be, rows=rows, algo=algo, objs=objs, attrs=attrs)
                    for algo in ALGOS:
                        yield dict(stream='big', k='perm', be=be, rows=rows, algo=algo, pi=pi, sigma=sg, objs=objs, attrs=attrs)
    # the conversions on small tables as well (cheap)
    for rows in ([[1, 0, 1], [1, 1, 0]], [[1, 0], [0, 1], [1, 1]], [[1]], [[0, 1, 1, 0]], G.random_table(rng, 5, 5)):
        n, m = len(rows), len(rows[0])
        pi, sg = list(range(n))[::-1], list(range(m))[1:] + [0]
        for be in BACKENDS:
            yield dict(stream='big', k='conv', be=be, rows=rows, objs=OBJ[:n], attrs=_names('tricky', n, m, off=n + m)[1],
                       so=[[], [0]], sa=[[], [0]], pi=pi, sigma=sg)


# how the lattice under test is obtained (all but 'default' leave the order caches lazy or fill them differently)
LPATHS = ('default', 'CbO', 'Lindig+ext', 'Lindig+int', 'list', 'json', 'TT', 'TofKT')
QUERIES = ('parents', 'children', 'ancestors', 'descendants', 'trace_up', 'trace_down', 'leq')


def _lhist_cases(rng, tier, boost):
    tables = [[[1, 0, 1], [1, 1, 0], [0, 1, 1]], [[1, 0, 0], [1, 1, 0], [1, 1, 1]], [[1, 0], [0, 1], [1, 1]],
              [[1, 1, 0, 0], [0, 1, 1, 0], [0, 0, 1, 1], [1, 0, 0, 1]]]
    for _ in range(4 if tier == 'quick' and not boost else 30):
        n, m = rng.randint(3, 6), rng.randint(3, 6)
        tables.append(_dense_table(rng, n, m))
    tables.append(_dense_table(rng, 9, 8))
    tables.append(_gated_table(rng, 65, 3))      # H8: an object with index 64 that distinguishes two concepts
    for ti, rows in enumerate(tables):
        n, m = len(rows), len(rows[0])
        be = BACKENDS[ti % 3]
        objs, attrs = OBJ[:n], _names('not', n, m)[1]
        base = dict(stream='lhist', k='lhist', be=be, rows=rows, objs=objs, attrs=attrs)
        for path in LPATHS:
            # one partial query of each kind, at a few positions (the single-query histories are the ones a
            # "hand over what is cached" shortcut gets wrong)
            for q in QUERIES:
                for pos in ((1, 2, rng.randrange(64)) if n <= 12 else (rng.randrange(64),)):
                    yield dict(base, path=path, ops=[[q, pos, rng.randrange(64)]], order=rng.choice(('cp', 'pc')))
            # net-zero and genuine mutations, dictionary reads, hostile mutation of returned dictionaries
            # H5: L.T is taken and KEPT, then L or the kept lattice is mutated: each answers for its own elements
            for ops in ([['keepT', 0, 0], ['readd', 1, 0]], [['keepT', 0, 0], ['remove', 1, 0]], [['keepT', 0, 0], ['mutkept', 1, 0]],
                        [['keepT', 0, 0], ['mutkept', 2, 1], ['T', 0, 0], ['remove', 0, 0]],
                        [['remove', 2, 0], ['keepT', 0, 0], ['mutkept', 0, 0], ['remove', 1, 0], ['mutate_dicts', 0, 0]]):
                yield dict(base, path=path, ops=ops, order=rng.choice(('cp', 'pc')))
            for ops in ([['readd', 1, 1]], [['readd', 2, 0]], [['remove', 1, 0]], [['remove', 2, 0], ['parents', 1, 0]],
                        [['children_dict', 0, 0], ['readd', 3, 1]], [['parents_dict', 0, 0]], [['mutate_dicts', 0, 0]],
                        [['T', 0, 0], ['readd', 1, 0]], [['T', 0, 0], ['parents', 2, 0], ['remove', 3, 0]]):
                yield dict(base, path=path, ops=ops, order=rng.choice(('cp', 'pc')))
            for _ in range(3 if tier == 'quick' and not boost else 10):
                ops = [[rng.choice(QUERIES + ('readd', 'remove', 'children_dict', 'T', 'mutate_dicts', 'keepT', 'mutkept')),
                        rng.randrange(64), rng.randrange(64)] for _ in range(rng.randint(2, 5))]
                yield dict(base, path=path, ops=ops, order=rng.choice(('cp', 'pc')))


# ------------------------------------------------------------------------------------------------
# class H6: directed near-miss names
# ------------------------------------------------------------------------------------------------

def _near_cases():
    # every window of three consecutive pool names as the attribute names (and, shifted, as the object names) of two
    # fixed tables: ~K / ~~K / K.T (ctx) on every backend, the monotone lattice and the transposed lattice (lat)
    t3 = [[1, 0, 1], [1, 1, 0], [0, 1, 1]]
    t2 = [[1, 0, 0], [0, 1, 1]]
    for off in range(len(POOL)):
        rows = t3 if off % 2 == 0 else t2
        n, m = len(rows), len(rows[0])
        attrs = _tricky(m, off)
        objs = _tricky(n, off + 11)
        for be in BACKENDS:
            yield dict(stream='near', k='ctx', be=be, rows=rows, objs=objs, attrs=attrs,
                       so=[[], [0], list(range(n))], sa=[[], [m - 1], list(range(m))])
        for ai, algo in enumerate(ALGOS_X):
            yield dict(stream='near', k='lat', be=BACKENDS[(off + ai) % 3], rows=rows, algo=algo, objs=objs, attrs=attrs)


# ------------------------------------------------------------------------------------------------
# class H5 (+ H4): a store of context objects.  K = slot 0; a step derives a new object from a slot (K.T, ~K,
# K[rows, cols] in its argument forms), calls a public setter of a slot, creates an unrelated object, or observes
# a slot (its content, X.T, X.T.T, ~X, ~~X, X[..], the named derivation operators of X and of X.T).  The expected
# observation is the Lean model's (Fca.Model.DualityStore), i.e. every object answers for its OWN current content.
# ------------------------------------------------------------------------------------------------

def _adler(objs, attrs, rows):
    import zlib
    return zlib.adler32(G.fixed_hash_text(objs, attrs, rows).encode())


def _collide_names(names):
    # a different name list with the same adler32 inside any longer text (H4); None if no name has a partner
    out, changed = [], False
    for x in names:
        y = None if changed else G.adler_collide_name(x)
        if y is not None and y not in names and not y.startswith('not not '):
            out.append(y)
            changed = True
        else:
            out.append(x)
    return out if changed and len(set(out)) == len(out) else None


class _Sim:
    """book-keeping of the generator only (which inputs to choose): shape of every slot and, where it is plain to
    see, its names and table; the ORACLE is the Lean model, not this"""

    def __init__(self, rows, objs, attrs):
        self.slots = [dict(rows=[list(r) for r in rows], objs=list(objs), attrs=list(attrs))]

    def shape(self, i):
        r = self.slots[i]['rows']
        return len(r), len(r[0])

    def derive(self, src, kind, pi=None, sg=None):
        X = self.slots[src]
        r = X['rows']
        if kind == 'T':
            D = dict(rows=[list(c) for c in zip(*r)], objs=X['attrs'], attrs=X['objs'])
        elif kind == 'not':
            D = dict(rows=[[1 - v for v in row] for row in r], objs=X['objs'], attrs=None)
        else:
            D = dict(rows=[[r[i][j] for j in sg] for i in pi],
                     objs=None if X['objs'] is None else [X['objs'][i] for i in pi],
                     attrs=None if X['attrs'] is None else [X['attrs'][j] for j in sg])
        self.slots.append(D)
        return len(self.slots) - 1


def _sels(n, m):
    return [[], [0], [n - 1], list(range(n))[:2]], [[], [0], [m - 1], list(range(m))[-2:]]


def _obs(sim, i):
    n, m = sim.shape(i)
    so, sa = _sels(n, m)
    return dict(o='obs', i=i, so=so, sa=sa)


def _derive_step(sim, src, d, variant=0):
    n, m = sim.shape(src)
    if d in ('T', 'not'):
        sim.derive(src, d)
        return dict(o=d, src=src)
    # the forms of K[rows, cols]: two lists / rows only / rows and a full slice / a full slice and columns; the
    # selections are full-range permutations that are not sorted (H7) -- reversed or rotated
    pi = list(range(n))[::-1] if variant % 2 == 0 else list(range(1, n)) + [0]
    sg = list(range(1, m)) + [0] if variant % 2 == 0 else list(range(m))[::-1]
    form = {'get': 'll', 'getid': 'll', 'getr': 'l', 'getr:': 'l:', 'getc': ':l'}[d]
    if form in ('l', 'l:') or d == 'getid':
        sg = list(range(m))
    if form == ':l' or d == 'getid':    # getid: the identity selection -- still a NEW object
        pi = list(range(n))
    sim.derive(src, 'get', pi, sg)
    return dict(o='get', src=src, pi=pi, sigma=sg, form=form)


def _mut_steps(sim, i, mut, off, rng):
    """setter calls on slot i; None when the kind is not available for this slot"""
    X = sim.slots[i]
    n, m = sim.shape(i)
    rows = X['rows']
    if mut in ('objs', 'attrs', 'both'):
        st = []
        if mut in ('objs', 'both'):
            v = _pool_names(n, off, 'r')
            X['objs'] = v
            st.append(dict(o='objs', i=i, v=v))
        if mut in ('attrs', 'both'):
            v = _pool_names(m, off + 17, 'z')
            X['attrs'] = v
            st.append(dict(o='attrs', i=i, v=v))
        return st
    if mut == 'swapnames':      # permuting the names an object already has is a renaming too
        if X['objs'] is None or X['attrs'] is None or (n < 2 and m < 2):
            return None
        X['objs'], X['attrs'] = X['objs'][::-1], X['attrs'][1:] + X['attrs'][:1]
        return [dict(o='objs', i=i, v=X['objs']), dict(o='attrs', i=i, v=X['attrs'])]
    if mut == 'data':
        new = [[1 - v for v in r] for r in rows] if off % 2 else [list(r) for r in rows[::-1]]
        if new == rows:
            new = [[1 - v for v in r] for r in rows]
        X['rows'] = new
        return [dict(o='data', i=i, rows=new, w=m)]
    if mut == 'objs~':          # H4: a renaming that keeps zlib.adler32 of everything hash_fixed reads
        if X['objs'] is None or X['attrs'] is None:
            return None
        for which in ('objs', 'attrs'):
            v = _collide_names(X[which])
            if v is not None:
                before = _adler(X['objs'], X['attrs'], rows)
                old = X[which]
                X[which] = v
                assert v != old and _adler(X['objs'], X['attrs'], rows) == before, 'not a colliding renaming'
                return [dict(o=which, i=i, v=v)]
        return None
    if mut == 'data~':          # H4: another table of the same shape with the same hash_fixed
        if X['objs'] is None or X['attrs'] is None:
            return None
        new = G.adler_collide_rows(X['objs'], X['attrs'], rows)
        if new is None:
            return None
        assert new != rows and _adler(X['objs'], X['attrs'], new) == _adler(X['objs'], X['attrs'], rows)
        X['rows'] = new
        return [dict(o='data', i=i, rows=new, w=m)]
    raise ValueError(mut)


DERIVES = ('T', 'not', 'get', 'getid', 'getr', 'getr:', 'getc')
MUTS = ('objs', 'attrs', 'both', 'swapnames', 'data', 'objs~', 'data~')
# names with an adler32 partner ('obj0' <-> 'ndi0', 'att0' <-> 'bsu0' ...)
HOBJ = ['obj%d' % i for i in range(132)]
HATT = ['att%d' % i for i in range(132)]


def _gated_table(rng, n, m):
    # H8: the LAST object (index >= 64 for the big shapes) carries a row no other object has, and it is the only
    # object having all attributes of that row -- it alone distinguishes two concepts
    tall = n >= m
    k, w = (n, m) if tall else (m, n)
    special = [1] * w
    special[rng.randrange(w)] = 0 if w > 1 else 1
    pats = [p for p in itertools.product((0, 1), repeat=w) if list(p) != special and not all(p)] or [tuple([0] * w)]
    t = [list(rng.choice(pats)) for _ in range(k - 1)] + [special]
    return t if tall else [list(c) for c in zip(*t)]


def _dep_case(rows, be, objs, attrs, steps, tag):
    return dict(stream='dep', k='dep', be=be, rows=rows, objs=objs, attrs=attrs, steps=steps, tag=tag)


def _dep_cases(rng, tier, boost):
    small = [[[1, 0, 1], [1, 1, 0]], [[1, 0], [0, 1], [1, 1]], [[1, 1, 0], [0, 1, 1], [1, 0, 1]],
             [[1, 0, 0, 1], [0, 1, 1, 0], [1, 1, 0, 0], [0, 1, 0, 1]], G.random_table(rng, 4, 4, 2, 2)]
    big = [_gated_table(rng, 65, 2), _gated_table(rng, 2, 65), _gated_table(rng, 129, 1), _gated_table(rng, 3, 64)]
    k = 0
    for ti, rows in enumerate(small + big):
        n, m = len(rows), len(rows[0])
        isbig = ti >= len(small)
        for bi, be in enumerate(BACKENDS):
            for di, d in enumerate(DERIVES):
                for side in (0, 1):
                    for mi, mut in enumerate(MUTS):
                        k += 1
                        if isbig and (k % 5 != 0 or mut == 'data~'):
                            continue
                        sim = _Sim(rows, HOBJ[:n], HATT[:m])
                        steps = []
                        if k % 2 == 0:        # the source has been asked for everything before (memos may exist)
                            steps.append(_obs(sim, 0))
                        steps.append(_derive_step(sim, 0, d, k))
                        if k % 3 == 0:
                            steps += [_obs(sim, 0), _obs(sim, 1)]
                        ms = _mut_steps(sim, side, mut, k, rng)
                        if ms is None:
                            continue
                        steps += ms
                        # query BOTH (the one that was not touched first), then ask for the derived object AGAIN
                        steps += [_obs(sim, 1 - side), _obs(sim, side)]
                        steps.append(_derive_step(sim, 0, d, k))
                        steps.append(_obs(sim, 2))
                        if d == 'T':          # ... and go back from the derived object
                            steps.append(_derive_step(sim, 1, 'T'))
                            steps.append(_obs(sim, 3))
                        yield _dep_case(rows, be, HOBJ[:n], HATT[:m], steps, f'{d}/{"src" if side == 0 else "der"}/{mut}')
            # H4b: an UNRELATED object whose hash_fixed collides with K's, used next to K
            twin = G.adler_collide_rows(HOBJ[:n], HATT[:m], rows) if not isbig else None
            if twin is not None:
                assert twin != rows and _adler(HOBJ[:n], HATT[:m], twin) == _adler(HOBJ[:n], HATT[:m], rows)
                sim = _Sim(rows, HOBJ[:n], HATT[:m])
                sim.slots.append(dict(rows=twin, objs=HOBJ[:n], attrs=HATT[:m]))
                steps = [_obs(sim, 0), dict(o='fresh', rows=twin, w=m, objs=HOBJ[:n], attrs=HATT[:m]), _obs(sim, 1), _obs(sim, 0)]
                yield _dep_case(rows, be, HOBJ[:n], HATT[:m], steps, 'twin')
    # longer random histories over up to five objects
    for it in range(40 if tier == 'quick' and not boost else 400):
        rows = G.random_table(rng, 4, 4, 2, 2)
        n, m = len(rows), len(rows[0])
        be = BACKENDS[it % 3]
        sim = _Sim(rows, HOBJ[:n], HATT[:m])
        steps = []
        for _ in range(rng.randint(4, 9)):
            r = rng.random()
            i = rng.randrange(len(sim.slots))
            if r < 0.35 and len(sim.slots) < 5:
                steps.append(_derive_step(sim, i, rng.choice(DERIVES), rng.randrange(4)))
            elif r < 0.7:
                ms = _mut_steps(sim, i, rng.choice(MUTS), rng.randrange(len(POOL)), rng)
                steps += ms or []
            else:
                steps.append(_obs(sim, i))
        steps += [_obs(sim, i) for i in range(len(sim.slots))]
        yield _dep_case(rows, be, HOBJ[:n], HATT[:m], steps, 'random')


# ------------------------------------------------------------------------------------------------
# class H5 for lattices: the lattices derived from K (from_context(K), its .T, from_context(K.T), from_context(~K),
# the monotone lattice) are kept, K is changed through its setters (optionally after its derived contexts K.T, ~K,
# K[..] have been renamed / overwritten), then the KEPT lattices are read again (they must still be the lattices of
# the earlier content) and all of them are built AGAIN (they must be the lattices of the current content)
# ------------------------------------------------------------------------------------------------

def _dlat_cases(rng, tier, boost):
    tables = [[[1, 0, 1], [1, 1, 0]], [[1, 0], [0, 1], [1, 1]], [[1, 1, 0], [0, 1, 1], [1, 0, 1]],
              [[1, 0, 0, 1], [0, 1, 1, 0], [1, 1, 0, 0], [0, 1, 0, 1]], G.random_table(rng, 5, 4, 3, 3),
              _gated_table(rng, 65, 3), _gated_table(rng, 3, 65)]
    k = 0
    for ti, rows in enumerate(tables):
        n, m = len(rows), len(rows[0])
        for be in BACKENDS:
            for mut in ('objs', 'attrs', 'both', 'swapnames', 'data', 'both+data', 'objs~', 'data~', 'none'):
                for scribble in (0, 1):
                    k += 1
                    if mut == 'none' and not scribble:
                        continue
                    if n > 8 or m > 8:
                        if k % 4 != 0:
                            continue
                    sim = _Sim(rows, HOBJ[:n], HATT[:m])
                    steps = []
                    for part in mut.split('+'):
                        if part != 'none':
                            ms = _mut_steps(sim, 0, part, k, rng)
                            if ms is None:
                                steps = None
                                break
                            steps += ms
                    if steps is None:
                        continue
                    X = sim.slots[0]
                    yield dict(stream='dlat', k='dlat', be=be, algo=ALGOS_X[k % 4], rows0=rows, objs0=HOBJ[:n], attrs0=HATT[:m],
                               muts=steps, scribble=scribble, rows=X['rows'], objs=X['objs'], attrs=X['attrs'], tag=mut)


# ------------------------------------------------------------------------------------------------
# class H7: the argument forms of K[rows, cols] with full-range selections that are not sorted (strict: the result is
# pinned by the property -- a relabelling), and with repetitions / one more / one fewer index than the dimension
# (model-vs-implementation; these are not permutations)
# ------------------------------------------------------------------------------------------------

def _form_cases(rng, tier):
    tables = [[[1, 0, 1], [1, 1, 0]], [[1, 0], [0, 1], [1, 1]], [[1, 1, 0], [0, 1, 1], [1, 0, 1]], G.random_table(rng, 5, 5, 4, 4),
              _gated_table(rng, 65, 2), _gated_table(rng, 2, 65), _gated_table(rng, 129, 2), _gated_table(rng, 2, 128)]
    for rows in tables:
        n, m = len(rows), len(rows[0])
        perms_r = [list(range(n))[::-1], list(range(1, n)) + [0]]
        perms_c = [list(range(m))[::-1], list(range(1, m)) + [0]]
        p = list(range(n))
        q = list(range(m))
        rng.shuffle(p)
        rng.shuffle(q)
        perms_r.append(p)
        perms_c.append(q)
        objs, attrs = _pool_names(n, n + m, 'g'), _pool_names(m, n + m + 9, 'q')
        for be in BACKENDS:
            for pi, sg in zip(perms_r, perms_c):
                for form in ('ll', 'l', 'l:', ':l'):
                    yield dict(stream='forms', k='get', be=be, rows=rows, objs=objs, attrs=attrs, form=form, strict=True,
                               pi=pi if form != ':l' else list(range(n)), sigma=sg if form in ('ll', ':l') else list(range(m)))
            if n > 8 or m > 8:
                continue
            # length == dimension with repetitions, one longer, one shorter (not permutations: model agreement only)
            reps_r = [[n - 1] * n, ([0, 0] + list(range(1, n)))[:n], list(range(n)) + [0], list(range(n))[1:]]
            reps_c = [[m - 1] * m, ([0, 0] + list(range(1, m)))[:m], list(range(m)) + [m - 1], list(range(m))[:-1]]
            for pi, sg in zip(reps_r, reps_c):
                for form in ('ll', 'l', ':l'):
                    if (form != ':l' and not pi) or (form != 'l' and not sg):
                        continue
                    yield dict(stream='forms', k='get', be=be, rows=rows, objs=OBJ[:n], attrs=ATT[:m], form=form, strict=False,
                               pi=pi if form != ':l' else list(range(n)), sigma=sg if form in ('ll', ':l') else list(range(m)))


def _h8_cases(rng, tier, boost):
    for (n, m) in H8_CTX:
        rows = _gated_table(rng, n, m)
        pi, sg = list(range(n)), list(range(m))
        rng.shuffle(pi)
        rng.shuffle(sg)
        sels = ([G.random_sel(rng, n) for _ in range(3)] + [[], list(range(n)), [n - 1]],
                [G.random_sel(rng, m) for _ in range(3)] + [[], list(range(m)), [m - 1]])
        objs, attrs = _pool_names(n, n, 'g'), _pool_names(m, m + 3, 'q')
        for be in BACKENDS:
            yield dict(stream='h8', k='ctx', be=be, rows=rows, objs=objs, attrs=attrs, so=sels[0], sa=sels[1])
            yield dict(stream='h8', k='conv', be=be, rows=rows, objs=objs, attrs=attrs, so=sels[0], sa=sels[1], pi=pi, sigma=sg)
            if (n, m) in H8_LAT:
                for algo in ALGOS_X:
                    yield dict(stream='h8', k='lat', be=be, rows=rows, algo=algo, objs=objs, attrs=attrs)
                for algo in ALGOS:
                    yield dict(stream='h8', k='perm', be=be, rows=rows, algo=algo, pi=pi, sigma=sg, objs=objs, attrs=attrs)


def gen(tier, seed, boost=False):
    rng = random.Random(seed * 1000003 + 606)
    yield from _history_cases(random.Random(seed * 7919 + 66), tier)
    # ---- classes H5 / H4 (derived-object independence, hash-preserving edits), H6 (near-miss names), H7 (argument
    #      forms of K[..]), H8 (64/65, 128/129) -- small directed streams, first because they are cheap ----------
    yield from _near_cases()
    yield from _dep_cases(random.Random(seed * 611953 + 65), tier, boost)
    yield from _dlat_cases(random.Random(seed * 350377 + 65), tier, boost)
    yield from _form_cases(random.Random(seed * 27644437 + 67), tier)
    yield from _h8_cases(random.Random(seed * 433494437 + 68), tier, boost)
    # ---- corpus (hand-picked structured tables and minimised past failures) ---------------------------
    cdir = os.path.join(os.path.dirname(os.path.dirname(os.path.dirname(os.path.abspath(__file__)))), 'corpus', 'C06')
    if os.path.isdir(cdir):
        for f in sorted(os.listdir(cdir)):
            if f.endswith('.json'):
                data = json.load(open(os.path.join(cdir, f)))
                for c in (data if isinstance(data, list) else [data.get('case', data)]):
                    yield dict(c, stream='corpus')
    # ---- exhaustive small scope ----------------------------------------------------------------
    for ti, rows in enumerate(G.tables_upto(3, 3)):
        n, m = len(rows), len(rows[0])
        for bi, be in enumerate(BACKENDS):
            yield _ctx_case(rows, be, 'plain', 'exhaustive')
            yield _ctx_case(rows, be, 'not', 'exhaustive')
            yield _ctx_case(rows, be, 'tricky', 'exhaustive', off=ti + 5 * bi)
            for ai, algo in enumerate(ALGOS):
                # the names rotate through the TRICKY pool (it contains the plain and singly negated forms too)
                tobjs, tattrs = _names('tricky', n, m, off=ti + 5 * bi + 2 * ai)
                yield dict(stream='exhaustive', k='lat', be=be, rows=rows, algo=algo, objs=OBJ[:n], attrs=_names('not', n, m)[1])
                yield dict(stream='exhaustive', k='lat', be=be, rows=rows, algo=algo, objs=tobjs, attrs=tattrs)
                for pi in itertools.permutations(range(n)):
                    for sg in itertools.permutations(range(m)):
                        yield dict(stream='exhaustive', k='perm', be=be, rows=rows, algo=algo, pi=list(pi), sigma=list(sg),
                                   objs=OBJ[:n], attrs=tattrs)
    # ---- shape extremes (>= 64 cells, two-digit indexes), every backend, backend conversions of derived contexts,
    #      lattices of K and K.T by every algorithm variant ---------------------------------------------------
    yield from _big_cases(random.Random(seed * 104729 + 6), tier, boost)
    # ---- lattices built by non-default paths, partially queried / mutated, then transposed ----------------
    yield from _lhist_cases(random.Random(seed * 15485863 + 6), tier, boost)
    # ---- seeded random larger cases ------------------------------------------------------------
    big = 6 if tier == 'quick' else 7
    nrand = 60 if tier == 'quick' else 700
    if boost:
        nrand *= 3
        big = 7
    for it in range(nrand):
        rows = G.random_table(rng, big, big)
        n, m = len(rows), len(rows[0])
        sels = ([G.random_sel(rng, n) for _ in range(6)] + [[], list(range(n))],
                [G.random_sel(rng, m) for _ in range(6)] + [[], list(range(m))])
        perms = []
        for _ in range(2):
            pi, sg = list(range(n)), list(range(m))
            rng.shuffle(pi)
            rng.shuffle(sg)
            perms.append((pi, sg))
        for be in BACKENDS:
            yield _ctx_case(rows, be, rng.choice(('plain', 'not', 'tricky', 'tricky')), 'random', sels, off=rng.randrange(len(POOL)))
            for algo in (None, 'CbO', rng.choice(('Lindig+ext', 'Lindig+int'))):
                tobjs, tattrs = _names(rng.choice(('not', 'tricky', 'tricky')), n, m, off=rng.randrange(len(POOL)))
                yield dict(stream='random', k='lat', be=be, rows=rows, algo=algo, objs=tobjs, attrs=tattrs)
                for pi, sg in perms:
                    yield dict(stream='random', k='perm', be=be, rows=rows, algo=algo, pi=pi, sigma=sg,
                               objs=tobjs, attrs=tattrs)
    # ---- malformed stream: the excluded "not not " names -------------------------------------------
    nmal = 30 if tier == 'quick' else 300
    for it in range(nmal):
        rows = G.random_table(rng, 4, 4)
        n, m = len(rows), len(rows[0])
        be = BACKENDS[it % 3]
        yield _ctx_case(rows, be, 'bad', 'malformed', ([[]], [[]]), rng)
        objs, attrs = _names('bad', n, m, rng)
        yield dict(stream='malformed', k='lat', be=be, rows=rows, algo=ALGOS[it % 2], objs=objs, attrs=attrs)
        # K[rows, cols] with selections that are not permutations: duplicates, sub-selections, empty, out of range
        for be2 in BACKENDS:
            pi = [rng.randrange(n + (rng.random() < 0.2)) for _ in range(rng.randint(0, n + 1))]
            sg = [rng.randrange(m + (rng.random() < 0.2)) for _ in range(rng.randint(0, m + 1))]
            yield dict(stream='malformed', k='get', be=be2, rows=rows, pi=pi, sigma=sg, objs=OBJ[:n], attrs=ATT[:m])


# ------------------------------------------------------------------------------------------------
# implementation side
# ------------------------------------------------------------------------------------------------

def _mk(rows, be, objs, attrs):
    from fcapy.context import FormalContext
    return FormalContext(data=[[bool(v) for v in r] for r in rows], object_names=list(objs),
                         attribute_names=list(attrs), backend=be)


def _jctx(K):
    return dict(rows=[[int(bool(v)) for v in r] for r in K.data.to_list()], objs=[str(x) for x in K.object_names],
                attrs=[str(x) for x in K.attribute_names], be=SHORT[K.backend], h=int(K.n_objects), w=int(K.n_attributes))


def _jlat(L):
    cs = [dict(ei=ints(c.extent_i), e=[str(x) for x in c.extent], ii=ints(c.intent_i), i=[str(x) for x in c.intent],
               h=None if c.context_hash is None else int(c.context_hash), m=bool(c.is_monotone)) for c in L]
    ch = L.children_dict
    return dict(concepts=cs, children=[sorted(ints(ch[i])) for i in range(len(cs))], mono=bool(L.is_monotone))


def _try(f):
    try:
        return f()
    except Exception as e:
        return {'err': exc_name(e), 'msg': str(e)[:200]}


@functools.lru_cache(maxsize=64)
def _lattice_of(rows_key, be, objs, attrs, algo):
    K = _mk(rows_key, be, objs, attrs)
    return K, _from_context(K, algo)


def _rel(d, k):
    return [sorted(ints(d[i])) for i in range(k)]


def _jlat_full(L, order='cp'):
    # elements + the four relation dictionaries; `order` = which of children / parents is read first
    k = len(L)
    if order == 'pc':
        par = _rel(L.parents_dict, k)
    j = _jlat(L)
    if order != 'pc':
        par = _rel(L.parents_dict, k)
    return dict(j, parents=par, desc=_rel(L.descendants_dict, k), anc=_rel(L.ancestors_dict, k))


def _conv(D, b2, form):
    from fcapy.context import FormalContext
    data = D.data if form == 'table' else D.data.data
    return FormalContext(data, object_names=list(D.object_names), attribute_names=list(D.attribute_names), backend=b2)


def _impl_conv(c):
    K = _mk(c['rows'], c['be'], c['objs'], c['attrs'])
    out = {}
    srcs = {'T': lambda: K.T, 'not': lambda: ~K, 'get': lambda: K[list(c['pi']), list(c['sigma'])],
            'TT': lambda: K.T.T, 'self': lambda: K}
    for src, f in srcs.items():
        D = _try(f)
        if isinstance(D, dict):
            out[src] = D
            continue
        out[src] = _try(lambda: _jctx(D))
        for b2 in BACKENDS:
            for form in ('raw', 'table'):
                key_ = f'{src}>{SHORT[b2]}:{form}'

                def one():
                    K2 = _conv(D, b2, form)
                    r = dict(ctx=_jctx(K2))
                    if src == 'T':
                        r['t_ext'] = [ints(K2.extension_i(list(A))) for A in c['so']]
                        r['t_int'] = [ints(K2.intention_i(list(B))) for B in c['sa']]
                        r['back'] = _jctx(K2.T)
                        r['back_eq'] = bool(K2.T == K)
                    return r
                out[key_] = _try(one)
    return out


def _build_lattice(K, path):
    from fcapy.lattice import ConceptLattice
    if path == 'default':
        return _from_context(K, None)
    if path in ('CbO', 'Lindig+ext', 'Lindig+int'):
        return _from_context(K, path)
    L0 = _from_context(K, 'CbO')
    if path == 'list':      # a plain, unsorted list of concepts
        cs = list(L0)
        cs = cs[1::2] + cs[0::2][::-1]
        return ConceptLattice(cs)
    if path == 'json':
        if len(L0) < 3:
            return L0
        return ConceptLattice.read_json(json_data=L0.write_json(list(K.object_names), list(K.attribute_names)))
    if path == 'TT':
        return L0.T.T
    if path == 'TofKT':     # a lattice of K obtained by transposing the lattice of K.T
        return _from_context(K.T, 'CbO').T
    raise ValueError(path)


def _impl_lhist(c):
    K = _mk(c['rows'], c['be'], c['objs'], c['attrs'])
    L = _try(lambda: _build_lattice(K, c['path']))
    if isinstance(L, dict):
        return {'build': L}
    removed, log = [], []
    kept = {'L': None, 'removed': []}
    for op, a, b in c['ops']:
        k = len(L)

        def inner():
            tb = {L.top, L.bottom}
            return [i for i in range(k) if i not in tb]

        def run():
            i, j = a % k, b % k
            if op in ('parents', 'children', 'ancestors', 'descendants'):
                getattr(L, op)(i)
            elif op == 'leq':
                L.leq_elements(i, j)
            elif op in ('trace_up', 'trace_down'):
                L.trace_element(L[i], 'up' if op == 'trace_up' else 'down')
            elif op in ('children_dict', 'parents_dict'):
                getattr(L, op)
            elif op == 'T':
                L.T
            elif op == 'keepT':
                # the transposed lattice is taken now and kept; what was removed from L so far is missing in it too
                kept['L'] = L.T
                kept['removed'] = [[p[1], p[0]] for p in removed]
            elif op == 'mutkept':
                LT0 = kept['L']
                if LT0 is None:
                    return 'skip'
                tb = {LT0.top, LT0.bottom}
                cand = [i for i in range(len(LT0)) if i not in tb]
                if b % 2:       # scribble into what the kept lattice hands out
                    LT0.children_dict.clear()
                    LT0.parents_dict[0] = frozenset({len(LT0) + 3})
                if not cand:
                    return 'skip'
                x = LT0[cand[a % len(cand)]]
                LT0.remove(x)
                kept['removed'].append([ints(x.extent_i), ints(x.intent_i)])
            elif op == 'mutate_dicts':
                d = L.parents_dict
                d.clear()
                d2 = L.children_dict
                d2[0] = frozenset({k + 7})
                d3 = L.descendants_dict
                d3.pop(0, None)
            elif op in ('readd', 'remove'):
                cand = inner()
                if not cand:
                    return 'skip'
                x = L[cand[a % len(cand)]]
                L.remove(x)
                if op == 'readd':
                    L.add(x, fill_up_cache=bool(b % 2))
                else:
                    removed.append([ints(x.extent_i), ints(x.intent_i)])
            return 'ok'
        r = _try(run)
        log.append(r if isinstance(r, str) else r)
    out = {'log': log, 'removed': removed}
    LT = _try(lambda: L.T)
    out['LT'] = LT if isinstance(LT, dict) else _try(lambda: _jlat_full(LT, c.get('order', 'cp')))
    out['L'] = _try(lambda: _jlat_full(L))
    if kept['L'] is not None:
        out['KT'] = _try(lambda: _jlat_full(kept['L'], c.get('order', 'cp')))
        out['kept_removed'] = kept['removed']
    return out


def _bools(rows):
    return [[bool(v) for v in r] for r in rows]


def _observe(X, so, sa):
    """everything one asks a context object in an observation (each item guarded on its own)"""
    n, m = int(X.n_objects), int(X.n_attributes)
    pi, sg = list(range(n))[::-1], list(range(1, m)) + list(range(m))[:1]
    on, an = list(X.object_names), list(X.attribute_names)
    o = {}
    o['ctx'] = _try(lambda: _jctx(X))
    o['T'] = _try(lambda: _jctx(X.T))
    o['TT'] = _try(lambda: _jctx(X.T.T))
    o['TT_eq'] = _try(lambda: bool(X.T.T == X))
    o['not'] = _try(lambda: _jctx(~X))
    o['notnot'] = _try(lambda: _jctx(~~X))
    o['notnot_eq'] = _try(lambda: bool((~~X) == X))
    o['get'] = _try(lambda: _jctx(X[pi, sg]))
    o['int'] = [_try(lambda: [str(x) for x in X.intention([on[i] for i in A])]) for A in so]
    o['ext'] = [_try(lambda: [str(x) for x in X.extension([an[j] for j in B])]) for B in sa]
    o['t_ext'] = [_try(lambda: [str(x) for x in X.T.extension([on[i] for i in A])]) for A in so]
    o['t_int'] = [_try(lambda: [str(x) for x in X.T.intention([an[j] for j in B])]) for B in sa]
    return o


def _getform(X, pi, sg, form):
    if form == 'l':
        return X[list(pi)]
    if form == 'l:':
        return X[list(pi), :]
    if form == ':l':
        return X[:, list(sg)]
    return X[list(pi), list(sg)]


def _impl_dep(c):
    slots = [_mk(c['rows'], c['be'], c['objs'], c['attrs'])]
    obs = []
    for si, st in enumerate(c['steps']):
        def run():
            o = st['o']
            if o == 'T':
                slots.append(slots[st['src']].T)
            elif o == 'not':
                slots.append(~slots[st['src']])
            elif o == 'get':
                slots.append(_getform(slots[st['src']], st['pi'], st['sigma'], st.get('form', 'll')))
            elif o == 'objs':
                slots[st['i']].object_names = list(st['v'])
            elif o == 'attrs':
                slots[st['i']].attribute_names = list(st['v'])
            elif o == 'data':
                slots[st['i']].data.data = _bools(st['rows'])
            elif o == 'fresh':
                slots.append(_mk(st['rows'], c['be'], st['objs'], st['attrs']))
            elif o == 'obs':
                obs.append(_observe(slots[st['i']], st['so'], st['sa']))
            return None
        r = _try(run)
        if isinstance(r, dict):
            return {'obs': obs, 'failed': dict(r, step=si, o=st['o'])}
    return {'obs': obs}


def _lat_battery(K, algo):
    out = {'hash': int(K.hash_fixed())}
    L = _try(lambda: _from_context(K, algo))
    out['L'] = L if isinstance(L, dict) else _jlat(L)
    out['LT'] = _try(lambda: _jlat(L.T))
    out['L2'] = _try(lambda: _jlat(_from_context(K.T, algo)))
    out['Lneg'] = _try(lambda: _jlat(_from_context(~K, algo)))
    out['LM'] = _try(lambda: _jlat(_from_context(K, algo, is_monotone=True)))
    return out


def _impl_dlat(c):
    algo = c['algo']
    K = _mk(c['rows0'], c['be'], c['objs0'], c['attrs0'])
    kept = {}

    def early():
        kept['hash'] = int(K.hash_fixed())
        kept['L'] = _from_context(K, algo)
        kept['LT'] = kept['L'].T
        kept['L2'] = _from_context(K.T, algo)
        kept['Lneg'] = _from_context(~K, algo)
        kept['LM'] = _from_context(K, algo, is_monotone=True)
    r = _try(early)
    if isinstance(r, dict):
        return {'early_failed': r}

    def scribble():
        # hostile but legal: the contexts DERIVED from K are renamed and overwritten through their own setters
        n, m = len(c['rows0']), len(c['rows0'][0])
        for D in (K.T, ~K, K[list(range(n))[::-1], list(range(m))]):
            D.object_names = ['not s%d' % i for i in range(len(D.object_names))]
            D.attribute_names = ['Not s%d' % i for i in range(len(D.attribute_names))]
            D.data.data = [[not bool(v) for v in row] for row in D.data.to_list()]
            D.T
            ~D
    if c.get('scribble'):
        r = _try(scribble)
        if isinstance(r, dict):
            return {'early_failed': r}

    def mutate():
        for st in c['muts']:
            if st['o'] == 'objs':
                K.object_names = list(st['v'])
            elif st['o'] == 'attrs':
                K.attribute_names = list(st['v'])
            else:
                K.data.data = _bools(st['rows'])
    r = _try(mutate)
    if isinstance(r, dict):
        return {'early_failed': r}
    out = {'final': _lat_battery(K, algo)}
    # the kept lattices, read only now
    e = {'hash': kept['hash']}
    for k_ in ('L', 'LT', 'L2', 'Lneg', 'LM'):
        e[k_] = _try(lambda: _jlat(kept[k_]))
    e['LT_again'] = _try(lambda: _jlat(kept['L'].T))
    out['early'] = e
    return out


def _eq(a, b):
    r = _try(lambda: bool(a == b))
    return r


def impl(c):
    from fcapy.lattice import ConceptLattice
    rows, be = c['rows'], c['be']
    if c['k'] == 'ctx':
        if c.get('pre'):
            # history stream: the context is used (transposed / mined) under its first names, then renamed through
            # the public setters; everything derived afterwards must reflect the current names
            K = _mk(rows, be, c['objs0'], c['attrs0'])
            for step in c['pre']:
                if step == 'T':
                    _try(lambda: K.T.T)
                elif step == 'mutT':
                    # hostile but legal: rename / complement the RETURNED transposed context; K must not notice
                    def mut():
                        KT = K.T
                        KT.object_names = ['zz%d' % i for i in range(len(KT.object_names))]
                        KT.attribute_names = ['yy%d' % i for i in range(len(KT.attribute_names))]
                        ~KT
                    _try(mut)
                elif step in ('mutnot', 'mutget'):
                    def mut2():
                        D = ~K if step == 'mutnot' else K[list(range(len(rows)))[::-1], list(range(len(rows[0])))]
                        D.object_names = ['zz%d' % i for i in range(len(D.object_names))]
                        D.attribute_names = ['not yy%d' % i for i in range(len(D.attribute_names))]
                        D.data.data = [[not bool(v) for v in r] for r in D.data.to_list()]
                        D.T
                    _try(mut2)
                elif step == 'not':
                    _try(lambda: ~K)
                else:
                    _try(lambda: ConceptLattice.from_context(K, algo=None if step == 'default' else step))
            if not c.get('norename'):
                K.object_names = list(c['objs'])
                K.attribute_names = list(c['attrs'])
        else:
            K = _mk(rows, be, c['objs'], c['attrs'])
        out = {}
        out['T'] = _try(lambda: _jctx(K.T))
        out['TT'] = _try(lambda: _jctx(K.T.T))
        out['TT_eq'] = _try(lambda: bool(K.T.T == K))
        out['not'] = _try(lambda: _jctx(~K))
        out['notnot'] = _try(lambda: _jctx(~~K))
        out['notnot_eq'] = _try(lambda: bool((~~K) == K))

        def derivs():
            KT = K.T
            return dict(t_ext=[ints(KT.extension_i(list(A))) for A in c['so']],
                        k_int=[ints(K.intention_i(list(A))) for A in c['so']],
                        t_int=[ints(KT.intention_i(list(B))) for B in c['sa']],
                        k_ext=[ints(K.extension_i(list(B))) for B in c['sa']])
        out['deriv'] = _try(derivs)
        return out
    algo = c.get('algo')
    if c['k'] == 'conv':
        return _impl_conv(c)
    if c['k'] == 'lhist':
        return _impl_lhist(c)
    if c['k'] == 'dep':
        return _impl_dep(c)
    if c['k'] == 'dlat':
        return _impl_dlat(c)
    if c['k'] == 'lat':
        return _lat_battery(_mk(rows, be, c['objs'], c['attrs']), algo)
    if c['k'] == 'get':
        K = _mk(rows, be, c['objs'], c['attrs'])
        return {'P': _try(lambda: _jctx(_getform(K, c['pi'], c['sigma'], c.get('form', 'll'))))}
    # perm
    out = {}
    r = _try(lambda: _lattice_of(tuple(tuple(r) for r in rows), be, tuple(c['objs']), tuple(c['attrs']), algo))
    if isinstance(r, dict):
        return {'L': r}
    K, L = r
    out['L'] = _jlat(L)
    P = _try(lambda: K[list(c['pi']), list(c['sigma'])])
    if isinstance(P, dict):
        out['P'] = P
        return out
    out['P'] = _jctx(P)
    out['LP'] = _try(lambda: _jlat(_from_context(P, algo)))
    return out


# ------------------------------------------------------------------------------------------------
# Lean side
# ------------------------------------------------------------------------------------------------

def _bad(x):
    return isinstance(x, dict) and 'err' in x


def requests(c, io):
    w = len(c['rows'][0])
    base = dict(be=SHORT[c['be']], rows=c['rows'], w=w, objs=c['objs'], attrs=c['attrs'])
    if c['k'] == 'ctx':
        rs = [dict(base, op='C06.ctx', kind=k) for k in ('T', 'TT', 'not', 'notnot')]
        rs.append(dict(op='C06.deriv', be=SHORT[c['be']], rows=c['rows'], w=w, selsObj=c['so'], selsAttr=c['sa']))
        return rs
    if c['k'] == 'conv':
        rs = [dict(base, op='C06.ctx', kind='T'), dict(base, op='C06.ctx', kind='not'),
              dict(base, op='C06.ctx', kind='get', pi=c['pi'], sigma=c['sigma']),
              dict(op='C06.deriv', be=SHORT[c['be']], rows=c['rows'], w=w, selsObj=c['so'], selsAttr=c['sa'])]
        return rs
    if c['k'] == 'lhist':
        rs = []
        for key_, tr in (('LT', True), ('L', False), ('KT', True)):
            X = io.get(key_)
            if X is None or _bad(X):
                continue
            rem = [[p[1], p[0]] for p in io['removed']] if tr else io['removed']
            if key_ == 'KT':
                rem = io['kept_removed']
            rs.append(dict(op='C06.order', rows=c['rows'], w=w, transposed=tr,
                           L=dict(concepts=X['concepts'], children=X['children']), parents=X['parents'],
                           desc=X['desc'], anc=X['anc'], removed=rem))
        return rs
    if c['k'] == 'dep':
        steps = [{k_: v for k_, v in st.items() if k_ != 'form'} for st in c['steps']]
        return [dict(op='C06.store', be=SHORT[c['be']], root=dict(rows=c['rows'], w=w, objs=c['objs'], attrs=c['attrs']),
                     steps=steps)]
    if c['k'] == 'dlat':
        rs = []
        for part, rows_, objs_, attrs_ in (('early', c['rows0'], c['objs0'], c['attrs0']), ('final', c['rows'], c['objs'], c['attrs'])):
            X = io.get(part)
            if X is None or any(_bad(X.get(k)) for k in ('L', 'L2', 'Lneg', 'LM')):
                return []
            b2 = dict(be=SHORT[c['be']], rows=rows_, w=w, objs=objs_, attrs=attrs_)
            rs += [dict(op='C06.latT', rows=rows_, w=w, L=X['L'], L2=X['L2']),
                   dict(b2, op='C06.mono', hash=X['hash'], Lneg=X['Lneg'], LM=X['LM'])]
        return rs
    if c['k'] == 'lat':
        if any(_bad(io.get(k)) for k in ('L', 'L2', 'Lneg', 'LM')):
            return []
        return [dict(op='C06.latT', rows=c['rows'], w=w, L=io['L'], L2=io['L2']),
                dict(base, op='C06.mono', hash=io['hash'], Lneg=io['Lneg'], LM=io['LM'])]
    rs = [dict(base, op='C06.ctx', kind='get', pi=c['pi'], sigma=c['sigma'])]
    if c['k'] == 'get':
        return rs
    if not _bad(io.get('L')) and not _bad(io.get('P')) and not _bad(io.get('LP')) and 'LP' in io:
        rs.append(dict(op='C06.perm', rows=c['rows'], w=w, pi=c['pi'], sigma=c['sigma'], P=io['LP']))
    return rs


def _fail(kind, what, detail):
    return dict(ok=False, kind=kind, what=what, detail=f'{what}: {detail}')


def _pairs(L):
    return [(tuple(x['ei']), tuple(x['ii'])) for x in L['concepts']]


def _cover_as_pairs(L, key=lambda p: p):
    ps = [key(p) for p in _pairs(L)]
    return {(ps[i], ps[j]) for i, ch in enumerate(L['children']) for j in ch}


def _ctx_same(a, b):
    return all(a.get(k) == b.get(k) for k in ('rows', 'objs', 'attrs', 'be', 'h', 'w'))


def _judge_ctx(c, io, rep):
    mal = c['stream'] == 'malformed'
    rT, rTT, rN, rNN, rD = rep
    if not mal:
        # ---- the property itself, on the implementation's output (oracles: the case and the Lean *Spec* tables) ----
        n, m = len(c['rows']), len(c['rows'][0])
        K0 = dict(rows=[[int(v) for v in r] for r in c['rows']], objs=list(c['objs']), attrs=list(c['attrs']),
                  be=SHORT[c['be']], h=n, w=m)
        for what, got, eq in (('K.T.T == K', io['TT'], io['TT_eq']), ('~~K == K', io['notnot'], io['notnot_eq'])):
            if _bad(got):
                return _fail('property', what, f'implementation raised {got}')
            for f in ('rows', 'objs', 'attrs', 'h', 'w'):
                if got[f] != K0[f]:
                    return _fail('property', what, f'{f} of the result are {got[f]}, those of K are {K0[f]}')
            if eq is not True:
                return _fail('property', what, f'the comparison returned {eq}')
        T = io['T']
        if _bad(T):
            return _fail('property', 'K.T', f'implementation raised {T}')
        if T['rows'] != rT['spec'] or T['w'] != rT['spec_w'] or T['objs'] != K0['attrs'] or T['attrs'] != K0['objs']:
            return _fail('property', 'K.T', f'{T} is not the transposed table {rT["spec"]} with the two name lists exchanged')
        N = io['not']
        if _bad(N):
            return _fail('property', '~K', f'implementation raised {N}')
        if N['rows'] != rN['spec'] or N['w'] != rN['spec_w'] or N['objs'] != K0['objs']:
            return _fail('property', '~K', f'{N} is not the complemented table {rN["spec"]} with the object names of K')
        if 'ok' in rN['res'] and N['attrs'] != rN['res']['ok']['attrs']:
            return _fail('property', '~K attribute names',
                         f'{N["attrs"]} is not the prefix toggle {rN["res"]["ok"]["attrs"]} of {K0["attrs"]}')
    for name, r, impl_ctx in (('K.T', rT, io['T']), ('K.T.T', rTT, io['TT']), ('~K', rN, io['not']), ('~~K', rNN, io['notnot'])):
        res = r['res']
        if _bad(impl_ctx) or 'err' in res:
            if _bad(impl_ctx) and 'err' in res and impl_ctx['err'] == res['err']:
                continue
            return _fail('correspondence' if mal else 'property', name, f'implementation {impl_ctx} vs model {res}')
        if not _ctx_same(impl_ctx, res['ok']):
            return _fail('correspondence' if mal else 'property', name,
                         f'implementation {impl_ctx} differs from the proved value {res["ok"]}')
        if not mal and (res['ok']['rows'] != r['spec'] or res['ok']['w'] != r['spec_w']):
            return _fail('harness', name, f'model table {res["ok"]["rows"]} != spec {r["spec"]} (contradicts theorem)')
    for name, r, got in (('K.T.T == K', rTT, io['TT_eq']), ('~~K == K', rNN, io['notnot_eq'])):
        want = r['eq']
        want_c = {'err': want['err']} if isinstance(want, dict) else want
        got_c = {'err': got['err']} if isinstance(got, dict) else got
        if got_c != want_c:
            return _fail('correspondence' if mal else 'property', name, f'implementation {got} vs model {want}')
        if not mal and got_c is not True:
            return _fail('property', name, f'returned {got}')
    d = io['deriv']
    if _bad(d) or 'err' in rD:
        return _fail('property', 'K.T derivation', f'implementation {d} / model {rD}')
    for a, b, s, what in (('t_ext', 'k_int', 'spec_int', '(K.T).extension_i vs K.intention_i'),
                          ('t_int', 'k_ext', 'spec_ext', '(K.T).intention_i vs K.extension_i')):
        if rD[a] != rD[s] or rD[b] != rD[s]:
            return _fail('harness', what, f'model {rD[a]} / {rD[b]} != spec {rD[s]} (contradicts theorem)')
        if d[a] != d[b] or d[a] != rD[s]:
            return _fail('property', what, f'implementation {d[a]} vs {d[b]}, prime sets {rD[s]}')
    return dict(ok=True)


def _lat_same(impl_l, model_l, names=True):
    if len(impl_l['concepts']) != len(model_l['concepts']):
        return 'different number of concepts'
    for i, (a, b) in enumerate(zip(impl_l['concepts'], model_l['concepts'])):
        keys = ('ei', 'ii', 'h', 'm') + (('e', 'i') if names else ())
        for k in keys:
            if a[k] != b[k]:
                return f'concept {i} field {k}: implementation {a[k]} vs model {b[k]}'
    if impl_l['children'] != model_l['children']:
        return f'children: implementation {impl_l["children"]} vs model {model_l["children"]}'
    if bool(impl_l.get('mono')) != bool(model_l.get('mono')):
        return 'is_monotone flag differs'
    return None


def _judge_lat(c, io, rep):
    mal = c['stream'] == 'malformed'
    for k in ('L', 'LT', 'L2', 'Lneg', 'LM'):
        if _bad(io.get(k)):
            return _fail('property', k, f'implementation raised {io[k]}')
    rT, rM = rep
    # premises (C02/C03 territory, but C06 is stated about these lattices)
    for flag, what in (('L_ok', 'from_context(K) concept set'), ('L_cover_ok', 'from_context(K) cover relation'),
                       ('L2_ok', 'from_context(K.T) concept set'), ('L2_cover_ok', 'from_context(K.T) cover relation')):
        if not rT[flag]:
            return _fail('property', what, 'rejected by the Lean oracle allConcepts/lowerCovers')
    for flag, what in (('Lneg_ok', 'from_context(~K) concept set'), ('Lneg_cover_ok', 'from_context(~K) cover relation')):
        if not rM[flag]:
            return _fail('property', what, 'rejected by the Lean oracle allConcepts/lowerCovers')
    # lattice of the transposed context = transposed lattice
    LT, L2 = io['LT'], io['L2']
    if set(_pairs(LT)) != set(_pairs(L2)) or len(_pairs(LT)) != len(_pairs(L2)):
        return _fail('property', 'from_context(K).T vs from_context(K.T) concepts',
                     f'{sorted(_pairs(LT))} vs {sorted(_pairs(L2))}')
    if _cover_as_pairs(LT) != _cover_as_pairs(L2):
        return _fail('property', 'from_context(K).T vs from_context(K.T) cover relation',
                     f'{sorted(_cover_as_pairs(LT))} vs {sorted(_cover_as_pairs(L2))}')
    if not mal:
        objs, attrs = c['objs'], c['attrs']
        for x in LT['concepts']:
            if x['e'] != [attrs[a] for a in x['ei']] or x['i'] != [objs[g] for g in x['ii']]:
                return _fail('property', 'transposed lattice names', f'concept {x} does not carry the swapped names of its indexes')
        for x in io['LM']['concepts']:
            if x['e'] != [objs[g] for g in x['ei']] or x['i'] != [attrs[a] for a in x['ii']]:
                return _fail('property', 'monotone lattice names', f'concept {x} does not carry the names of its indexes')
    if not rT['T_ok'] or not rT['T_cover_ok']:
        return _fail('harness', 'model L.T', 'the model\'s transposed lattice is rejected by the oracle although L is exact '
                                             '(contradicts theorem lattice_of_transpose_exec)')
    diff = _lat_same(LT, rT['model_T'])
    if diff:
        return _fail('correspondence', 'ConceptLattice.T vs model', diff)
    # monotone lattice
    LM = io['LM']
    if not rM.get('oracles_agree', True):
        return _fail('harness', 'monoConcepts oracles', 'brute-force and complement-based enumeration disagree (contradicts theorem)')
    if not rM['LM_ok']:
        return _fail('property', 'monotone lattice concept set',
                     f'{sorted(_pairs(LM))} is not the set of monotone concepts ({rM["n_mono"]} of them)')
    if not rM['LM_cover_ok']:
        return _fail('property', 'monotone lattice cover relation',
                     f'children {LM["children"]} are not the lower covers of the reversed extent order')
    if not LM['mono'] or not all(x['m'] for x in LM['concepts']):
        return _fail('property', 'monotone lattice flags', 'is_monotone not set on the lattice or a concept')
    diff = _lat_same(LM, rM['model'])
    if diff:
        return _fail('correspondence', '_from_context_monotone vs model', diff)
    return dict(ok=True)


def _judge_perm(c, io, rep):
    for k in ('L', 'P', 'LP'):
        if _bad(io.get(k)) or k not in io:
            return _fail('property', k, f'implementation raised {io.get(k)}')
    rG, rP = rep
    res = rG['res']
    if 'err' in res or not _ctx_same(io['P'], res['ok']):
        return _fail('property', 'K[pi, sigma]', f'implementation {io["P"]} differs from the proved value {res}')
    if res['ok']['rows'] != rG['spec'] or res['ok']['w'] != rG['spec_w']:
        return _fail('harness', 'K[pi, sigma]', f'model table {res["ok"]["rows"]} != spec {rG["spec"]}')
    for flag, what in (('P_ok', 'lattice of K[pi,sigma]: concept set'), ('P_cover_ok', 'lattice of K[pi,sigma]: cover relation'),
                       ('image_ok', 'relabelled image of the permuted lattice is the concept set of K'),
                       ('image_cover_ok', 'relabelled image: cover relation')):
        if not rP[flag]:
            return _fail('property', what, 'rejected by the Lean oracle')
    # implementation vs implementation: lattice of the permuted context vs relabelled lattice of K
    pi, sg = c['pi'], c['sigma']
    L, LP = io['L'], io['LP']
    img = lambda p: (tuple(sorted(pi[r] for r in p[0])), tuple(sorted(sg[a] for a in p[1])))
    if {img(p) for p in _pairs(LP)} != set(_pairs(L)) or len(_pairs(LP)) != len(_pairs(L)):
        return _fail('property', 'lattice of K[pi,sigma] vs relabelled lattice of K (concepts)',
                     f'{sorted(img(p) for p in _pairs(LP))} vs {sorted(_pairs(L))}')
    if _cover_as_pairs(LP, img) != _cover_as_pairs(L):
        return _fail('property', 'lattice of K[pi,sigma] vs relabelled lattice of K (cover relation)',
                     f'{sorted(_cover_as_pairs(LP, img))} vs {sorted(_cover_as_pairs(L))}')
    objs, attrs = io['P']['objs'], io['P']['attrs']
    for x in LP['concepts']:
        if x['e'] != [objs[g] for g in x['ei']] or x['i'] != [attrs[a] for a in x['ii']]:
            return _fail('property', 'permuted lattice names', f'concept {x} does not carry the permuted names')
    return dict(ok=True)


def _judge_get(c, io, rep):
    res, got = rep[0]['res'], io['P']
    # strict: the selections are permutations of the full ranges, so the result is pinned by the property (the relabelled
    # context: theorem getitem_is_permute) whatever the argument form; otherwise only model / implementation agreement
    kind = 'property' if c.get('strict') else 'correspondence'
    name = {'ll': 'K[rows, cols]', 'l': 'K[rows]', 'l:': 'K[rows, :]', ':l': 'K[:, cols]'}[c.get('form', 'll')]
    if _bad(got) or 'err' in res:
        if _bad(got) and 'err' in res and got['err'] == res['err'] and not c.get('strict'):
            return dict(ok=True)
        return _fail(kind, name, f'implementation {got} vs model {res}')
    if not _ctx_same(got, res['ok']):
        return _fail(kind, name, f'implementation {got} vs model {res["ok"]}')
    if c.get('strict') and (res['ok']['rows'] != rep[0]['spec'] or res['ok']['w'] != rep[0]['spec_w']):
        return _fail('harness', name, f'model table {res["ok"]["rows"]} != spec {rep[0]["spec"]}')
    return dict(ok=True)


def _judge_conv(c, io, rep):
    rT, rN, rG, rD = rep
    n, m = len(c['rows']), len(c['rows'][0])
    rows0 = [[int(v) for v in r] for r in c['rows']]
    objs, attrs = list(c['objs']), list(c['attrs'])
    want = {'T': (rT['spec'], attrs, objs), 'TT': (rows0, objs, attrs), 'self': (rows0, objs, attrs),
            'get': (rG['spec'], [objs[i] for i in c['pi']], [attrs[j] for j in c['sigma']])}
    if 'ok' in rN['res']:
        want['not'] = (rN['spec'], objs, rN['res']['ok']['attrs'])
    for key_ in sorted(io):
        got = io[key_]
        src = key_.split('>')[0]
        if _bad(got):
            return _fail('property', key_, f'implementation raised {got}')
        if src not in want:
            continue
        wrows, wobjs, wattrs = want[src]
        ctx = got if '>' not in key_ else got['ctx']
        if ctx['rows'] != wrows or ctx['objs'] != wobjs or ctx['attrs'] != wattrs \
                or ctx['h'] != len(wobjs) or ctx['w'] != len(wattrs):
            return _fail('property', key_, f'table {ctx["rows"]} / names {ctx["objs"]}, {ctx["attrs"]} of the '
                                           f'(converted) context differ from {wrows} / {wobjs}, {wattrs}')
        if '>' in key_:
            b2 = key_.split('>')[1].split(':')[0]
            if ctx['be'] != b2:
                return _fail('property', key_, f'backend {ctx["be"]} instead of {b2}')
            if src == 'T':
                if got['t_ext'] != rD['spec_int'] or got['t_int'] != rD['spec_ext']:
                    return _fail('property', key_ + ' derivations',
                                 f'extension_i {got["t_ext"]} / intention_i {got["t_int"]} of the converted K.T are not '
                                 f'the exchanged prime sets {rD["spec_int"]} / {rD["spec_ext"]} of K')
                back = got['back']
                if back['rows'] != rows0 or back['objs'] != objs or back['attrs'] != attrs or got['back_eq'] is not True:
                    return _fail('property', key_ + ' .T', f'transposing back gives {back} (== K: {got["back_eq"]})')
    if rD['t_ext'] != rD['spec_int'] or rD['t_int'] != rD['spec_ext']:
        return _fail('harness', 'conv model', 'model derivations differ from the spec')
    return dict(ok=True)


def _judge_dep(c, io, rep):
    if 'failed' in io:
        return _fail('property', 'store history', f'implementation raised {io["failed"]} in a valid history ({c["tag"]})')
    want = rep[0]['obs']
    got = io['obs']
    if len(want) != len(got):
        return _fail('harness', 'store history', f'{len(got)} observations, the model answered {len(want)}')
    obs_steps = [st for st in c['steps'] if st['o'] == 'obs']
    for k, (g, w_, st) in enumerate(zip(got, want, obs_steps)):
        where = f'observation {k} (slot {st["i"]}, history {c["tag"]})'
        if 'err' in w_:
            return _fail('harness', 'store history', f'the model raised {w_} in a history the generator calls valid')
        # the object itself
        if _bad(g['ctx']) or not _ctx_same(g['ctx'], w_['ctx']):
            return _fail('property', 'content of an object after a history',
                         f'{where}: the object holds {g["ctx"]}, its own history gives {w_["ctx"]}')
        # the derived objects, asked for now
        for key_, name, spec in (('T', 'X.T', 'T_spec'), ('TT', 'X.T.T', None), ('not', '~X', 'not_spec'),
                                 ('notnot', '~~X', None), ('get', 'X[rows, cols]', 'get_spec')):
            m_ = w_[key_]
            if 'ok' not in m_:
                return _fail('harness', name, f'{where}: the model raised {m_}')
            if spec is not None and m_['ok']['rows'] != w_[spec]:
                return _fail('harness', name, f'{where}: model table {m_["ok"]["rows"]} != spec {w_[spec]} (contradicts theorem)')
            if _bad(g[key_]) or not _ctx_same(g[key_], m_['ok']):
                return _fail('property', name + ' after a history',
                             f'{where}: the implementation gives {g[key_]}; for the content the object holds now '
                             f'({w_["ctx"]}) it is {m_["ok"]}')
        for key_, name in (('TT_eq', 'X.T.T == X'), ('notnot_eq', '~~X == X')):
            wv, gv = w_[key_], g[key_]
            wc = {'err': wv['err']} if isinstance(wv, dict) else wv
            gc = {'err': gv['err']} if isinstance(gv, dict) else gv
            if wc != gc:
                return _fail('property', name + ' after a history', f'{where}: implementation {gv}, model {wv}')
        # the named derivation operators of X and of X.T
        for key_, spec, name in (('int', 'spec_int', 'X.intention(names)'), ('ext', 'spec_ext', 'X.extension(names)'),
                                 ('t_ext', 'spec_int', 'X.T.extension(object names of X)'),
                                 ('t_int', 'spec_ext', 'X.T.intention(attribute names of X)')):
            if w_[key_] != w_[spec]:
                return _fail('harness', name, f'{where}: model {w_[key_]} != spec {w_[spec]} (contradicts theorem)')
            if g[key_] != w_[key_]:
                return _fail('property', name + ' after a history', f'{where}: implementation {g[key_]}, prime sets by name {w_[key_]}')
    return dict(ok=True)


def _judge_dlat(c, io, rep):
    if 'early_failed' in io:
        return _fail('property', 'lattice history', f'implementation raised {io["early_failed"]} ({c["tag"]})')
    if len(rep) != 4:
        bad = {p: {k: v for k, v in io[p].items() if _bad(v)} for p in ('early', 'final')}
        return _fail('property', 'lattice history', f'implementation raised {str(bad)[:400]} ({c["tag"]})')
    e = io['early']
    if _bad(e.get('LT_again')) or e['LT_again'] != e['LT']:
        return _fail('property', 'kept lattice: L.T again', f'L.T of the kept lattice is now {str(e.get("LT_again"))[:300]}, '
                                                           f'the L.T kept from before is {str(e["LT"])[:300]}')
    for part, r2, cc in (('early', rep[0:2], dict(c, k='lat', rows=c['rows0'], objs=c['objs0'], attrs=c['attrs0'])),
                         ('final', rep[2:4], dict(c, k='lat'))):
        v = _judge_lat(cc, io[part], r2)
        if not v.get('ok'):
            what = ('lattices kept from before the change of K' if part == 'early' else 'lattices built after the change of K')
            return dict(v, what=f'{what}: {v.get("what")}', detail=f'{what} ({c["tag"]}, scribble={c.get("scribble")}): {v.get("detail")}')
    return dict(ok=True)


def _judge_lhist(c, io, rep):
    if 'build' in io:
        return _fail('property', 'building the lattice (%s)' % c['path'], f'implementation raised {io["build"]}')
    for r in io['log']:
        if isinstance(r, dict):
            return _fail('property', 'lattice operation', f'implementation raised {r} in {c["ops"]}')
    for key_ in ('LT', 'L'):
        if _bad(io[key_]):
            return _fail('property', 'L.T after the history' if key_ == 'LT' else 'reading L after the history',
                         f'implementation raised {io[key_]}')
    rLT, rL = rep[0], rep[1]
    LT, L = io['LT'], io['L']
    if 'KT' in io:
        # the transposed lattice taken EARLIER and kept (and possibly mutated itself): still a lattice of the transposed
        # table -- all its elements concepts, complete up to what had been removed before it was taken / from it
        if _bad(io['KT']):
            return _fail('property', 'reading the kept L.T', f'implementation raised {io["KT"]}')
        for flag, what in (('all_concepts', 'elements'), ('complete', 'completeness'), ('children_ok', 'children'),
                           ('parents_ok', 'parents'), ('desc_ok', 'descendants'), ('anc_ok', 'ancestors')):
            if not rep[2][flag]:
                return _fail('property', 'kept L.T after later mutations: ' + what,
                             f'rejected by the Lean oracle; kept L.T = {str(io["KT"])[:600]}')
    # the transposed lattice: extents and intents exchanged, element by element
    if [(x['ii'], x['ei'], x['i'], x['e']) for x in L['concepts']] != [(x['ei'], x['ii'], x['e'], x['i']) for x in LT['concepts']]:
        return _fail('property', 'L.T elements', 'the concepts of L.T are not the concepts of L with extent and intent exchanged')
    # ... and its order is the order of extent inclusion of the transposed table = the reversed order
    for flag, what in (('all_concepts', 'elements of L.T are concepts of the transposed table'),
                       ('complete', 'L.T lists all concepts of the transposed table (minus the removed ones)'),
                       ('children_ok', 'children of L.T are the lower covers'),
                       ('parents_ok', 'parents of L.T are the upper covers'),
                       ('desc_ok', 'descendants of L.T are the strictly smaller elements'),
                       ('anc_ok', 'ancestors of L.T are the strictly larger elements')):
        if not rLT[flag]:
            return _fail('property', what, f'rejected by the Lean oracle; L.T = {str(LT)[:600]}')
    # the lattice itself after the history (properties C09/C11 are about this; reported here because C06 builds on it)
    for flag in ('all_concepts', 'complete', 'children_ok', 'parents_ok', 'desc_ok', 'anc_ok'):
        if not rL[flag]:
            return _fail('property', 'L after the history: ' + flag, f'rejected by the Lean oracle; L = {str(L)[:600]}')
    return dict(ok=True)


def judge(c, io, rep):
    if c['k'] == 'get':
        return _judge_get(c, io, rep)
    if c['k'] == 'dep':
        if len(rep) != 1:
            return _fail('harness', 'dep', 'missing reply')
        return _judge_dep(c, io, rep)
    if c['k'] == 'dlat':
        return _judge_dlat(c, io, rep)
    if c['k'] == 'conv':
        if len(rep) != 4:
            return _fail('harness', 'conv', 'missing replies')
        return _judge_conv(c, io, rep)
    if c['k'] == 'lhist':
        if len(rep) != 2 + ('KT' in io):
            bad = {k: v for k, v in io.items() if _bad(v)}
            return _fail('property', 'lattice history', f'implementation raised {str(bad)[:400]} in {c["path"]} {c["ops"]}')
        return _judge_lhist(c, io, rep)
    want = {'ctx': 5, 'lat': 2, 'perm': 2}[c['k']]
    if len(rep) != want:
        bad = {k: v for k, v in io.items() if _bad(v)}
        return _fail('property', 'implementation raised', str(bad)[:400])
    return {'ctx': _judge_ctx, 'lat': _judge_lat, 'perm': _judge_perm}[c['k']](c, io, rep)


def nontrivial(c):
    if not G.is_mixed(c['rows']):
        return False
    if c['k'] in ('perm', 'get', 'conv'):
        return c['pi'] != sorted(c['pi']) or c['sigma'] != sorted(c['sigma'])
    return True


def key(c):
    return {k: v for k, v in c.items() if k != 'stream'}


def branch(c, io, rep):
    n, m = len(c['rows']), len(c['rows'][0])
    tags = [c['stream'], f"{c['k']}:{c['be']}" + (f":{c.get('algo') or 'default'}" if c['k'] in ('lat', 'perm') else ''), f'size:{n}x{m}']
    if c['k'] == 'get':
        tags.append('get:' + (io['P']['err'] if _bad(io['P']) else 'ok'))
        tags.append('get-form:%s:%s' % (c.get('form', 'll'), 'perm' if c.get('strict') else 'other'))
    if c['k'] in ('dep', 'dlat'):
        tags.append(c['k'] + ':' + c['tag'])
        if n >= 64 or m >= 64:
            tags.append(c['k'] + ':>=64')
    if c['stream'] == 'h8':
        tags.append('h8:%s:%dx%d' % (c['k'], n, m))
    if c['k'] == 'lhist':
        tags += ['lhist-path:' + c['path']] + ['lhist-op:' + o[0] for o in c['ops']]
        if n * m >= 64:
            tags.append('lhist:>=64cells')
    if c['stream'] == 'big':
        tags.append('big:%s:%s' % (c['k'], '>=64cells' if n * m >= 64 else 'small'))
    if c['k'] == 'lat' and not _bad(io.get('L')):
        tags.append('concepts:%d' % min(len(io['L']['concepts']), 33) if len(io['L']['concepts']) < 33 else 'concepts:33+')
    if c['k'] == 'ctx':
        tags.append('names:' + ('bad' if any(a.startswith('not not ') for a in c['attrs']) else
                                'near-miss' if any(a in NEARSET for a in c['attrs']) else
                                'tricky' if any(a in TRICKY[:12] or a in TRICKY[14:] for a in c['attrs']) else
                                'not' if any(a.startswith('not ') for a in c['attrs']) else 'plain'))
    elif c['k'] in ('lat', 'perm') and any(a in NEARSET for a in c['attrs']):
        tags.append(c['k'] + '-names:near-miss')
    elif c['k'] in ('lat', 'perm') and any(a in TRICKY[:12] or a in TRICKY[14:] for a in c['attrs']):
        tags.append(c['k'] + '-names:tricky')
    return tags


def signature(c, io, rep, v):
    return f"C06:{c['k']}:{c['be']}:{c.get('algo') or c.get('path') or 'default'}:{v.get('kind')}:{v.get('what', '?')}"


def shrink(c):
    if c['k'] == 'dep':
        # drop single observations / setter calls (slot numbers stay valid: deriving steps are kept)
        for i, st in enumerate(c['steps']):
            if st['o'] in ('obs', 'objs', 'attrs', 'data') and len(c['steps']) > 1:
                yield dict(c, steps=c['steps'][:i] + c['steps'][i + 1:])
        return
    if c['k'] == 'dlat':
        if c.get('scribble'):
            yield dict(c, scribble=0)
        return
    rows = c['rows']
    n, m = len(rows), len(rows[0])

    def drop(xs, k):
        return [x - (x > k) for x in xs if x != k]
    if n > 1:
        for i in range(n):
            d = dict(c, rows=rows[:i] + rows[i + 1:], objs=c['objs'][:i] + c['objs'][i + 1:])
            if 'objs0' in c:
                d['objs0'] = c['objs0'][:i] + c['objs0'][i + 1:]
            if 'pi' in c:
                d['pi'] = drop(c['pi'], i)
            if 'so' in c:
                d['so'] = [drop(x, i) for x in c['so']]
            yield d
    if m > 1:
        for j in range(m):
            d = dict(c, rows=[r[:j] + r[j + 1:] for r in rows], attrs=c['attrs'][:j] + c['attrs'][j + 1:])
            if 'attrs0' in c:
                d['attrs0'] = c['attrs0'][:j] + c['attrs0'][j + 1:]
            if 'sigma' in c:
                d['sigma'] = drop(c['sigma'], j)
            if 'sa' in c:
                d['sa'] = [drop(x, j) for x in c['sa']]
            yield d
    if c['k'] == 'ctx':
        for key_ in ('so', 'sa'):
            if len(c[key_]) > 1:
                for i in range(len(c[key_])):
                    yield dict(c, **{key_: c[key_][:i] + c[key_][i + 1:]})
    if c['k'] == 'lhist':
        for i in range(len(c['ops'])):
            if len(c['ops']) > 1:
                yield dict(c, ops=c['ops'][:i] + c['ops'][i + 1:])
    if c['k'] in ('perm', 'conv'):
        if c['pi'] != sorted(c['pi']):
            yield dict(c, pi=sorted(c['pi']))
        if c['sigma'] != sorted(c['sigma']):
            yield dict(c, sigma=sorted(c['sigma']))
    for i in range(n):
        for j in range(m):
            if rows[i][j]:
                d = dict(c, rows=[list(r) for r in rows])
                d['rows'][i][j] = 0
                yield d

"""C08 — concepts are ordered by extent inclusion with consistent equality and hashing; cross-context and
cross-monotonicity comparisons are refused; defining fields are frozen; from_objects builds the closure."""
import glob
import itertools
import json
import os
import random

import gen as G
from implutil import BACKENDS, SHORT, ints, make_context, exc_name

RULE = ('case kinds: order = (table, backend) -> pool of every concept object returned by the 5 miners '
        '(close_by_one, close_by_one_objectwise, close_by_one_objectwise_fbarray, lindig_algorithm, sofia) plus '
        'FormalConcept.from_objects on ordered object subsets (by index and by name, is_extent False/True), de-duplicated '
        'on all defining fields; ==, !=, <=, < evaluated on ALL ordered pairs of the pool and hash() on every member; the '
        'Lean law checker runs over all pairs and all triples of the implementation\'s own answer matrices; '
        'cross = pool mixing concepts of two different contexts, monotone twins (FormalConcept(..., is_monotone=True)) '
        'and context_hash=None twins; from_objects = one call compared field by field with Spec (ext (int A), int A); '
        'setattr = one assignment attempt per field name; porder/pfrom = the same for PatternConcepts of all-IntervalPS '
        'MVContexts (miners: close_by_one, close_by_one_objectwise, close_by_one_objectwise_fbarray, sofia). '
        'history/phistory = ONE context object: derive concepts, change its content through a public route (own setters; the '
        'data setter / the handed-out storage of the contained BinTable or pattern structure; the aliased name lists; incl. '
        'adler32-colliding tables / names and -1 <-> -2 edits that keep Python\'s hash), derive again (also in between), derive '
        'from a fresh context with the final content; every concept is labelled with the adler32 identity of the content it '
        'was derived from, computed by the harness from its own record (never asked from the object under test), and all '
        'pairs across the phases are judged with those labels; each from_objects result against the closure in the content '
        'of that moment. bigorder/bigporder = (H8) 64..595 objects in value groups whose cumulated sizes cross 64/65, '
        '128/129, 512/520 (interordinal formal context / one IntervalPS column): every miner, the lattices, from_objects, '
        'read_json and the constructor, each target extent listed descending / shuffled / rotated / ascending, antitone and '
        'monotone; all ordered pairs. '
        'non-trivial = table/columns not constant (order, cross, porder) or non-empty selection on a mixed table '
        '(from_objects, pfrom) or any setattr case; distinct = distinct case content')
EXHAUSTIVE = {
    'quick': 'order: all tables n,m<=3 (682) x 3 backends, from_objects on EVERY ordered object subset x is_extent, all pairs '
             'and all triples of the pool; from_objects: all tables n,m<=3 x 3 backends x every ordered subset x (index|name) x '
             'is_extent; cross: all ordered pairs of distinct tables n,m<=2 plus renamed-objects variants; setattr: every '
             'field name x (FormalConcept from from_objects / miner / direct constructor, PatternConcept); porder/pfrom: all '
             'one-column IntervalPS contexts with <=3 objects over interval ends {0,1,2}, every ordered subset; history: all '
             'tables n,m<=2 x 3 backends x 15 route scripts; phistory: all one-column contexts with <=2 objects x 16 route '
             'scripts; bigorder/bigporder: 6 fixed group shapes (64, 65, 73, 129, 520, 595 objects) + 2 random ones, all '
             'ordered pairs of a pool of 40-80 concepts each',
    'thorough': 'quick scope plus order/from_objects for all tables with n,m<=4, n*m<=12; porder/pfrom additionally all '
                'two-column IntervalPS contexts with 2 objects over ends {0,1,2}'}
EXPLANATION = ('the answers of ==, <=, < are pinned uniquely by the property (extent inclusion), so implementation != Spec is a '
               'property failure; Lean theorems Fca.C08.* prove model = Spec for all concepts with duplicate-free extents; '
               'hash(c) is compared with Python\'s hash of the model\'s hash key; the partial-order laws are re-checked by the '
               'Lean law checker on the implementation\'s own matrices (all pairs, all triples); Fca.C08.listing_invariant '
               'proves that no answer depends on the listing order of either extent, for every size (so the large directed '
               'cases are instances of one theorem, not of a second regime)')
ASSUMPTIONS = ['concept extents are duplicate-free lists of valid object indexes (every miner and from_objects deliver that; '
               'the run asserts it for every pooled concept)',
               '"different context" means different context_hash (zlib.adler32 collisions are outside the model): in the '
               'history streams two DIFFERENT contents whose renderings collide under adler32 are not judged against each other '
               '(the unchanged library takes them for one context); everything else about them is judged',
               'from_objects receives duplicate-free in-range indexes or known names (unknown names, duplicates, '
               'is_monotone=True live in the malformed stream)',
               'PatternConcept fields are protected as public read-only properties; the private slots (_extent_i, ...) are '
               'assignable as everywhere in Python and are outside the property']
TRUSTED = ['Python hash() of int tuples (the theorem is about the value handed to hash: equal concepts hand equal keys)',
           'zlib.adler32 / hash_fixed (the context hash is an input of the model)',
           'pydantic dataclass construction (tuple coercion) and the property/descriptor protocol behind attribute assignment',
           'MVContext/IntervalPS derivation pair is modelled for integer interval ends only and is proved nothing about here '
           '(C13); PatternConcept.from_objects is proved to be extension_i(intention_i(A)) of whatever pair it is given']
CHUNK = 400
REQUESTS_NEED_IMPL = True

OBJ = ['g%d' % i for i in range(1100)]
ATT = ['m%d' % i for i in range(96)]
MINERS = ('close_by_one', 'close_by_one_objectwise', 'close_by_one_objectwise_fbarray', 'lindig_algorithm', 'sofia')
PMINERS = ('close_by_one', 'close_by_one_objectwise', 'close_by_one_objectwise_fbarray', 'sofia')
FORMAL_KEYS = ['extent_i', 'extent', 'intent_i', 'intent', 'context_hash', 'is_monotone', 'measures', 'support', 'foo',
               'extent_', '_extent_i']
PATTERN_KEYS = ['extent_i', 'extent', 'intent_i', 'intent', 'pattern_types', 'support', 'context_hash', 'measures', 'foo',
                'attribute_names']
FROZEN = {'formal': {'extent_i', 'extent', 'intent_i', 'intent', 'context_hash', 'is_monotone'},
          'pattern': {'extent_i', 'extent', 'intent_i', 'intent', 'context_hash'}}
EXPECTED_BASE = {'UnmatchedContextError': ValueError, 'UnmatchedMonotonicityError': ValueError,
                 'NotImplementedError': NotImplementedError}


# ------------------------------------------------------------------------------------------- generation

def _fo_all(n):
    """from_objects calls for an n-object context: every ordered subset x is_extent, alternating index/name."""
    out = []
    for k, sel in enumerate(G.ordered_sublists(range(n))):
        for ie in (0, 1):
            out.append([sel, (k + ie) % 2, ie])
    return out


def _fo_random(rng, n, cnt):
    return [[G.random_sel(rng, n), rng.randint(0, 1), rng.randint(0, 1)] for _ in range(cnt)]


def _fo_repeated(n):
    """from_objects calls whose argument mentions an object more than once (is_extent=False: the object SET is what counts)"""
    out = []
    for i in range(n):
        out.append([[i, i], i % 2, 0])
    if n > 1:
        out.append([list(range(n))[::-1] + [0], 0, 0])
        out.append([[n - 1, 0, n - 1, 0], 1, 0])
    return out


ARGFORMS = ('list', 'tuple', 'gen', 'iter', 'map', 'set', 'frozenset', 'dictkeys')


def _repeated_sels(n, maxlen):
    """all index sequences over range(n) of length <= maxlen in which some object occurs at least twice"""
    for k in range(2, maxlen + 1):
        for seq in itertools.product(range(n), repeat=k):
            if len(set(seq)) < k:
                yield list(seq)


def _random_repeated(rng, n):
    sel = G.random_sel(rng, n) or [rng.randrange(n)]
    for _ in range(rng.randint(1, 3)):
        sel.insert(rng.randint(0, len(sel)), rng.choice(sel))
    return sel


def _order_case(rows, be, stream, fo, paths=(), cap=None):
    c = dict(kind='order', stream=stream, be=be, rows=rows, miners=list(MINERS), fo=fo)
    if paths:
        c['paths'] = list(paths)        # further ways to obtain concepts: 'lattice', 'json'
    if cap:
        c['cap'] = cap                  # big tables: only the generator miners, first `cap` concepts each
        c['miners'] = ['close_by_one_objectwise', 'close_by_one_objectwise_fbarray']
    return c


def _from_cases(rows, be, stream, sels, extents=(0, 1), forms=None):
    n, m = len(rows), len(rows[0])
    k = 0
    for sel in sels:
        for by_name in (0, 1):
            for ie in extents:
                c = dict(kind='from_objects', stream=stream, be=be, rows=rows, objs=OBJ[:n], attrs=ATT[:m],
                         sel=sel, by_name=by_name, is_extent=ie, is_monotone=0)
                if forms:
                    c['argform'] = forms[k % len(forms)]
                    k += 1
                yield c


def _history_scripts(rows):
    """mutation histories through PUBLIC setters between two uses of one context object"""
    n, m = len(rows), len(rows[0])
    rows2 = [[1 - v for v in r] for r in rows]                       # complement table, same shape
    rows3 = [list(r) for r in rows[1:]] + [list(rows[0])] if n > 1 else [[1 - rows[0][0]] + list(rows[0][1:])]
    return [
        [['objs', 'h']],                                           # rename the objects
        [['attrs', 'b']],                                          # rename the attributes
        [['data', rows2]],                                         # K.data.data = other table of the same shape
        [['data', rows3]],
        [['objs', 'h'], ['objs', 'g']],                            # net zero: the original names are restored
        [['data', rows2], ['data', rows]],                         # net zero on the table
        [['objs', 'h'], ['attrs', 'b'], ['data', rows2]],
        [['none']],                                                # control: no mutation, everything comparable
        # ---- every further public route to the content (own setters AND what contained objects expose) ----
        [['data_inplace', n - 1, m - 1]],                          # one cell of the storage K.data.data hands out
        [['data_inplace', 0, 0], ['derive'], ['data_inplace', 0, 0]],   # A -> B -> A with a derivation in between
        [['data', rows2], ['derive'], ['data', rows]],
        [['objs', 'h'], ['derive'], ['objs', 'g'], ['derive'], ['attrs', 'b']],
        [['ctx_data', rows2]],                                     # `K.data = ...` (no setter: refused, content unchanged)
        [['description', 'another description']],                  # a setter that does not touch the content
        [['description', 'x'], ['data', rows3]],
    ]


def _ref_formal(objs, attrs, rows):
    """What the UNCHANGED FormalContext.hash_fixed() is for this content (the identity the library gives a context):
    zlib.adler32 of str(object_names) + str(attribute_names) + str(data.to_list()), names being tuples"""
    import zlib
    return zlib.adler32((str(tuple(objs)) + str(tuple(attrs)) + str([[bool(v) for v in r] for r in rows])).encode())


def _ref_mv(objs, attrs, cols):
    """the same for an all-IntervalPS MVContext: names are the lists handed over, data = rows of float pairs"""
    import zlib
    n = len(cols[0])
    data = [[(float(col[g][0]), float(col[g][1])) for col in cols] for g in range(n)]
    return zlib.adler32((str(list(objs)) + str(list(attrs)) + str(data)).encode())


def _collide_names(names):
    """(H4) other names with the same adler32 wherever they are embedded ('bdb0' -> 'cbc0'); None if impossible"""
    out = [G.adler_collide_name(x) for x in names]
    if any(x is None for x in out) or len(set(out)) != len(out) or set(out) & set(names):
        return None
    return out


def _history_scripts_h4(rows, objs0, attrs0):
    """(H4) edits that change the content but keep zlib.adler32 of the rendering the library hashes.  Every script is
    checked here: the contents really differ and really collide (else it is not emitted)."""
    n, m = len(rows), len(rows[0])
    out = []
    ref0 = _ref_formal(objs0, attrs0, rows)
    rowsc = G.adler_collide_rows(objs0, attrs0, rows, limit=5000) if n * m <= 12 else None
    if rowsc is not None and rowsc != rows and _ref_formal(objs0, attrs0, rowsc) == ref0:
        out.append([['data', rowsc, 'collide']])
        out.append([['data', rowsc, 'collide'], ['derive'], ['data', rows]])
    oc, ac = _collide_names(objs0), _collide_names(attrs0)
    if oc is not None and _ref_formal(oc, attrs0, rows) == ref0:
        out.append([['objs_names', oc, 'collide']])
    if ac is not None and _ref_formal(objs0, ac, rows) == ref0:
        out.append([['attrs_names', ac, 'collide']])
    if oc is not None and ac is not None and rowsc is not None and _ref_formal(oc, ac, rowsc) == ref0:
        out.append([['objs_names', oc, 'collide'], ['attrs_names', ac, 'collide'], ['data', rowsc, 'collide']])
    return out


def _history_case(rows, be, stream, script, fo1, fo2, objs0=None, attrs0=None):
    c = dict(kind='history', stream=stream, be=be, rows=rows, script=script, fo1=fo1, fo2=fo2)
    if objs0 is not None:
        c['objs0'], c['attrs0'] = list(objs0), list(attrs0)
    return c


def _phistory_scripts(cols):
    n = len(cols[0])
    col2 = [[a + 1, b + 2] for a, b in cols[0]]
    col3 = list(cols[0][1:]) + [cols[0][0]] if n > 1 else [[cols[0][0][0], cols[0][0][1] + 1]]
    return [
        [['objs', 'h']],
        [['attrs', 'b']],
        [['ps_data', 0, col2]],                                    # K.pattern_structures[0].data = ...
        [['pattern_structures', [col3] + [list(c) for c in cols[1:]]]],   # K.pattern_structures = [new objects]
        [['objs', 'h'], ['objs', 'g']],
        [['ps_data', 0, col2], ['ps_data', 0, [list(v) for v in cols[0]]]],
        [['none']],
        # ---- every further public route: setters of CONTAINED objects, containers the getters hand out ----
        [['ps_data', len(cols) - 1, [[a - 1, b + 1] for a, b in cols[-1]]]],
        [['ps_data', 0, col2], ['derive'], ['ps_data', 0, [list(v) for v in cols[0]]]],   # A -> B -> A
        [['ps_data', 0, col3], ['derive'], ['objs', 'h']],
        [['ps_data_inplace', 0, n - 1, [cols[0][n - 1][0] - 1, cols[0][n - 1][1] + 2]]],  # ps.data[g] = (a, b)
        [['ps_item', 0, col2]],                                    # K.pattern_structures[0] = IntervalPS(...)
        [['objs_inplace', 0, 'hh']],                               # K.object_names[0] = 'hh' (the list is aliased)
        [['attrs_inplace', 0, 'bb']],
        [['ps_name', 0, 'zz']],                                    # ps.name = ... (read-only: refused, nothing changes)
        [['objs_inplace', n - 1, 'hh'], ['derive'], ['ps_item', 0, col3], ['derive'], ['attrs', 'b']],
    ]


def _phistory_scripts_h4(cols, objs0, attrs0):
    """(H4) many-valued edits that keep a hash a memo could be validated by: Python's hash() of the pattern structure /
    the context (interval ends -1 <-> -2: hash(-1.0) == hash(-2.0)), and zlib.adler32 of the rendering (colliding
    names; +1/-2/+1 on one-digit interval ends of three consecutive objects).  Each emitted script is checked here."""
    n = len(cols[0])
    out = []
    ref0 = _ref_mv(objs0, attrs0, cols)
    for j, col in enumerate(cols):
        swapped = [[G.pyhash_collide_value(a) if G.pyhash_collide_value(a) is not None else a,
                    G.pyhash_collide_value(b) if G.pyhash_collide_value(b) is not None else b] for a, b in col]
        swapped = [[min(a, b), max(a, b)] for a, b in swapped]
        if swapped != [list(v) for v in col] and \
                hash(tuple((float(a), float(b)) for a, b in swapped)) == hash(tuple((float(a), float(b)) for a, b in col)):
            out.append([['ps_data', j, swapped, 'pyhash']])
            out.append([['ps_data_inplace', j, g, swapped[g], 'pyhash'] for g in range(n) if swapped[g] != list(col[g])][:1])
            out.append([['ps_item', j, swapped, 'pyhash'], ['derive'], ['ps_data', j, [list(v) for v in col]]])
            break
    oc = _collide_names(objs0)
    if oc is not None and _ref_mv(oc, attrs0, cols) == ref0:
        out.append([['objs_names', oc, 'collide']])
        out.append([['objs_inplace', 0, oc[0], 'collide']])
    for j, col in enumerate(cols):                   # adler32-colliding column: (+1, -2, +1) on three equally spaced digits
        done = False
        for g in range(n - 2):
            for e in (0, 1):
                for sg in (1, -1):
                    new = [list(v) for v in col]
                    new[g][e] += sg
                    new[g + 1][e] -= 2 * sg
                    new[g + 2][e] += sg
                    cols2 = [new if jj == j else [list(v) for v in cc] for jj, cc in enumerate(cols)]
                    if all(0 <= a <= b <= 9 for a, b in new) and all(0 <= a <= b <= 9 for a, b in col) \
                            and new != [list(v) for v in col] and _ref_mv(objs0, attrs0, cols2) == ref0:
                        out.append([['ps_data', j, new, 'collide']])
                        out.append([['ps_item', j, new, 'collide'], ['derive'], ['ps_data', j, [list(v) for v in col]]])
                        done = True
                        break
                if done:
                    break
            if done:
                break
        if done:
            break
    return [s for s in out if s]


def _cross_case(rows, rows2, be, stream, objs2=None):
    return dict(kind='cross', stream=stream, be=be, rows=rows, rows2=rows2, objs2=objs2)


def _setattr_cases():
    # delete-then-assign: `del c.key` followed by `c.key = ...` must not re-assign a defining field (D20, fixed f9d3226)
    for key in FORMAL_KEYS:
        yield dict(kind='setattr', stream='delete-then-assign', ckind='formal', key=key, src='from_objects', mode='del-assign')
    for key in PATTERN_KEYS:
        yield dict(kind='setattr', stream='delete-then-assign', ckind='pattern', key=key, src='from_objects', mode='del-assign')
    for key in FORMAL_KEYS:
        for src in ('from_objects', 'miner', 'direct', 'monotone'):
            yield dict(kind='setattr', stream='exhaustive-setattr', ckind='formal', key=key, src=src)
    for key in PATTERN_KEYS:
        for src in ('from_objects', 'miner'):
            yield dict(kind='setattr', stream='exhaustive-setattr', ckind='pattern', key=key, src=src)


GRID_IV = [[a, b] for a in range(3) for b in range(a, 3)]


def _pcases(cols, stream, fo=None, cols2=None, do_from=True):
    n = len(cols[0])
    yield dict(kind='porder', stream=stream, cols=cols, cols2=cols2, miners=list(PMINERS),
               fo=_fo_all(n) if fo is None else fo)
    if do_from:
        sels = G.ordered_sublists(range(n)) if fo is None else [f[0] for f in fo]
        for sel in sels:
            for by_name in (0, 1):
                for ie in (0, 1):
                    yield dict(kind='pfrom', stream=stream, cols=cols, sel=sel, by_name=by_name, is_extent=ie, is_monotone=0)
        # the same object set written with repetitions / handed over as a one-shot iterable or a set
        reps = list(_repeated_sels(n, min(n + 1, 3))) if fo is None else []
        for k, sel in enumerate(reps):
            yield dict(kind='pfrom', stream=stream.replace('exhaustive-pattern', 'repeated-pattern'), cols=cols, sel=sel,
                       by_name=k % 2, is_extent=0, is_monotone=0, argform=ARGFORMS[k % 5])


def _random_cols(rng, nmax, kmax):
    n, k = rng.randint(1, nmax), rng.randint(1, kmax)
    hi = rng.choice((2, 4, 9))
    cols = []
    for _ in range(k):
        col = []
        for _g in range(n):
            a = rng.randint(0, hi)
            b = a if rng.random() < 0.4 else rng.randint(a, hi)
            col.append([a, b])
        cols.append(col)
    return cols


def _malformed(rows, be, rng):
    n, m = len(rows), len(rows[0])
    base = dict(kind='from_objects', stream='malformed', be=be, rows=rows, objs=OBJ[:n], attrs=ATT[:m], is_monotone=0)
    sel = G.random_sel(rng, n)
    # unknown name
    yield dict(base, sel=sel, by_name=1, is_extent=rng.randint(0, 1), extra_name=rng.choice(['zz', '', 'm0']),
               extra_pos=rng.randint(0, len(sel)))
    # is_monotone=True is refused
    yield dict(base, sel=sel, by_name=rng.randint(0, 1), is_extent=rng.randint(0, 1), is_monotone=1)
    # duplicated objects in the argument
    if sel:
        dup = list(sel)
        dup.insert(rng.randint(0, len(dup)), rng.choice(sel))
        yield dict(base, sel=dup, by_name=rng.randint(0, 1), is_extent=1)
        yield dict(base, stream='repeated', sel=dup, by_name=rng.randint(0, 1), is_extent=0,
                   argform=rng.choice(ARGFORMS[:5]))
    # duplicated object names in the context: list.index takes the FIRST occurrence
    if n > 1:
        objs = list(OBJ[:n])
        i, j = rng.sample(range(n), 2)
        objs[j] = objs[i]
        yield dict(base, objs=objs, sel=sel, by_name=1, is_extent=rng.randint(0, 1))


# (H8/H3) directed large cases.  Objects fall into value groups 0..G-1 (group sizes chosen so that the cumulated sizes
# cross 64/65, 128/129, 512/520 and small groups of 1, 7, 8, 9, 16 objects sit next to huge ones); the formal context is
# the interordinal scaling (attributes "v <= k", "v >= k"), the many-valued one a single IntervalPS column of the point
# values: in both the concepts are exactly the value intervals [a, b] (plus the empty one), so supports 1 vs 64,
# 8 vs 64, 8 vs 65, 16 vs 128, 8 vs 512, 64 vs 512 ... all occur, nested, disjoint and overlapping.  The objects of a
# group are scattered over the index range (shuffled assignment), so a listing order matters.
BIG_GROUPS = (
    [1, 7, 56],                     # 64 objects: the top concept sits exactly on the threshold
    [1, 7, 56, 1],                  # 65
    [1, 7, 55, 1, 1, 8],            # 73: 63 / 64 / 65 cumulated, 8 disjoint
    [8, 8, 48, 1, 63, 1],           # 129: 8, 16, 64, 65, 128, 129
    [1, 7, 56, 1, 447, 8],          # 520: 1, 8, 64, 65, 512, 520
    [9, 55, 8, 457, 64, 2],         # 595: 9 vs 64 (ratio just below 8), 72, 529, 593, 595; 64 disjoint from 529
)


def _big_vals(rng, groups):
    vals = [v for v, k in enumerate(groups) for _ in range(k)]
    rng.shuffle(vals)
    return vals


def _random_groups(rng):
    s = rng.choice((1, 2, 7, 8, 9, 16, 17))
    big = max(64, 8 * s) + rng.choice((-1, 0, 1))
    return [s, big - s, rng.choice((1, 2)), rng.randint(1, 70), rng.choice((1, 8))]


def _big_cases(rng, tier):
    k = 0
    lists = [list(g) for g in BIG_GROUPS] + [_random_groups(rng) for _ in range(2 if tier == 'quick' else 8)]
    for groups in lists:
        vals = _big_vals(rng, groups)
        n = len(vals)
        for variant in ('anti', 'mono'):
            yield dict(kind='bigorder', stream='size-gated', be=BACKENDS[k % 3], vals=vals, variant=variant,
                       seed=rng.randrange(1 << 30))
            k += 1
        yield dict(kind='bigporder', stream='size-gated-pattern', vals=_big_vals(rng, groups), seed=rng.randrange(1 << 30))
        # from_objects on the same shapes: shuffled / repeated selections that reach beyond index 64, 128, 512
        rows = _big_rows(vals)
        objs, attrs = OBJ[:n], ATT[:len(rows[0])]
        grp = [g for g in range(n) if vals[g] <= 1]
        rng.shuffle(grp)
        sels = [grp, [n - 1, 0, n - 1, 63 % n, 64 % n], rng.sample(range(n), min(n, 70))]
        for j, sel in enumerate(sels):
            for ie in ((0, 1) if len(set(sel)) == len(sel) else (0,)):
                yield dict(kind='from_objects', stream='size-gated', be=BACKENDS[(k + j) % 3], rows=rows, objs=objs,
                           attrs=attrs, sel=sel, by_name=(j + ie) % 2, is_extent=ie, is_monotone=0,
                           argform=ARGFORMS[(k + j) % 5])
                yield dict(kind='pfrom', stream='size-gated-pattern', cols=[[[v, v] for v in vals]], sel=sel,
                           by_name=(j + ie + 1) % 2, is_extent=ie, is_monotone=0, argform=ARGFORMS[(k + j + 1) % 5])


def _big_rows(vals):
    G_ = max(vals) + 1
    return [[int(v <= k) for k in range(G_)] + [int(v >= k) for k in range(G_)] for v in vals]


def _corpus():
    d = os.path.join(os.path.dirname(os.path.dirname(os.path.dirname(os.path.abspath(__file__)))), 'corpus', 'C08')
    for p in sorted(glob.glob(os.path.join(d, '*.json'))):
        try:
            c = json.load(open(p))
            c = c.get('case', c)
            c['stream'] = 'corpus'
            yield c
        except Exception:
            continue


def _h4_cases(rng, tier):
    """(H1/H4) directed histories: hash-preserving edits (adler32-colliding tables / names, -1 <-> -2) through every
    route, on contexts large enough for collisions to exist"""
    cnt = 24 if tier == 'quick' else 120
    for k in range(cnt):
        n, m = rng.choice(((2, 3), (3, 3), (3, 4), (2, 4), (3, 2)))
        rows = G.random_table(rng, n, m, nmin=n, mmin=m)
        objs0, attrs0 = ['bdb%d' % i for i in range(n)], ['mdm%d' % j for j in range(m)]
        for script in _history_scripts_h4(rows, objs0, attrs0):
            yield _history_case(rows, BACKENDS[k % 3], 'history-h4', script,
                                _fo_random(rng, n, 2) + [[list(range(n)), 0, 0], [[0], 1, 0]],
                                _fo_random(rng, n, 2) + [[[0], 1, 0], [list(range(n))[::-1], 0, 0]], objs0, attrs0)
    for k in range(cnt):
        n, kk = rng.choice((3, 3, 4)), rng.choice((1, 1, 2))
        lo = rng.choice((-2, 0))               # -2: ends in {-2..1} (Python-hash twins -1 / -2); 0: one-digit ends (adler32)
        cols = []
        for _ in range(kk):
            col = []
            for _g in range(n):
                a = rng.randint(lo, lo + 3)
                col.append([a, rng.randint(a, lo + 4)])
            cols.append(col)
        objs0, attrs0 = ['bdb%d' % i for i in range(n)], ATT[:kk]
        for script in _phistory_scripts_h4(cols, objs0, attrs0):
            yield dict(kind='phistory', stream='history-pattern-h4', cols=cols, script=script, objs0=objs0,
                       fo1=_fo_random(rng, n, 2) + [[list(range(n)), 0, 0], [[0], 1, 0]],
                       fo2=_fo_random(rng, n, 2) + [[[0], 1, 0], [list(range(n))[::-1], 0, 0]])


def gen(tier, seed, boost=False):
    """corpus and the frozen-field cases first; then the ordinary streams with the few expensive directed cases
    (size-gated shapes, hash-preserving histories) spread evenly between them (they would otherwise fill one chunk)"""
    rng2 = random.Random(seed * 7919 + 88)
    directed = list(_big_cases(rng2, tier)) + list(_h4_cases(rng2, tier))
    slow = [c for c in directed if c['kind'] in ('bigorder', 'bigporder')]
    fast = [c for c in directed if c['kind'] not in ('bigorder', 'bigporder')]
    k = 0
    for c in _gen_base(tier, seed, boost):
        yield c
        k += 1
        if k % 150 == 0 and slow:
            yield slow.pop(0)
        if k % 20 == 0 and fast:
            yield fast.pop(0)
    yield from slow
    yield from fast


def _gen_base(tier, seed, boost=False):
    rng = random.Random(seed * 1000003 + 808)
    yield from _corpus()
    yield from _setattr_cases()
    # ---- exhaustive small scope -------------------------------------------------------------------
    for rows in G.tables_upto(3, 3):
        n = len(rows)
        rot = BACKENDS[(sum(map(sum, rows)) + n) % 3]
        for be in BACKENDS:
            yield _order_case(rows, be, 'exhaustive', _fo_all(n) + _fo_repeated(n),
                              paths=('lattice', 'json') if be == rot else ())
            yield from _from_cases(rows, be, 'exhaustive', list(G.ordered_sublists(range(n))))
        # (H2/H3) the same object set written down differently: repetitions, one-shot iterables, sets
        yield from _from_cases(rows, rot, 'repeated', list(_repeated_sels(n, min(n + 1, 3))), extents=(0,),
                               forms=ARGFORMS[:5])
        yield from _from_cases(rows, rot, 'argforms', list(G.ordered_sublists(range(n))),
                               forms=ARGFORMS[1:])
    small = list(G.tables_upto(2, 2))
    # (H1) derive - mutate the context through public setters - derive again; compare across and within
    for i, r1 in enumerate(small):
        n1 = len(r1)
        for k, script in enumerate(_history_scripts(r1)):
            for be in BACKENDS:
                fo1 = [[list(range(n1)), 0, 0], [[0], 1, 0], [[], 0, 0], [[n1 - 1], 0, 1]]
                fo2 = [[[0], 0, 0], [list(range(n1))[::-1], 1, 0], [[], 1, 0], [[n1 - 1], 1, 1]]
                yield _history_case(r1, be, 'history', script, fo1, fo2)
    for k in range(180):
        rows = G.random_table(rng, 4, 4, nmin=2)
        n1 = len(rows)
        scripts = _history_scripts(rows)
        yield _history_case(rows, BACKENDS[k % 3], 'history', scripts[k % len(scripts)],
                            _fo_random(rng, n1, 3) + [[list(range(n1)), 0, 0]], _fo_random(rng, n1, 4) + [[[0], 1, 0]])
    for i, r1 in enumerate(small):
        for j, r2 in enumerate(small):
            if i != j:
                yield _cross_case(r1, r2, BACKENDS[(i + j) % 3], 'exhaustive-cross')
        # same table, other object names: a different context
        yield _cross_case(r1, r1, BACKENDS[i % 3], 'exhaustive-cross', objs2=['h%d' % k for k in range(len(r1))])
    for n in (1, 2, 3):
        for col in itertools.product(GRID_IV, repeat=n):
            yield from _pcases([list(col)], 'exhaustive-pattern')
    for n in (1, 2):
        for col in itertools.product(GRID_IV, repeat=n):
            cols = [[list(v) for v in col]]
            for script in _phistory_scripts(cols):
                yield dict(kind='phistory', stream='history-pattern', cols=cols, script=script,
                           fo1=[[list(range(n)), 0, 0], [[0], 1, 0], [[], 0, 0]],
                           fo2=[[[0], 0, 0], [list(range(n))[::-1], 1, 0], [[n - 1], 1, 1]])
    for k in range(128):
        cols = _random_cols(rng, 4, 2)
        n = len(cols[0])
        scripts = _phistory_scripts(cols)
        yield dict(kind='phistory', stream='history-pattern', cols=cols, script=scripts[k % len(scripts)],
                   fo1=_fo_random(rng, n, 3) + [[[0], 0, 0]], fo2=_fo_random(rng, n, 3) + [[[0], 1, 0]])
    # pattern cross-context: every pair of distinct 2-object one-column contexts
    two = [[list(c)] for c in itertools.product(GRID_IV, repeat=2)]
    for i, c1 in enumerate(two):
        for j, c2 in enumerate(two):
            if i < j and (i + j) % 3 == 0:
                yield dict(kind='porder', stream='exhaustive-pattern-cross', cols=c1, cols2=c2, miners=['close_by_one'],
                           fo=_fo_all(2))
    # ---- seeded random larger cases ---------------------------------------------------------------
    nrand = 300 if tier == 'quick' else 2500
    if boost:
        nrand *= 3
    big = 6 if tier == 'quick' else 8
    for k in range(nrand):
        rows = G.random_table(rng, big, big)
        n = len(rows)
        be = BACKENDS[k % 3]
        yield _order_case(rows, be, 'random', _fo_random(rng, n, 24))
        yield from _from_cases(rows, be, 'random', [G.random_sel(rng, n) for _ in range(4)])
        rows2 = G.random_table(rng, big, big)
        if rows2 != rows:
            yield _cross_case(rows, rows2, be, 'random-cross')
        for bb in BACKENDS:
            yield from _malformed(rows, bb, rng)
        yield from _from_cases(rows, be, 'repeated', [_random_repeated(rng, n) for _ in range(2)], extents=(0,),
                               forms=[ARGFORMS[(k + j) % 5] for j in range(4)])
        if k % 3 == 0:
            # (H3) shape extremes: two-digit object indexes, more than 64 attributes
            wn, wm = rng.randint(13, 16), rng.choice((2, 5, 65, 70))
            wide = G.random_table(rng, wn, wm, nmin=wn, mmin=wm)
            wb = BACKENDS[(k // 3) % 3]
            wsel = [G.random_sel(rng, wn) for _ in range(3)] + [[wn - 1, 10, 1], [11, 1, 10]]
            yield from _from_cases(wide, wb, 'wide', wsel, forms=ARGFORMS[:5])
            yield from _from_cases(wide, wb, 'wide', [_random_repeated(rng, wn)], extents=(0,))
            yield _order_case(wide, wb, 'wide', _fo_random(rng, wn, 16) + [[_random_repeated(rng, wn), k % 2, 0]], cap=12)
        if k % 2 == 0:
            cols = _random_cols(rng, 5, 3)
            npc = len(cols[0])
            for j in range(2):
                yield dict(kind='pfrom', stream='repeated-pattern', cols=cols, sel=_random_repeated(rng, npc),
                           by_name=j, is_extent=0, is_monotone=0, argform=ARGFORMS[(k + j) % 5])
            cols2 = _random_cols(rng, 5, 3) if k % 4 == 0 else None
            if cols2 == cols:
                cols2 = None
            yield from _pcases(cols, 'random-pattern', fo=_fo_random(rng, npc, 10), cols2=cols2)

    # ---- larger exhaustive scope (thorough tier, or a boosted run); after the random stream so that rare
    # ---- streams are reached early
    if tier == 'thorough' or boost:
        for rows in G.tables_upto(4, 4, cells=12 if tier == 'thorough' else 8):
            n = len(rows)
            if n <= 3 and len(rows[0]) <= 3:
                continue
            for be in BACKENDS:
                if tier != 'thorough' and be != BACKENDS[(sum(map(sum, rows)) + n) % 3]:
                    continue            # boosted quick run (drift / failed proof): one backend per table
                yield _order_case(rows, be, 'exhaustive-large', _fo_all(n))
                if be == BACKENDS[(sum(map(sum, rows)) + n) % 3]:
                    yield from _from_cases(rows, be, 'exhaustive-large', list(G.ordered_sublists(range(n))))
        for c1 in itertools.product(GRID_IV, repeat=2 if tier == 'thorough' else 1):
            for c2 in itertools.product(GRID_IV, repeat=2 if tier == 'thorough' else 1):
                yield from _pcases([list(c1), list(c2)], 'exhaustive-pattern2')


# ------------------------------------------------------------------------------------------- implementation side

def _miner(name):
    from fcapy.algorithms import concept_construction as cc
    return getattr(cc, name)


def _cmp(op, a, b):
    try:
        v = op(a, b)
        if v is True:
            return 1
        if v is False:
            return 0
        return 'non-bool:' + repr(v)[:30]
    except Exception as e:
        nm = type(e).__name__
        base = EXPECTED_BASE.get(nm)
        if base is not None and not isinstance(e, base):
            nm += '!base'
        return nm


def _matrices(pool):
    import operator
    out = {}
    for nm, op in (('eq', operator.eq), ('ne', operator.ne), ('le', operator.le), ('lt', operator.lt)):
        out[nm] = [[_cmp(op, a, b) for b in pool] for a in pool]
    hs = []
    for a in pool:
        try:
            hs.append(int(hash(a)))
        except Exception as e:
            hs.append('err:' + type(e).__name__)
    out['hash'] = hs
    return out


def _dedupe(items, keyf):
    """One representative per distinct tuple of defining fields (all sources recorded).  Every further object with
    the same fields is compared with its representative on the spot: it must be ==, <=, >=, not <, and hash equally."""
    import operator
    seen, pool, srcs, bad = {}, [], [], []
    for src, c in items:
        k = keyf(c)
        if k in seen:
            i = seen[k]
            if src not in srcs[i]:
                srcs[i].append(src)
            p = pool[i]
            got = [_cmp(operator.eq, c, p), _cmp(operator.ne, c, p), _cmp(operator.le, c, p), _cmp(operator.le, p, c),
                   _cmp(operator.lt, c, p), int(hash(c) == hash(p))]
            if got != [1, 0, 1, 1, 0, 1] and len(bad) < 3:
                bad.append(f'{src}{list(c.extent_i)} vs {srcs[i][0]}{list(p.extent_i)}: [==,!=,<=,>=,<,hash==] = {got}')
            continue
        seen[k] = len(pool)
        pool.append(c)
        srcs.append([src])
    return pool, srcs, bad


def _fkey(c):
    return (tuple(c.extent_i), tuple(c.intent_i), c.context_hash, bool(c.is_monotone))


def _formal_items(K, miners, fo, tag='', cap=None, paths=()):
    from fcapy.lattice.formal_concept import FormalConcept
    items = []
    for mn in miners:
        it = _miner(mn)(K)
        for c in (itertools.islice(it, cap) if cap else it):
            items.append((tag + mn, c))
    names = list(K.object_names)
    for sel, by_name, ie in fo:
        arg = [names[i] for i in sel] if by_name else list(sel)
        items.append((tag + 'from_objects', FormalConcept.from_objects(arg, K, is_extent=bool(ie))))
    if 'lattice' in paths:
        from fcapy.lattice import ConceptLattice
        for c in ConceptLattice.from_context(K):                      # default algorithm (Lindig)
            items.append((tag + 'lattice', c))
        for c in ConceptLattice.from_context(K, algo='CbO'):
            items.append((tag + 'lattice-cbo', c))
    if 'json' in paths:
        for src, c in list(items[:4]) + list(items[-3:]):
            js = c.write_json(list(K.object_names), list(K.attribute_names))
            items.append((tag + 'read_json', FormalConcept.read_json(json_data=js)))
    return items


def _pool_out(pool, srcs, bad, pattern):
    recs = []
    for c, s in zip(pool, srcs):
        recs.append(dict(e=ints(c.extent_i), h=None if c.context_hash is None else int(c.context_hash),
                         m=False if pattern else bool(c.is_monotone), src=s[0], srcs=s))
    out = dict(pool=recs, twins_bad=bad)
    out.update(_matrices(pool))
    return out


def _mvcontext(cols, objs=None):
    from fcapy.mvcontext import MVContext, PS
    n, k = len(cols[0]), len(cols)
    data = [[tuple(cols[j][g]) for j in range(k)] for g in range(n)]
    attrs = ATT[:k]
    return MVContext(data=data, pattern_types={a: PS.IntervalPS for a in attrs},
                     object_names=list(objs) if objs is not None else OBJ[:n], attribute_names=attrs)


def _pkey(c):
    return (tuple(c.extent_i), tuple(sorted((int(k), v) for k, v in c.intent_i.items())), c.context_hash)


def _pattern_items(K, miners, fo, tag=''):
    from fcapy.lattice.pattern_concept import PatternConcept
    items = []
    for mn in miners:
        for c in _miner(mn)(K):
            items.append((tag + mn, c))
    names = list(K.object_names)
    for sel, by_name, ie in fo:
        arg = [names[i] for i in sel] if by_name else list(sel)
        items.append((tag + 'from_objects', PatternConcept.from_objects(arg, K, is_extent=bool(ie))))
    return items


def _pfields(x, K, k):
    ii = [None if x.intent_i[j] is None else [_num(x.intent_i[j][0]), _num(x.intent_i[j][1])] for j in range(k)]
    names_ok = [x.intent[a] == x.intent_i[j] for j, a in enumerate(K.attribute_names)]
    return {'ok': dict(extent_i=ints(x.extent_i), extent=[str(s) for s in x.extent], intent_i=ii,
                       context_hash=None if x.context_hash is None else int(x.context_hash)),
            'support': int(x.support), 'intent_names_ok': bool(all(names_ok)) and len(x.intent) == k}


def _ffields(x):
    return dict(extent_i=ints(x.extent_i), extent=[str(s) for s in x.extent], intent_i=ints(x.intent_i),
                intent=[str(s) for s in x.intent], context_hash=None if x.context_hash is None else int(x.context_hash),
                is_monotone=bool(x.is_monotone))


def _history_out(items, derived, pattern):
    """pool of a history case: one representative per (phase, defining fields).  Per concept: `h` = the context_hash it
    carries; `cid` = which CONTENT (names + table, as recorded by the harness) it was derived from; `ref` = what the
    unchanged library's hash_fixed() is for that content (adler32 of its rendering, computed here, independent of
    every object of the library); `fh` = hash_fixed() of a FRESH context object built from that content."""
    keyf = _pkey if pattern else _fkey
    tagged = [(src, c) for src, c, ph, ident in items]
    meta = {id(c): (ph, ident) for src, c, ph, ident in items}
    pool, srcs, bad = _dedupe(tagged, lambda c: (meta[id(c)][0],) + keyf(c))
    out = _pool_out(pool, srcs, bad, pattern)
    for rec, c in zip(out['pool'], pool):
        rec['phase'], (rec['cid'], rec['ref'], rec['fh']) = meta[id(c)]
    out['derived'] = derived
    return out


class _Contents:
    """the distinct contents a history passes through: content -> (cid, ref, fh)"""

    def __init__(self, fresh, ref):
        self.seen, self.fresh, self.ref = {}, fresh, ref

    def ident(self, st):
        key = json.dumps(st, sort_keys=True)
        if key not in self.seen:
            self.seen[key] = (len(self.seen), int(self.ref(st)), int(self.fresh(st).hash_fixed()))
        return self.seen[key]


def _flip_cell(K, be, i, j, v):
    """in-place edit of the storage `K.data.data` hands out (no setter of any object is involved)"""
    d = K.data.data
    if be == 'BinTableNumpy':
        d[i, j] = bool(v)
    elif be == 'BinTableBitarray':
        from bitarray import frozenbitarray
        row = [bool(x) for x in d[i]]
        row[j] = bool(v)
        d[i] = frozenbitarray(row)
    else:
        d[i][j] = bool(v)


def _history_impl(c):
    """(H1/H4) one FormalContext OBJECT: derive concepts, change the content through a public route (own setters,
    the setter / the storage of the contained BinTable), derive again (also at every ['derive'] step); finally derive
    from a freshly built context with the final content."""
    from fcapy.context import FormalContext
    from fcapy.lattice.formal_concept import FormalConcept
    be = c['be']
    rows = [list(r) for r in c['rows']]
    n, m = len(rows), len(rows[0])
    st = dict(rows=rows, objs=list(c.get('objs0') or OBJ[:n]), attrs=list(c.get('attrs0') or ATT[:m]))

    def fresh(s):
        return FormalContext(data=[[bool(v) for v in r] for r in s['rows']], object_names=list(s['objs']),
                             attribute_names=list(s['attrs']), backend=be)
    contents = _Contents(fresh, lambda s: _ref_formal(s['objs'], s['attrs'], s['rows']))
    K = fresh(st)
    items, derived, notes = [], [], []

    def derive(Kx, fo, phase, extra):
        ident = contents.ident(st)
        first = None
        for sel, by_name, ie in fo:
            arg = [st['objs'][i] for i in sel] if by_name else list(sel)
            x = FormalConcept.from_objects(arg, Kx, is_extent=bool(ie))
            first = first or x
            items.append((f'P{phase}:from_objects', x, phase, ident))
            derived.append(dict(phase=phase, sel=list(sel), arg_order=list(arg), by_name=by_name, is_extent=ie, h=ident[2], ok=_ffields(x),
                                rows=[list(r) for r in st['rows']], objs=list(st['objs']), attrs=list(st['attrs'])))
        for mn in extra:
            for x in _miner(mn)(Kx):
                items.append((f'P{phase}:{mn}', x, phase, ident))
        if first is not None:      # written down by hand with the context's own hash, as the library's tests do
            items.append((f'P{phase}:hand-built', FormalConcept(first.extent_i, first.extent, first.intent_i, first.intent,
                                                                context_hash=Kx.hash_fixed()), phase, ident))

    phase = 0
    derive(K, c['fo1'], 0, ['close_by_one'])
    for step in c['script']:
        op = step[0]
        if op == 'objs':
            st['objs'] = [step[1] + str(i) for i in range(n)]
            K.object_names = list(st['objs'])
        elif op == 'attrs':
            st['attrs'] = [step[1] + str(j) for j in range(m)]
            K.attribute_names = list(st['attrs'])
        elif op == 'objs_names':
            st['objs'] = list(step[1])
            K.object_names = list(st['objs'])
        elif op == 'attrs_names':
            st['attrs'] = list(step[1])
            K.attribute_names = list(st['attrs'])
        elif op == 'data':
            st['rows'] = [list(r) for r in step[1]]
            K.data.data = [[bool(v) for v in r] for r in st['rows']]
        elif op == 'data_inplace':
            i, j = step[1], step[2]
            st['rows'][i][j] = 1 - st['rows'][i][j]
            _flip_cell(K, be, i, j, st['rows'][i][j])
        elif op == 'ctx_data':
            try:
                K.data = [[bool(v) for v in r] for r in step[1]]
                st['rows'] = [list(r) for r in step[1]]
                notes.append('ctx_data:accepted')
            except AttributeError:
                notes.append('ctx_data:refused')
        elif op == 'description':
            K.description = step[1]
        elif op == 'derive':
            phase += 1
            derive(K, c['fo2'], phase, ['close_by_one_objectwise'])
    phase += 1
    derive(K, c['fo2'], phase, ['lindig_algorithm', 'close_by_one_objectwise'])
    derive(fresh(st), c['fo2'][:2], phase + 1, [])
    out = _history_out(items, derived, False)
    out['notes'] = notes
    return out


def _phistory_impl(c):
    """(H1/H4) the same for one MVContext object with IntervalPS columns: own setters, the `data` setter of a contained
    pattern structure, and the containers the getters hand out (object_names, pattern_structures, ps.data)"""
    from fcapy.mvcontext import MVContext, PS
    from fcapy.lattice.pattern_concept import PatternConcept
    cols = [[list(v) for v in col] for col in c['cols']]
    n, k = len(cols[0]), len(cols)
    st = dict(cols=cols, objs=list(c.get('objs0') or OBJ[:n]), attrs=ATT[:k])

    def fresh(s):
        return MVContext(data=[[tuple(s['cols'][j][g]) for j in range(k)] for g in range(n)],
                         pattern_types={a: PS.IntervalPS for a in s['attrs']}, object_names=list(s['objs']),
                         attribute_names=list(s['attrs']))
    contents = _Contents(fresh, lambda s: _ref_mv(s['objs'], s['attrs'], s['cols']))
    K = fresh(st)
    items, derived, notes = [], [], []

    def derive(Kx, fo, phase, extra):
        ident = contents.ident(st)
        first = None
        for sel, by_name, ie in fo:
            arg = [st['objs'][i] for i in sel] if by_name else list(sel)
            x = PatternConcept.from_objects(arg, Kx, is_extent=bool(ie))
            first = first or x
            items.append((f'P{phase}:from_objects', x, phase, ident))
            d = _pfields(x, Kx, k)
            d.update(phase=phase, sel=list(sel), by_name=by_name, is_extent=ie, h=ident[2],
                     cols=[[list(v) for v in col] for col in st['cols']], objs=list(st['objs']))
            derived.append(d)
        for mn in extra:
            for x in _miner(mn)(Kx):
                items.append((f'P{phase}:{mn}', x, phase, ident))
        if first is not None:
            items.append((f'P{phase}:hand-built',
                          PatternConcept(first.extent_i, first.extent, first.intent_i, first.intent, Kx.pattern_types,
                                         Kx.attribute_names, context_hash=Kx.hash_fixed()), phase, ident))

    phase = 0
    derive(K, c['fo1'], 0, ['close_by_one'])
    for step in c['script']:
        op = step[0]
        if op == 'objs':
            st['objs'] = [step[1] + str(i) for i in range(n)]
            K.object_names = list(st['objs'])
        elif op == 'objs_names':
            st['objs'] = list(step[1])
            K.object_names = list(st['objs'])
        elif op == 'objs_inplace':
            st['objs'][step[1]] = step[2]
            K.object_names[step[1]] = step[2]
        elif op == 'attrs':
            st['attrs'] = [step[1] + str(j) for j in range(k)]
            K.attribute_names = list(st['attrs'])
        elif op == 'attrs_inplace':
            st['attrs'] = list(st['attrs'])
            st['attrs'][step[1]] = step[2]
            K.attribute_names[step[1]] = step[2]
        elif op == 'ps_data':
            st['cols'][step[1]] = [list(v) for v in step[2]]
            K.pattern_structures[step[1]].data = [tuple(v) for v in step[2]]
        elif op == 'ps_data_inplace':
            j, g, v = step[1], step[2], step[3]
            st['cols'][j][g] = list(v)
            K.pattern_structures[j].data[g] = (float(v[0]), float(v[1]))
        elif op == 'ps_item':
            st['cols'][step[1]] = [list(v) for v in step[2]]
            K.pattern_structures[step[1]] = PS.IntervalPS([tuple(v) for v in step[2]],
                                                          name=K.pattern_structures[step[1]].name)
        elif op == 'ps_name':
            try:
                K.pattern_structures[step[1]].name = step[2]
                notes.append('ps_name:accepted')
            except AttributeError:
                notes.append('ps_name:refused')
        elif op == 'pattern_structures':
            st['cols'] = [[list(v) for v in col] for col in step[1]]
            K.pattern_structures = [PS.IntervalPS([tuple(v) for v in col], name=K.pattern_structures[j].name)
                                    for j, col in enumerate(st['cols'])]
        elif op == 'derive':
            phase += 1
            derive(K, c['fo2'], phase, ['sofia'])
    phase += 1
    derive(K, c['fo2'], phase, ['close_by_one_objectwise'])
    derive(fresh(st), c['fo2'][:2], phase + 1, [])
    out = _history_out(items, derived, True)
    out['notes'] = notes
    return out


def _listings(rng, t):
    """the listing orders of one object set: descending, two independent shuffles, a rotation (ascending runs)"""
    t = sorted(t)
    s1, s2 = list(t), list(t)
    rng.shuffle(s1)
    rng.shuffle(s2)
    r = rng.randrange(len(t)) if t else 0
    return dict(asc=t, desc=t[::-1], shuf=s1, shuf2=s2, rot=t[r:] + t[:r])


def _big_targets(rng, vals):
    """object sets (ascending) to be listed in every order: the value intervals on the thresholds, plus two sets that are
    NOT closed (8 objects inside the largest proper interval; 7 inside + 1 outside) for the near-miss answers"""
    G_ = max(vals) + 1
    ivs = [(0, b) for b in range(G_)] + [(G_ - 1, G_ - 1)] + ([(1, 1), (1, G_ - 1)] if G_ > 2 else [])
    out = []
    for a, b in ivs:
        t = [g for g, v in enumerate(vals) if a <= v <= b]
        if t and t not in out:
            out.append(t)
    big = [g for g, v in enumerate(vals) if v <= G_ - 2]
    rest = [g for g, v in enumerate(vals) if v > G_ - 2]
    if len(big) >= 8 and rest:
        inside = rng.sample(big, 8)
        out.append(sorted(inside))
        out.append(sorted(inside[:7] + [rng.choice(rest)]))
    return out


def _bigorder_impl(c):
    """(H8/H3) one large FormalContext; every way the library produces or accepts a concept, with the extent listed in
    every order; all of ==, !=, <=, <, hash on all ordered pairs"""
    from fcapy.context import FormalContext
    from fcapy.lattice.formal_concept import FormalConcept
    from fcapy.lattice import ConceptLattice
    rng = random.Random(c['seed'])
    vals = c['vals']
    n = len(vals)
    rows = _big_rows(vals)
    names, attrs = OBJ[:n], ATT[:len(rows[0])]
    K = FormalContext(data=[[bool(v) for v in r] for r in rows], object_names=list(names), attribute_names=list(attrs),
                      backend=c['be'])
    h = K.hash_fixed()
    mono = c['variant'] == 'mono'
    skip = set(c.get('drop', ()))
    items = []

    def add(src, x):
        if src.split(':')[0] not in skip:
            items.append((src, x))

    def js(order, intent_i, is_mono):
        return json.dumps({'Ext': {'Inds': list(order), 'Names': [names[g] for g in order], 'Count': len(order)},
                           'Int': {'Inds': list(intent_i), 'Names': [attrs[j] for j in intent_i], 'Count': len(intent_i)},
                           'Supp': len(order), 'Context_Hash': h, 'Monotone': is_mono})

    if not mono:
        for mn in MINERS:
            for x in _miner(mn)(K):
                add(mn, x)
        for x in ConceptLattice.from_context(K):
            add('lattice', x)
        for x in ConceptLattice.from_context(K, algo='CbO'):
            add('lattice-cbo', x)
    else:
        for x in ConceptLattice.from_context(K, is_monotone=True):
            add('lattice-monotone', x)
    for t in _big_targets(rng, vals):
        ls = _listings(rng, t)
        made = [('from_objects:is_extent:desc', FormalConcept.from_objects(ls['desc'], K, is_extent=True)),
                ('from_objects:is_extent:shuffled',
                 FormalConcept.from_objects([names[g] for g in ls['shuf']], K, is_extent=True)),
                ('from_objects:closure-of-shuffled', FormalConcept.from_objects(ls['shuf2'], K))]
        intent_i = made[0][1].intent_i
        made.append(('read_json:shuffled', FormalConcept.read_json(json_data=js(ls['shuf2'], intent_i, False))))
        made.append(('read_json:rewritten', FormalConcept.read_json(json_data=made[1][1].write_json(names, attrs))))
        made.append(('direct:rotated', FormalConcept(tuple(ls['rot']), tuple(names[g] for g in ls['rot']), tuple(intent_i),
                                                     tuple(attrs[j] for j in intent_i), context_hash=h)))
        if not mono:
            for src, x in made:
                add(src, x)
        else:
            for src, x in made:
                if src.startswith('read_json:shuffled'):
                    add(src + ':monotone', FormalConcept.read_json(json_data=js(x.extent_i, x.intent_i, True)))
                else:
                    add(src + ':monotone', FormalConcept(x.extent_i, x.extent, x.intent_i, x.intent,
                                                         context_hash=x.context_hash, is_monotone=True))
            if len(items) < 12:
                add('from_objects:antitone', made[0][1])          # a few antitone ones: must be refused
    return _pool_out(*_dedupe(items, _fkey), False)


def _bigporder_impl(c):
    """(H8/H3) the same for PatternConcepts of a large one-column IntervalPS context"""
    from fcapy.lattice.pattern_concept import PatternConcept
    rng = random.Random(c['seed'])
    vals = c['vals']
    n = len(vals)
    K = _mvcontext([[[v, v] for v in vals]])
    names = list(K.object_names)
    h = K.hash_fixed()
    skip = set(c.get('drop', ()))
    items = []

    def add(src, x):
        if src.split(':')[0] not in skip:
            items.append((src, x))

    for mn in PMINERS:
        for x in _miner(mn)(K):
            add(mn, x)
    for t in _big_targets(rng, vals):
        ls = _listings(rng, t)
        a = PatternConcept.from_objects(ls['desc'], K, is_extent=True)
        b = PatternConcept.from_objects([names[g] for g in ls['shuf']], K, is_extent=True)
        add('from_objects:is_extent:desc', a)
        add('from_objects:is_extent:shuffled', b)
        add('from_objects:closure-of-shuffled', PatternConcept.from_objects(ls['shuf2'], K))
        add('read_json:as-written', PatternConcept.read_json(json_data=b.write_json()))
        d = json.loads(a.write_json())
        d['Ext']['Inds'], d['Ext']['Names'] = list(ls['shuf2']), [names[g] for g in ls['shuf2']]
        add('read_json:shuffled', PatternConcept.read_json(json_data=json.dumps(d)))
        add('direct:rotated', PatternConcept(tuple(ls['rot']), tuple(names[g] for g in ls['rot']), a.intent_i, a.intent,
                                             K.pattern_types, K.attribute_names, context_hash=h))
    return _pool_out(*_dedupe(items, _pkey), True)


def _num(x):
    x = float(x)
    return int(x) if x == int(x) else x


def _setattr_impl(c):
    from fcapy.lattice.formal_concept import FormalConcept
    from fcapy.lattice.pattern_concept import PatternConcept
    if c['ckind'] == 'formal':
        K = make_context([[1, 0, 1], [1, 1, 0], [0, 1, 1]], BACKENDS[1], OBJ[:3], ATT[:3])
        if c['src'] == 'from_objects':
            obj = FormalConcept.from_objects([1, 0], K)
        elif c['src'] == 'miner':
            obj = list(_miner('close_by_one_objectwise')(K))[2]
        elif c['src'] == 'monotone':
            obj = FormalConcept((1, 0), ('g1', 'g0'), (0,), ('m0',), context_hash=K.hash_fixed(), is_monotone=True)
        else:
            obj = FormalConcept((1, 0), ('g1', 'g0'), (0,), ('m0',))
    else:
        K = _mvcontext([[[1, 1], [2, 3], [0, 5]]])
        obj = PatternConcept.from_objects([1, 0], K) if c['src'] == 'from_objects' else list(_miner('close_by_one')(K))[1]
    key = c['key']
    missing = object()
    before = getattr(obj, key, missing)
    if key == 'is_monotone':
        new = not before
    elif key == 'context_hash':
        new = 12345
    elif key == 'measures':
        new = {'x': 1.0}
    else:
        new = ('zz',)
    res = {}
    if c.get('mode') == 'del-assign':
        res['present'] = key in getattr(obj, '__dict__', {})
        try:
            delattr(obj, key)
            res['del'] = {'ok': 1}
        except Exception as e:
            res['del'] = {'err': exc_name(e)}
    try:
        setattr(obj, key, new)
        res['ok'] = 1
    except Exception as e:
        res.update({'err': exc_name(e), 'is_attribute_error': isinstance(e, AttributeError)})
    after = getattr(obj, key, missing)
    res['unchanged'] = bool((after is before) or (after is not missing and before is not missing and after == before))
    res['took'] = bool(after is not missing and after == new and not (before is not missing and before == new))
    return res


def impl(c):
    from fcapy.lattice.formal_concept import FormalConcept
    from fcapy.lattice.pattern_concept import PatternConcept
    kind = c['kind']
    if kind == 'order':
        n, m = len(c['rows']), len(c['rows'][0])
        K = make_context(c['rows'], c['be'], OBJ[:n], ATT[:m])
        return _pool_out(*_dedupe(_formal_items(K, c['miners'], c['fo'], cap=c.get('cap'), paths=c.get('paths', ())),
                                  _fkey), False)
    if kind == 'cross':
        n, m = len(c['rows']), len(c['rows'][0])
        n2, m2 = len(c['rows2']), len(c['rows2'][0])
        K1 = make_context(c['rows'], c['be'], OBJ[:n], ATT[:m])
        K2 = make_context(c['rows2'], c['be'], c['objs2'] if c.get('objs2') else OBJ[:n2], ATT[:m2])
        fo1 = [[list(range(n))[::-1], 0, 1], [[0], 1, 0]]
        fo2 = [[list(range(n2))[::-1], 1, 1], [[0], 0, 0]]
        it1 = _formal_items(K1, ['close_by_one_objectwise', 'lindig_algorithm'], fo1, 'K1:')
        it2 = _formal_items(K2, ['close_by_one_objectwise', 'close_by_one'], fo2, 'K2:')
        twins = []
        for s, x in it1[:6]:
            twins.append((s + ':monotone', FormalConcept(x.extent_i, x.extent, x.intent_i, x.intent,
                                                         context_hash=x.context_hash, is_monotone=True)))
        for s, x in it1[:3]:
            twins.append((s + ':nohash', FormalConcept(x.extent_i, x.extent, x.intent_i, x.intent)))
            twins.append((s + ':nohash:monotone', FormalConcept(x.extent_i[::-1], x.extent[::-1], x.intent_i, x.intent,
                                                                is_monotone=True)))
        out = _pool_out(*_dedupe(it1 + it2 + twins, _fkey), False)
        out['hashes'] = [int(K1.hash_fixed()), int(K2.hash_fixed())]
        return out
    if kind == 'porder':
        K = _mvcontext(c['cols'])
        items = _pattern_items(K, c['miners'], c['fo'], 'K1:')
        if c.get('cols2'):
            K2 = _mvcontext(c['cols2'])
            n2 = len(c['cols2'][0])
            items += _pattern_items(K2, ['close_by_one_objectwise'], [[list(range(n2))[::-1], 0, 1]], 'K2:')
            x = items[0][1]
            items.append(('K1:nohash', PatternConcept(x.extent_i, x.extent, x.intent_i, x.intent, x.pattern_types,
                                                      K.attribute_names)))
        return _pool_out(*_dedupe(items, _pkey), True)
    if kind == 'setattr':
        return _setattr_impl(c)
    if kind == 'from_objects':
        K = make_context(c['rows'], c['be'], c['objs'], c['attrs'])
        h = int(K.hash_fixed())
        arg, order, watch = _argobj(c, c['objs'])
        try:
            x = FormalConcept.from_objects(arg, K, is_extent=bool(c['is_extent']), is_monotone=bool(c['is_monotone']))
            return {'h': h, 'arg_order': order, 'arg_mutated': watch is not None and watch != order,
                    'support': int(x.support), 'ok': dict(extent_i=ints(x.extent_i), extent=[str(s) for s in x.extent],
                                       intent_i=ints(x.intent_i), intent=[str(s) for s in x.intent],
                                       context_hash=None if x.context_hash is None else int(x.context_hash),
                                       is_monotone=bool(x.is_monotone)),
                    'types': [type(x.extent_i).__name__, type(x.intent_i).__name__]}
        except Exception as e:
            return {'h': h, 'arg_order': order, 'err': exc_name(e)}
    if kind == 'pfrom':
        K = _mvcontext(c['cols'])
        h = int(K.hash_fixed())
        arg, order, watch = _argobj(c, list(K.object_names))
        try:
            x = PatternConcept.from_objects(arg, K, is_extent=bool(c['is_extent']), is_monotone=bool(c['is_monotone']))
            out = _pfields(x, K, len(c['cols']))
            out.update(h=h, arg_order=order, arg_mutated=watch is not None and watch != order)
            return out
        except Exception as e:
            return {'h': h, 'arg_order': order, 'err': exc_name(e)}
    if kind == 'history':
        return _history_impl(c)
    if kind == 'bigorder':
        return _bigorder_impl(c)
    if kind == 'bigporder':
        return _bigporder_impl(c)
    if kind == 'phistory':
        return _phistory_impl(c)
    raise ValueError('unknown case kind ' + str(kind))


def _arg(c, names):
    sel = c['sel']
    if c.get('by_name'):
        a = [names[i] for i in sel]
        if c.get('extra_name') is not None:
            a.insert(c['extra_pos'], c['extra_name'])
        return a
    return list(sel)


def _argobj(c, names):
    """(the object handed to from_objects, the order in which it yields its elements, the list to watch for mutation)"""
    a = _arg(c, names)
    form = c.get('argform', 'list')
    if form == 'tuple':
        return tuple(a), list(a), None
    if form == 'gen':
        return (x for x in a), list(a), None
    if form == 'iter':
        return iter(a), list(a), None
    if form == 'map':
        return map(lambda x: x, a), list(a), None
    if form == 'set':
        o = set(a)
        return o, list(o), None
    if form == 'frozenset':
        o = frozenset(a)
        return o, list(o), None
    if form == 'dictkeys':
        o = dict.fromkeys(a).keys()
        return o, list(o), None
    return a, list(a), a


# ------------------------------------------------------------------------------------------- Lean side

def requests(c, io):
    kind = c['kind']
    if kind in ('order', 'cross', 'porder', 'bigorder', 'bigporder'):
        if 'pool' not in io:
            return []
        return [dict(op='C08.cmp', kind='pattern' if kind in ('porder', 'bigporder') else 'formal',
                     pool=[dict(e=p['e'], h=p['h'], m=p['m']) for p in io['pool']],
                     impl_le=io['le'], impl_lt=io['lt'], impl_eq=io['eq'],
                     impl_hash=[h if isinstance(h, int) else 0 for h in io['hash']])]
    if kind in ('history', 'phistory'):
        if 'pool' not in io:
            return []
        # the context a concept belongs to is the CONTENT it was derived from: the spec is computed with the identity
        # the unchanged library gives that content (`ref`), never with what the object under test says
        reqs = [dict(op='C08.cmp', kind='pattern' if kind == 'phistory' else 'formal',
                     pool=[dict(e=p['e'], h=p['ref'], m=p['m']) for p in io['pool']],
                     impl_le=io['le'], impl_lt=io['lt'], impl_eq=io['eq'],
                     impl_hash=[h if isinstance(h, int) else 0 for h in io['hash']])]
        for d in io['derived']:
            arg = [d['objs'][i] for i in d['sel']] if d['by_name'] else list(d['sel'])
            if kind == 'history':
                reqs.append(dict(op='C08.from_objects', be=SHORT[c['be']], rows=d['rows'], w=len(d['rows'][0]),
                                 objs=d['objs'], attrs=d['attrs'], h=d['h'],
                                 arg={'names': arg} if d['by_name'] else {'idx': arg},
                                 is_extent=bool(d['is_extent']), is_monotone=False))
            else:
                reqs.append(dict(op='C08.pfrom', cols=d['cols'], objs=d['objs'], h=d['h'],
                                 arg={'names': arg} if d['by_name'] else {'idx': arg},
                                 is_extent=bool(d['is_extent']), is_monotone=False))
        return reqs
    if kind == 'setattr':
        return [dict(op='C08.setattr', kind=c['ckind'], key=c['key'], init=False, mode=c.get('mode', 'assign'),
                     present=bool(io.get('present', True)))]
    if kind == 'from_objects':
        arg = io.get('arg_order', _arg(c, c['objs']))
        return [dict(op='C08.from_objects', be=SHORT[c['be']], rows=c['rows'], w=len(c['rows'][0]), objs=c['objs'],
                     attrs=c['attrs'], h=io.get('h', 0), arg={'names': arg} if c.get('by_name') else {'idx': arg},
                     is_extent=bool(c['is_extent']), is_monotone=bool(c['is_monotone']))]
    if kind == 'pfrom':
        n = len(c['cols'][0])
        arg = io.get('arg_order', _arg(c, OBJ[:n]))
        return [dict(op='C08.pfrom', cols=c['cols'], objs=OBJ[:n], h=io.get('h', 0),
                     arg={'names': arg} if c.get('by_name') else {'idx': arg},
                     is_extent=bool(c['is_extent']), is_monotone=bool(c['is_monotone']))]
    return []


def _bad(kind, cat, detail):
    return dict(ok=False, kind=kind, cat=cat, detail=detail)


def _judge_cmp(c, io, r, pattern, skip=frozenset()):
    """`skip`: index pairs outside the property (two different contents with a genuine adler32 collision: the unchanged
    library itself takes them for one context, CLASSES.md H4b)"""
    pool = io['pool']
    n = len(pool)
    if n == 0:
        return _bad('correspondence', 'empty-pool', 'no concept was produced')
    if not all(r['nodup']):
        i = r['nodup'].index(0)
        return _bad('property', 'dup-extent', f'{pool[i]["src"]} produced a concept whose extent lists an object twice: '
                                              f'{pool[i]["e"]} (not the closure of an object SET; support, ==, hash are off)')
    if io.get('twins_bad'):
        return _bad('property', 'same-fields-differ', 'two concept objects with identical fields do not compare equal / hash '
                    'equally: ' + '; '.join(io['twins_bad']))
    desc = lambda i: f'{pool[i]["src"]}{pool[i]["e"]}' + ('(monotone)' if pool[i]['m'] else '') + f'@{pool[i]["h"]}'
    # model = spec (what the theorems say) -- a difference is a self-inconsistency of the Lean side
    for nm in ('eq', 'le', 'lt'):
        for i in range(n):
            for j in range(n):
                mv, sv = r[nm][i][j], r['spec_' + nm][i][j]
                if (sv == 'refused') != isinstance(mv, str) or (sv != 'refused' and mv != sv):
                    return _bad('harness', 'model-spec', f'model {nm}={mv} but spec={sv} for {desc(i)} vs {desc(j)}')
    # implementation against the specification (property), then against the model (error class)
    opname = {'eq': '==', 'ne': '!=', 'le': '<=', 'lt': '<'}
    for nm in ('eq', 'ne', 'le', 'lt'):
        for i in range(n):
            for j in range(n):
                if (i, j) in skip:
                    continue
                iv = io[nm][i][j]
                sv = r['spec_eq' if nm == 'ne' else 'spec_' + nm][i][j]
                if sv != 'refused' and nm == 'ne':
                    sv = 1 - sv
                if sv == 'refused':
                    if not isinstance(iv, str) or iv.startswith('non-bool'):
                        why = 'different contexts' if pool[i]['h'] != pool[j]['h'] else 'different monotonicity'
                        return _bad('property', f'{nm}-not-refused',
                                    f'{desc(i)} {opname[nm]} {desc(j)} returned {iv} instead of raising ({why})')
                elif isinstance(iv, str):
                    return _bad('property', f'{nm}-refused-wrongly',
                                f'{desc(i)} {opname[nm]} {desc(j)} raised {iv} although both concepts belong to the same '
                                f'context (and monotonicity); extent inclusion says {bool(sv)}')
                elif iv != sv:
                    return _bad('property', f'{nm}-wrong',
                                f'{desc(i)} {opname[nm]} {desc(j)} gave {iv}; extent inclusion says {bool(sv)}')
    for nm in ('eq', 'ne', 'le', 'lt'):
        for i in range(n):
            for j in range(n):
                if (i, j) not in skip and io[nm][i][j] != r[nm][i][j]:
                    return _bad('correspondence', f'{nm}-error-class',
                                f'{desc(i)} {opname[nm]} {desc(j)} raised {io[nm][i][j]}, model raises {r[nm][i][j]}')
    if r.get('laws'):
        return _bad('property', 'laws:' + r['laws'][0].split(':')[0], 'order/hash laws broken on the implementation\'s answers: '
                    + '; '.join(r['laws']) + ' | pool=' + ', '.join(f'{i}:{desc(i)}' for i in range(min(n, 12))))
    for i in range(n):
        key = r['key'][i]
        want = hash((tuple(key[0]), key[1])) if pattern else hash(tuple(key))
        if io['hash'][i] != want:
            # equal concepts must hash equally: is there an equal concept with another hash?
            return _bad('correspondence', 'hash-key', f'hash({desc(i)}) = {io["hash"][i]} but hash of the model key {key} is {want}')
    return dict(ok=True)


def _closure_iv(cols, A):
    """brute-force closure of A in an all-IntervalPS context"""
    n = len(cols[0])
    if not A:
        return [None] * len(cols), []
    intent = [[min(col[g][0] for g in A), max(col[g][1] for g in A)] for col in cols]
    ext = [g for g in range(n) if all(d[0] <= col[g][0] and col[g][1] <= d[1] for col, d in zip(cols, intent))]
    return intent, ext


def _judge_from(malformed, objs, attrs, is_extent, io, r):
    """one FormalConcept.from_objects call against the Lean model and Spec (ext (int A), int A)"""
    model, spec = r['model'], r['spec']
    if 'err' in model:
        if io.get('err') == model['err']:
            return dict(ok=True)
        return _bad('correspondence' if malformed else 'harness', 'from-err',
                    f'model raises {model["err"]}, implementation gave {io}')
    if 'err' in io:
        return _bad('correspondence' if malformed else 'property', 'from-raised',
                    f'from_objects raised {io["err"]}; the closure is {spec}')
    got, mo = io['ok'], model['ok']
    if not malformed:
        if spec is None or mo['extent_i'] != spec['extent_i'] or mo['intent_i'] != spec['intent_i']:
            return _bad('harness', 'model-spec', f'model {mo} != spec {spec}')
        if not is_extent and len(set(got['extent_i'])) != len(got['extent_i']):
            return _bad('property', 'dup-extent',
                        f'from_objects({io.get("arg_order")}) gave extent_i {got["extent_i"]}: an object is listed twice '
                        f'(support {io.get("support")}); the closure of the object set is {spec["extent_i"]}')
        if sorted(got['extent_i']) != sorted(spec['extent_i']) or sorted(got['intent_i']) != sorted(spec['intent_i']):
            return _bad('property', 'not-closure',
                        f'from_objects({io.get("arg_order")}) gave extent {got["extent_i"]}, intent {got["intent_i"]}; '
                        f'closure is {spec["extent_i"]}, {spec["intent_i"]}')
        if 'support' in io and not is_extent and io['support'] != len(spec['extent_i']):
            return _bad('property', 'support', f'support {io["support"]} but the closure has {len(spec["extent_i"])} objects')
        if got['extent'] != [objs[i] for i in got['extent_i']] or got['intent'] != [attrs[j] for j in got['intent_i']]:
            return _bad('property', 'names', f'names do not match indexes: {got}')
        if got['context_hash'] != io['h'] or got['is_monotone'] is not False:
            return _bad('property', 'hash-field', f'the concept carries context_hash {got["context_hash"]} but the context it '
                                                  f'was derived from has hash_fixed() = {io["h"]} (is_monotone={got["is_monotone"]})')
    if got != mo:
        return _bad('correspondence', 'from-fields', f'implementation {got} != model {mo}')
    if io.get('arg_mutated'):
        return _bad('correspondence', 'arg-mutated', 'from_objects changed the caller\'s list in place')
    return dict(ok=True)


def _judge_pfrom(cols, objs, arg_order, sel, is_extent, io, r):
    """one PatternConcept.from_objects call on an all-IntervalPS context"""
    model = r['model']
    if 'err' in model:
        if io.get('err') == model['err']:
            return dict(ok=True)
        return _bad('correspondence', 'pfrom-err', f'model raises {model["err"]}, implementation gave {io}')
    if 'err' in io:
        return _bad('property', 'pfrom-raised', f'PatternConcept.from_objects raised {io["err"]}')
    got, mo = io['ok'], model['ok']
    intent, ext = _closure_iv(cols, sel)
    want_ext = sorted(sel) if is_extent else ext
    if not is_extent and len(set(got['extent_i'])) != len(got['extent_i']):
        return _bad('property', 'dup-extent', f'PatternConcept.from_objects({arg_order}) gave extent_i {got["extent_i"]}: an '
                                              f'object is listed twice; the closure of the object set is {ext}')
    if sorted(got['extent_i']) != want_ext or got['intent_i'] != intent:
        return _bad('property', 'pfrom-not-closure', f'from_objects({arg_order}) gave extent {got["extent_i"]}, intent '
                                                     f'{got["intent_i"]}; closure is {want_ext}, {intent}')
    if got['extent'] != [objs[i] for i in got['extent_i']] or not io['intent_names_ok']:
        return _bad('property', 'pfrom-names', f'names do not match: {got}')
    if got['context_hash'] != io['h']:
        return _bad('property', 'hash-field', f'the concept carries context_hash {got["context_hash"]} but the context it was '
                                              f'derived from has hash_fixed() = {io["h"]}')
    if got != mo:
        return _bad('correspondence', 'pfrom-fields', f'implementation {got} != model {mo}')
    if io.get('arg_mutated'):
        return _bad('correspondence', 'arg-mutated', 'from_objects changed the caller\'s list in place')
    return dict(ok=True)


def _script_text(c):
    return ' ; '.join(str(st[0]) + (f'[{st[-1]}]' if st[-1] in ('collide', 'pyhash') else '') for st in c['script'])


def _judge_history(c, io, rep):
    """(H1/H4) concepts derived from one context OBJECT before / between / after public mutations of its content, and
    from a fresh context with the final content.  Which context a concept belongs to is decided by the CONTENT it was
    derived from, identified the way the unchanged library identifies a context (`ref` = adler32 of the rendering of
    names + table, computed by the harness from its own record of the content): same content -> ordered by extent
    inclusion, different identity -> refused.  Two DIFFERENT contents with the same adler32 are taken for one context by
    the unchanged library itself: such pairs are outside the property and are not judged (H4b)."""
    pattern = c['kind'] == 'phistory'
    if not rep:
        return _bad('property', 'pool-failed', f'the history could not be executed: {io}')
    script = _script_text(c)
    pool = io['pool']
    io2 = dict(io, pool=[dict(p, h=p['ref']) for p in pool])
    skip = frozenset((i, j) for i, p in enumerate(pool) for j, q in enumerate(pool)
                     if p['cid'] != q['cid'] and p['ref'] == q['ref'])
    v = _judge_cmp(c, io2, rep[0], pattern, skip)
    if not v['ok'] and v['kind'] == 'property':
        v['detail'] = (f'history [derive (P0); {script}; derive; fresh context with the final content (last phase)], @ = '
                       f'adler32 identity of the content the concept was derived from: ' + v['detail'])
        return v
    for p in pool:
        if p['h'] != p['fh']:
            return _bad('property', 'stale-context-hash',
                        f'history [{script}]: {p["src"]}{p["e"]} carries context_hash {p["h"]}, but a fresh context with the '
                        f'very content it was derived from has hash_fixed() = {p["fh"]}: concepts of one context would '
                        f'refuse each other')
    for d, r in zip(io['derived'], rep[1:]):
        if pattern:
            w = _judge_pfrom(d['cols'], d['objs'], d['sel'], d['sel'], d['is_extent'], d, r)
        else:
            w = _judge_from(False, d['objs'], d['attrs'], d['is_extent'], d, r)
        if not w['ok']:
            w['detail'] = f'history [{script}], phase {d["phase"]}, from_objects({d["sel"]}): ' + w['detail']
            return w
    if not v['ok']:
        return v
    for p in pool:
        if p['fh'] != p['ref']:
            return _bad('correspondence', 'hash-formula',
                        f'hash_fixed() of a fresh context is {p["fh"]}; adler32 of str(object_names) + str(attribute_names) + '
                        f'str(data) of its content is {p["ref"]}')
    return v


def judge(c, io, rep):
    kind = c['kind']
    if kind in ('order', 'cross', 'porder', 'bigorder', 'bigporder'):
        if not rep:
            return _bad('property', 'pool-failed', f'building the pool failed: {io}')
        return _judge_cmp(c, io, rep[0], kind in ('porder', 'bigporder'))
    if kind in ('history', 'phistory'):
        return _judge_history(c, io, rep)
    r = rep[0]
    if kind == 'setattr' and c.get('mode') == 'del-assign':
        frozen = c['key'] in FROZEN[c['ckind']]
        if frozen and ('err' not in io['del'] or 'err' not in io):
            return _bad('property', 'field-deleted-or-reassigned',
                        f'{c["ckind"]} concept: `del c.{c["key"]}` / `c.{c["key"]} = ...` on a defining field was accepted: {io}')
        if frozen and not io['unchanged']:
            return _bad('property', 'field-reassigned-after-del',
                        f'{c["ckind"]} concept: `del c.{c["key"]}` then `c.{c["key"]} = ...` re-assigned the defining field: {io}')
        strip = lambda d: {'ok': 1} if 'ok' in d else {'err': d['err']}
        if strip(io['del']) != strip(r['del']) or strip(io) != strip(r['set']):
            return _bad('correspondence', 'delattr-model', f'{c["ckind"]}.{c["key"]}: implementation del={io["del"]} set={strip(io)}; '
                                                           f'model {r}')
        return dict(ok=True)
    if kind == 'setattr':
        frozen = c['key'] in FROZEN[c['ckind']]
        if frozen and ('err' not in io or not io['unchanged']):
            return _bad('property', 'field-reassigned', f'{c["ckind"]} concept ({c["src"]}): assigning {c["key"]} gave {io}')
        if frozen and not io.get('is_attribute_error'):
            return _bad('correspondence', 'setattr-class', f'{c["key"]}: raised {io["err"]} which is not an AttributeError')
        want = {'ok': 1} if 'ok' in r else {'err': r['err']}
        got = {'ok': 1} if 'ok' in io else {'err': io['err']}
        if want != got:
            return _bad('correspondence', 'setattr-model', f'{c["ckind"]}.{c["key"]}: implementation {got}, model {want}')
        if 'ok' in io and not io['took']:
            return _bad('correspondence', 'setattr-noeffect', f'{c["ckind"]}.{c["key"]}: assignment accepted but value not stored')
        return dict(ok=True)
    if kind == 'from_objects':
        return _judge_from(c['stream'] == 'malformed', c['objs'], c['attrs'], c['is_extent'], io, r)
    if kind == 'pfrom':
        n = len(c['cols'][0])
        return _judge_pfrom(c['cols'], OBJ[:n], io.get('arg_order', c['sel']), c['sel'], c['is_extent'], io, r)
    if kind in ('history', 'phistory'):
        return _judge_history(c, io, rep)
    return _bad('harness', 'kind', 'unknown kind')


# ------------------------------------------------------------------------------------------- bookkeeping

def nontrivial(c):
    k = c['kind']
    if k in ('order', 'cross', 'history'):
        return G.is_mixed(c['rows'])
    if k == 'phistory':
        return any(len({tuple(v) for v in col}) > 1 for col in c['cols'])
    if k == 'from_objects':
        return G.is_mixed(c['rows']) and len(c['sel']) > 0
    if k in ('bigorder', 'bigporder'):
        return max(c['vals']) > 0
    if k in ('porder', 'pfrom'):
        distinct = any(len({tuple(v) for v in col}) > 1 for col in c['cols'])
        return distinct and (k == 'porder' or len(c['sel']) > 0)
    return True


def key(c):
    return {k: v for k, v in c.items() if k != 'stream'}


def branch(c, io, rep):
    out = [c['stream'], 'kind:' + c['kind']]
    k = c['kind']
    if k in ('history', 'phistory'):
        out.append('script:' + '+'.join(st[0] + (':' + st[-1] if st[-1] in ('collide', 'pyhash') else '') for st in c['script']))
        for nt in io.get('notes', ()):
            out.append('route:' + nt)
        if 'pool' in io:
            if any(p['cid'] != q['cid'] and p['ref'] == q['ref'] for p in io['pool'] for q in io['pool']):
                out.append('genuine-adler32-collision-pairs(not judged)')
            if len({p['cid'] for p in io['pool']}) > 1:
                out.append('contents:%d' % len({p['cid'] for p in io['pool']}))
    if k in ('bigorder', 'bigporder'):
        out.append('objects:%d' % len(c['vals']))
        if k == 'bigorder':
            out.append('variant:' + c['variant'])
        if 'pool' in io:
            pool = io['pool']
            gated = [(p, q) for p in pool for q in pool if len(q['e']) >= 64 and 8 * len(p['e']) <= len(q['e'])]
            if gated:
                out.append('pairs:support>=64-and-ratio>=8')
            if any(q['e'] != sorted(q['e']) for p, q in gated):
                out.append('pairs:...with-unsorted-greater')
            if any(p['e'] != sorted(p['e']) for p, q in gated):
                out.append('pairs:...with-unsorted-lesser')
            if any(p is not q and sorted(p['e']) == sorted(q['e']) and p['e'] != q['e'] and len(p['e']) >= 64
                   for p in pool for q in pool):
                out.append('pairs:same-set-other-listing>=64')
    if k in ('order', 'cross', 'porder', 'history', 'phistory', 'bigorder', 'bigporder') and 'pool' in io:
        pool = io['pool']
        n = len(pool)
        out.append('pool-size:%s' % ('<=4' if n <= 4 else '<=16' if n <= 16 else '<=64' if n <= 64 else '>64'))
        if any(p['e'] != sorted(p['e']) for p in pool):
            out.append('pool-has-unsorted-extent')
        flat = lambda nm: [v for row in io[nm] for v in row]
        le, eq, lt = flat('le'), flat('eq'), flat('lt')
        if any(isinstance(v, str) for v in le):
            out.append('refused-pairs')
        if any(v == 0 for v in le):
            out.append('incomparable-pairs')
        if sum(1 for v in eq if v == 1) > n:
            out.append('equal-distinct-objects')
        if any(v == 1 for v in lt):
            out.append('strict-pairs')
        if any(p['m'] for p in pool):
            out.append('monotone-in-pool')
        for s in {x.split(':')[1 if (x[:3] in ('K1:', 'K2:') or (x[0] == 'P' and x[1].isdigit())) else 0]
                  for p in pool for x in p['srcs']}:
            out.append('src:' + s)
        if k in ('bigorder', 'bigporder'):
            for s in {x for p in pool for x in p['srcs'] if ':' in x}:
                out.append('listing:' + s)
        if k not in ('porder', 'phistory', 'bigporder'):
            out.append('be:' + c['be'])
    elif k in ('from_objects', 'pfrom'):
        out.append(('name' if c.get('by_name') else 'index') + (':is_extent' if c['is_extent'] else ''))
        out.append('argform:' + c.get('argform', 'list'))
        if len(set(c['sel'])) < len(c['sel']):
            out.append('repeated-objects')
        out.append('err:' + io['err'] if 'err' in io else 'ok')
        if k == 'from_objects':
            out.append('be:' + c['be'])
    elif k == 'setattr':
        out.append(c['ckind'] + ':' + c.get('mode', 'assign') + ':' + ('err:' + io['err'] if 'err' in io else 'assigned'))
    return out


def signature(c, io, rep, v):
    return f"C08:{c['kind']}:{v.get('kind')}:{v.get('cat', '?')}"


def _drop_row(rows, i):
    return rows[:i] + rows[i + 1:]


def _remap(sel, i):
    return [x - (x > i) for x in sel if x != i]


def shrink(c):
    k = c['kind']
    if k in ('bigorder', 'bigporder'):
        srcs = (list(MINERS) + ['lattice', 'lattice-cbo', 'lattice-monotone'] if k == 'bigorder' else list(PMINERS)) + \
            ['from_objects', 'read_json', 'direct']
        drop = list(c.get('drop', ()))
        for sname in srcs:
            if sname not in drop:
                yield dict(c, drop=drop + [sname])
        return
    if k in ('history', 'phistory'):
        if len(c['script']) > 1:
            for i in range(len(c['script'])):
                yield dict(c, script=c['script'][:i] + c['script'][i + 1:])
        for fk in ('fo1', 'fo2'):
            fo = c[fk]
            for i in range(len(fo)):
                if len(fo) > 1:
                    d = dict(c)
                    d[fk] = fo[:i] + fo[i + 1:]
                    yield d
        if k == 'history' and not c.get('objs0') and all(st[0] in ('objs', 'attrs', 'none', 'description', 'derive') for st in c['script']):
            rows = c['rows']
            n, m = len(rows), len(rows[0])
            if n > 1:
                for i in range(n):
                    yield dict(c, rows=_drop_row(rows, i), fo1=[[_remap(s, i), b, e] for s, b, e in c['fo1']],
                               fo2=[[_remap(s, i), b, e] for s, b, e in c['fo2']])
            if m > 1:
                for j in range(m):
                    yield dict(c, rows=[r[:j] + r[j + 1:] for r in rows])
        return
    if k in ('order', 'cross'):
        if k == 'order':
            if c.get('paths'):
                yield dict(c, paths=[])
            for mn in c['miners']:
                if len(c['miners']) > 0:
                    yield dict(c, miners=[x for x in c['miners'] if x != mn])
            fo = c['fo']
            if len(fo) > 1:
                yield dict(c, fo=fo[:len(fo) // 2])
                yield dict(c, fo=fo[len(fo) // 2:])
            for i in range(len(fo)):
                if len(fo) <= 12:
                    yield dict(c, fo=fo[:i] + fo[i + 1:])
        for rk in (('rows',) if k == 'order' else ('rows', 'rows2')):
            rows = c[rk]
            n, m = len(rows), len(rows[0])
            if n > 1:
                for i in range(n):
                    d = dict(c)
                    d[rk] = _drop_row(rows, i)
                    if k == 'order':
                        d['fo'] = [[_remap(s, i), b, e] for s, b, e in c['fo']]
                    elif rk == 'rows2' and c.get('objs2'):
                        d['objs2'] = _drop_row(c['objs2'], i)
                    yield d
            if m > 1:
                for j in range(m):
                    d = dict(c)
                    d[rk] = [r[:j] + r[j + 1:] for r in rows]
                    yield d
            for i in range(n):
                for j in range(m):
                    if rows[i][j]:
                        d = dict(c)
                        d[rk] = [list(r) for r in rows]
                        d[rk][i][j] = 0
                        yield d
    elif k == 'from_objects':
        if c.get('extra_name') is None and c['objs'] == OBJ[:len(c['rows'])]:
            for d in G.shrink_table_case(c, row_keys=('sel',), col_keys=()):
                d['objs'], d['attrs'] = OBJ[:len(d['rows'])], ATT[:len(d['rows'][0])]
                yield d
    elif k in ('porder', 'pfrom'):
        cols = c['cols']
        if len(cols) > 1:
            for j in range(len(cols)):
                yield dict(c, cols=cols[:j] + cols[j + 1:])
        n = len(cols[0])
        if n > 1:
            for i in range(n):
                d = dict(c, cols=[col[:i] + col[i + 1:] for col in cols])
                if k == 'porder':
                    d['fo'] = [[_remap(s, i), b, e] for s, b, e in c['fo']]
                else:
                    d['sel'] = _remap(c['sel'], i)
                yield d
        if k == 'porder':
            if c.get('cols2'):
                yield dict(c, cols2=None)
            fo = c['fo']
            if len(fo) > 1:
                yield dict(c, fo=fo[:len(fo) // 2])
                yield dict(c, fo=fo[len(fo) // 2:])
            for mn in c['miners']:
                yield dict(c, miners=[x for x in c['miners'] if x != mn])

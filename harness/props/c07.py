"""C07 — every serialisation format round-trips contexts, concepts and lattices."""
import itertools
import json
import os
import random
import tempfile

import gen as G
from implutil import BACKENDS, exc_name

RULE = ('case = (format, table, names, backend[, separator/words | description]) for formal contexts (cxt, csv via a '
        'temp file, json, pandas), a many-valued table with its pattern-structure classes (json), a context + miner '
        '(concept to_dict/json), or a context whose lattice is written and read (json); exhaustive over all tables up '
        'to the tier scope x ordered distinct names from a pool of admissible names (leading/trailing blanks, the '
        'other separators, X and .) x 3 backends, then seeded random larger tables/names; non-trivial = mixed table '
        '(formal) / any many-valued or concept case; distinct = distinct case dict')
EXHAUSTIVE = {
    'quick': 'cxt,json,pandas: all tables n,m<=2 x all ordered distinct object/attribute names from a 6-name pool x 3 backends; '
             '(pandas 2x2: numpy backend only); csv: same for each separator in , ; TAB SPACE with a 5-name pool (incl. the empty '
             'name and the other separators) free of that separator; '
             'lattices+concepts (every miner): all tables n,m<=3 x 3 backends (lattice when >=3 concepts); '
             'many-valued: all class pairs (4 classes, m<=2) x small value grids, n<=2',
    'thorough': 'quick scope + tables n,m<=3 with a 4-name pool for the text formats; lattices of all tables n*m<=12 (n,m<=4)'}
EXPLANATION = ('the writer text of the implementation is compared byte-for-byte with the model writer, the model reader '
               'is run on both texts and compared with the implementation reader; the property oracle is: read-back == '
               'original under the library == AND field-wise.  Theorems Fca.C07.* prove model read(write K) = K for all '
               'admissible K: text level for cxt/csv (any separator string), tree level for the json formats of formal '
               'and many-valued contexts, formal and pattern concepts and their lattices (nested value texts under an '
               'explicit loads(dumps j)=j hypothesis).')
ASSUMPTIONS = ['object/attribute names pairwise distinct; tables with n,m >= 1',
               'cxt names: non-empty, no newline; csv fields (names, word_true, word_false): no character of the separator, '
               'no \\n, no \\r (the csv reader only takes a path and text-mode files translate \\r); the separator is any '
               'non-empty string without \\n/\\r; word_true != word_false',
               'SetPS values are sets of ints or sets of strings (mixed sets cannot be sorted by the writer)',
               'floats are compared through repr(); -0.0, nan are not generated',
               'lattices have >= 3 concepts (writer precondition); children_dict of the original lattice is the cover '
               'relation of extent inclusion (C12) ']
TRUSTED = ['json.dumps/json.loads as mutually inverse on JSON trees (the model has its own dumps/loads, compared with '
           'CPython on every case, but no theorem about them)',
           'text-mode file I/O = universal-newline translation; pandas DataFrame construction/.values.tolist()',
           'POSet internals behind ConceptLattice(concepts) are modelled by their specification '
           '(descendants/ancestors/children by definition; see C09/C12)',
           'int() modelled on non-empty ASCII digit strings only']
CHUNK = 1500
REQUESTS_NEED_IMPL = True

POOL = ['a', ' b', 'c ', ' ', 'X.', ',;\t']
CSV_SEPS = [',', ';', '\t', ' ']
CSV_POOL_ALL = ['a', ' b', '', ',', ';', '\t', ' ', 'c ', 'x,y', 'X;']
MULTI_SEPS = ['::', ' | ', '\t\t', '<=>', 'ab']
WORDS = [('True', 'False'), ('1', '0'), ('X', ''), ('yes', 'no'), ('', '.')]
RCHARS = 'abXY .,;\t-_é"\\/∅'
PTYPES = ['IntervalPS', 'SetPS', 'AttributePS', 'IntervalNumpyPS']
FMT_BACKENDS = BACKENDS


# ------------------------------------------------------------------------------------------------
# generators
# ------------------------------------------------------------------------------------------------
def csv_pool(sep):
    return [x for x in CSV_POOL_ALL if sep not in x]


def _names(pool, k):
    return [list(p) for p in itertools.permutations(pool, k)]


def _ctx_cases(stream, rows, objs, attrs, fmts, rng=None, csv_kw=None, descr=None, backends=None):
    for be in (backends or FMT_BACKENDS):
        for fmt in fmts:
            c = dict(stream=stream, fmt=fmt, be=be, rows=rows, objs=objs, attrs=attrs)
            if fmt == 'csv':
                c.update(csv_kw or dict(sep=',', wt='True', wf='False'))
            if fmt == 'json':
                c['descr'] = descr
            yield c


def rand_name(rng, forbid=''):
    while True:
        s = ''.join(rng.choice(RCHARS) for _ in range(rng.randint(1, 4)))
        if not any(ch in s for ch in forbid):
            return s


def rand_names(rng, k, forbid='', allow_empty=False):
    out = []
    while len(out) < k:
        s = '' if allow_empty and rng.random() < 0.05 else rand_name(rng, forbid)
        if s not in out:
            out.append(s)
    return out


def mv_value(rng, ptype, kind):
    if ptype in ('IntervalPS', 'IntervalNumpyPS'):
        grid = [0, 1, 2, 3, -1, 2.5, -1.5, 0.125, 100, 1e-3, 7.75]
        if rng.random() < 0.5:
            return rng.choice(grid)
        a, b = sorted([rng.choice(grid), rng.choice(grid)])
        return [a, b]
    if ptype == 'SetPS':
        base = [1, 2, 3, 10, -4] if kind == 'int' else ['a', 'b', 'B', ' c', 'é', '']
        return {'set': sorted(rng.sample(base, rng.randint(0, 3)))}
    return rng.random() < 0.5


def mv_case(rng, stream, n, types, permute=False):
    m = len(types)
    attrs = rand_names(rng, m)
    objs = rand_names(rng, n)
    kinds = [rng.choice(['int', 'str']) for _ in types]
    data = [[mv_value(rng, t, k) for t, k in zip(types, kinds)] for _ in range(n)]
    order = list(range(m))
    if permute:
        order = order[::-1] if m == 2 else rng.sample(order, m)
        if order == list(range(m)):
            order = order[1:] + order[:1]
    return dict(stream=stream, fmt='mv', objs=objs, attrs=attrs, types=types, data=data, order=order,
                descr=rng.choice([None, 'mv', 'a "quoted"\nline']), permuted=bool(permute))


MINERS_F = ['close_by_one', 'close_by_one_objectwise', 'close_by_one_objectwise_fbarray', 'sofia', 'lindig', 'from_objects']
MINERS_MV = ['close_by_one', 'close_by_one_objectwise', 'from_objects']


def _sweep_stale_tempfiles(max_age_s=600):
    """a run that is cut short (pool.terminate after many failures) can leave a csv temp file behind"""
    import glob
    import time
    for p in glob.glob('/tmp/c07_*.csv'):
        try:
            if time.time() - os.path.getmtime(p) > max_age_s:
                os.unlink(p)
        except OSError:
            pass


def gen(tier, seed, boost=False):
    rng = random.Random(seed * 1000003 + 707)
    _sweep_stale_tempfiles()
    # corpus
    cdir = os.path.join(os.path.dirname(os.path.dirname(os.path.dirname(os.path.abspath(__file__)))), 'corpus', 'C07')
    if os.path.isdir(cdir):
        for f in sorted(os.listdir(cdir)):
            if f.endswith('.json'):
                c = json.load(open(os.path.join(cdir, f)))
                c['stream'] = 'corpus'
                yield c
    thorough = tier == 'thorough' or boost
    # ---- exhaustive: text/tree formats of formal contexts -----------------------------------------
    for n in (1, 2):
        for m in (1, 2):
            for rows in G.all_tables(n, m):
                for objs in _names(POOL, n):
                    for attrs in _names(POOL, m):
                        yield from _ctx_cases('exhaustive', rows, objs, attrs, ('cxt', 'json'),
                                              descr=None if (len(objs[0]) % 2) else 'd ' + attrs[0])
                        # the frame converters never look at the backend beyond data.to_list(): 2x2 on one backend
                        yield from _ctx_cases('exhaustive', rows, objs, attrs, ('pandas',),
                                              backends=('BinTableNumpy',) if n * m == 4 else None)
                for sep in CSV_SEPS:
                    pool = csv_pool(sep)[:5]
                    for objs in _names(pool, n):
                        for attrs in _names(pool, m):
                            yield from _ctx_cases('exhaustive', rows, objs, attrs, ('csv',),
                                                  csv_kw=dict(sep=sep, wt='True', wf='False'))
    if thorough:
        pool4 = POOL[:4]
        for rows in G.tables_upto(3, 3):
            n, m = len(rows), len(rows[0])
            if n <= 2 and m <= 2:
                continue
            for objs in _names(pool4, n)[::3]:
                for attrs in _names(pool4, m)[::3]:
                    yield from _ctx_cases('exhaustive-3x3', rows, objs, attrs, ('cxt', 'json', 'pandas', 'csv'))
    # ---- exhaustive: concepts of every miner and lattices of all small tables ----------------------
    lat_tables = list(G.tables_upto(3, 3))
    if thorough:
        lat_tables += [t for t in G.tables_upto(4, 4, cells=12) if len(t) > 3 or len(t[0]) > 3]
    for rows in lat_tables:
        n, m = len(rows), len(rows[0])
        objs, attrs = [f'g{i}' for i in range(n)], [' m%d' % j for j in range(m)]
        for be in FMT_BACKENDS:
            yield dict(stream='exhaustive-lattice', fmt='lat', be=be, rows=rows, objs=objs, attrs=attrs, mono=False)
            if n <= 2 or m <= 2 or thorough:
                yield dict(stream='exhaustive-lattice', fmt='lat', be=be, rows=rows, objs=objs, attrs=attrs, mono=True)
            if be == 'BinTableBitarray' or (n <= 2 and m <= 2):
                for miner in MINERS_F:
                    yield dict(stream='exhaustive-concepts', fmt='fc', be=be, rows=rows, objs=objs, attrs=attrs, miner=miner)
    # ---- many-valued: all class pairs over small grids -------------------------------------------------
    for m in (1, 2):
        for types in itertools.product(PTYPES, repeat=m):
            for n in (1, 2):
                for _ in range(3 if tier == 'quick' else 12):
                    yield mv_case(rng, 'mv-grid', n, list(types))
    # ---- seeded random larger cases ---------------------------------------------------------------------
    nrand = 150 if tier == 'quick' else 2500
    if boost:
        nrand *= 3
    for i in range(nrand):
        rows = G.random_table(rng, 6, 6)
        n, m = len(rows), len(rows[0])
        objs, attrs = rand_names(rng, n, '\n'), rand_names(rng, m, '\n')
        descr = rng.choice([None, '', 'some "text"\nwith\ttabs é'])
        yield from _ctx_cases('random', rows, objs, attrs, ('cxt', 'json', 'pandas'), descr=descr)
        sep = rng.choice(CSV_SEPS)
        wt, wf = rng.choice(WORDS)
        if sep in wt or sep in wf:
            wt, wf = 'True', 'False'
        yield from _ctx_cases('random', rows, rand_names(rng, n, sep + '\n\r', True), rand_names(rng, m, sep + '\n\r', True),
                              ('csv',), csv_kw=dict(sep=sep, wt=wt, wf=wf))
        # a multi-character separator: names and words share no character with it
        msep = rng.choice(MULTI_SEPS)
        mw = [w for w in WORDS if not any(ch in w[0] + w[1] for ch in msep)] or [('1', '0')]
        mwt, mwf = rng.choice(mw)
        forbid = msep + '\n\r'
        yield from _ctx_cases('random-multisep', rows, rand_names(rng, n, forbid, True), rand_names(rng, m, forbid, True),
                              ('csv',), csv_kw=dict(sep=msep, wt=mwt, wf=mwf), backends=(rng.choice(FMT_BACKENDS),))
        if i % 3 == 0:
            be = rng.choice(FMT_BACKENDS)
            o2, a2 = rand_names(rng, n, '\n'), rand_names(rng, m, '\n')
            yield dict(stream='random-lattice', fmt='lat', be=be, rows=rows, objs=o2, attrs=a2, mono=rng.random() < 0.3)
            yield dict(stream='random-concepts', fmt='fc', be=be, rows=rows, objs=o2, attrs=a2, miner=rng.choice(MINERS_F))
        if i % 2 == 0:
            types = [rng.choice(PTYPES) for _ in range(rng.randint(1, 4))]
            c = mv_case(rng, 'random-mv', rng.randint(1, 5), types, permute=len(types) > 1 and rng.random() < 0.4)
            yield c
            c2 = dict(c, fmt='mvlat', stream='random-mv-lattice')
            yield c2
            yield dict(c, fmt='pc', stream='random-mv-concepts', miner=rng.choice(MINERS_MV))
    # ---- pattern_types listed in another order than attribute_names (was finding F-C07-1, repaired) ---
    for _ in range(8 if tier == 'quick' else 24):
        types = [rng.choice(PTYPES) for _ in range(rng.randint(2, 3))]
        if len(set(types)) == 1:
            types[0] = 'SetPS' if types[0] != 'SetPS' else 'AttributePS'
        yield mv_case(rng, 'mv-permuted', rng.randint(1, 3), types, permute=True)
    # ---- malformed stream: the excluded points, on the real code ----------------------------------------
    nmal = 40 if tier == 'quick' else 300
    for _ in range(nmal):
        rows = G.random_table(rng, 3, 3)
        n, m = len(rows), len(rows[0])
        for fmt in ('cxt', 'csv'):
            sep = rng.choice(CSV_SEPS)
            forbid = '\n' + (sep + '\r' if fmt == 'csv' else '')
            objs, attrs = rand_names(rng, n, forbid), rand_names(rng, m, forbid)
            bad = rng.choice(['', 'a\nb', '\n', 'a\n', '\nb', 'a\n\nb'] + ([sep, 'a' + sep, sep + 'b', 'a\rb', '\r'] if fmt == 'csv' else []))
            if fmt == 'csv' and bad == '':
                bad = 'q' + sep          # the empty name is admissible for csv
            (objs if rng.random() < 0.5 else attrs)[0] = bad
            if rng.random() < 0.5 and len(objs) > 1:
                objs[0], objs[-1] = objs[-1], objs[0]
            if len(set(objs)) < len(objs) or len(set(attrs)) < len(attrs):
                continue
            c = dict(stream='malformed', fmt=fmt, be=rng.choice(FMT_BACKENDS), rows=rows, objs=objs, attrs=attrs)
            if fmt == 'csv':
                c.update(sep=sep, wt='True', wf='False')
            yield c
        # a multi-character separator that does not occur in a name but overlaps with it ('a' + 'aa')
        yield dict(stream='malformed', fmt='csv', be='BinTableBitarray', rows=rows, objs=['a'] + ['g%d' % i for i in range(1, n)],
                   attrs=['x%d' % j for j in range(m)], sep='aa', wt='True', wf='False')
        # csv words that contain the separator / coincide
        sep = rng.choice(CSV_SEPS)
        yield dict(stream='malformed', fmt='csv', be='BinTableBitarray', rows=rows, objs=rand_names(rng, n, sep + '\n\r'),
                   attrs=rand_names(rng, m, sep + '\n\r'), sep=sep, **rng.choice([dict(wt='T' + sep, wf='F'), dict(wt='T', wf='T'),
                                                                                dict(wt='T\n', wf='F')]))


# ------------------------------------------------------------------------------------------------
# implementation side
# ------------------------------------------------------------------------------------------------
def ctx_fields(K):
    return dict(objs=[x for x in K.object_names], attrs=[x for x in K.attribute_names],
                rows=[[int(bool(v)) for v in r] for r in K.data.to_list()], descr=K.description)


def lib_eq(a, b):
    try:
        r = a == b
        return bool(r)
    except Exception as e:
        return {'err': exc_name(e)}


def make_ctx(c):
    from fcapy.context import FormalContext
    return FormalContext(data=[[bool(v) for v in r] for r in c['rows']], object_names=list(c['objs']),
                         attribute_names=list(c['attrs']), description=c.get('descr'), backend=c['be'])


def _flt(x):
    return repr(float(x))


def pval(ptype_name, v):
    if ptype_name in ('IntervalPS', 'IntervalNumpyPS'):
        if v is None:
            return None
        return {'i': [_flt(v[0]), _flt(v[1])]}
    if ptype_name == 'SetPS':
        return {'s': sorted([x if isinstance(x, str) else int(x) for x in v])}
    return {'a': bool(v)}


def mv_fields(K):
    return dict(objs=list(K.object_names), attrs=list(K.attribute_names), descr=K.description,
                cols=[dict(name=ps.name, ptype=type(ps).__name__, data=[pval(type(ps).__name__, x) for x in ps.data])
                      for ps in K.pattern_structures])


def make_mv(c):
    from fcapy.mvcontext import MVContext, PS
    data = [[set(v['set']) if isinstance(v, dict) else (tuple(v) if isinstance(v, list) else v) for v in row] for row in c['data']]
    ptypes = {c['attrs'][j]: getattr(PS, c['types'][j]) for j in c['order']}
    return MVContext(data, pattern_types=ptypes, object_names=list(c['objs']), attribute_names=list(c['attrs']),
                     description=c.get('descr'))


def fc_fields(x):
    return dict(extent_i=[int(i) for i in x.extent_i], extent=list(x.extent), intent_i=[int(i) for i in x.intent_i],
                intent=list(x.intent), measures=json.dumps(x.measures), hash=x.context_hash, mono=bool(x.is_monotone))


def pc_fields(x):
    an = list(x._attribute_names)
    pt = {k: v.__name__ for k, v in x.pattern_types.items()}
    return dict(extent_i=[int(i) for i in x.extent_i], extent=list(x.extent),
                intent_i=[[int(k), pval(pt[an[k]], v)] for k, v in x.intent_i.items()],
                intent=[[k, pval(pt[k], v)] for k, v in x.intent.items()],
                ptypes=[[k, v] for k, v in pt.items()], attr_names=an, measures=json.dumps(x.measures), hash=x.context_hash)


def mine(K, miner, rng_seed=0):
    from fcapy.algorithms import concept_construction as cca
    from fcapy.lattice.formal_concept import FormalConcept
    from fcapy.lattice.pattern_concept import PatternConcept
    from fcapy.mvcontext import MVContext
    if miner == 'lindig':
        return list(cca.lindig_algorithm(K))
    if miner == 'from_objects':
        cls = PatternConcept if isinstance(K, MVContext) else FormalConcept
        n = K.n_objects
        subs = [[], [0], list(range(n)), list(range(n))[::-1][: max(1, n - 1)]]
        return [cls.from_objects(s, K) for s in subs]
    return list(getattr(cca, miner)(K))


def lat_fields(L, fields):
    cd = L.children_dict
    return dict(concepts=[fields(x) for x in L], children=[[int(d) for d in cd[i]] for i in range(len(L))],
                top=int(L.top), bottom=int(L.bottom))


def impl(c):
    fmt = c['fmt']
    try:
        if fmt in ('cxt', 'csv', 'json', 'pandas'):
            return impl_ctx(c)
        if fmt == 'mv':
            return impl_mv(c)
        if fmt in ('fc', 'pc'):
            return impl_concepts(c)
        if fmt in ('lat', 'mvlat'):
            return impl_lat(c)
    except Exception as e:
        if c['stream'] == 'malformed':
            return {'setup_err': exc_name(e)}
        raise
    raise ValueError(fmt)


def impl_ctx(c):
    from fcapy.context import FormalContext
    K = make_ctx(c)
    fmt = c['fmt']
    out = {}
    try:
        if fmt == 'cxt':
            out['text'] = K.write_cxt()
            K2 = FormalContext.read_cxt(data=out['text'])
        elif fmt == 'json':
            out['text'] = K.write_json()
            K2 = FormalContext.read_json(data=out['text'])
        elif fmt == 'pandas':
            df = K.to_pandas()
            out['frame'] = dict(values=[[int(bool(v)) for v in r] for r in df.values.tolist()],
                                index=df.index.tolist(), columns=df.columns.tolist())
            K2 = FormalContext.from_pandas(df)
        else:
            kw = dict(sep=c['sep'], word_true=c['wt'], word_false=c['wf'])
            fd, path = tempfile.mkstemp(prefix='c07_', suffix='.csv', dir='/tmp')
            os.close(fd)
            os.unlink(path)          # (re-writing an existing file is ~50x slower than creating it on this filesystem)
            try:
                K.write_csv(path, **kw)
                with open(path, 'r', newline='') as f:
                    out['text'] = f.read()
                out['text_ret'] = K.write_csv(**kw)
                K2 = FormalContext.read_csv(path, **kw)
            finally:
                if os.path.exists(path):
                    os.unlink(path)
    except Exception as e:
        out['read'] = {'err': exc_name(e)}
        return out
    out['read'] = ctx_fields(K2)
    out['eq'] = lib_eq(K2, K)
    out['eq_rev'] = lib_eq(K, K2)
    return out


def impl_mv(c):
    from fcapy.mvcontext import MVContext
    K = make_mv(c)
    out = {'orig': mv_fields(K)}
    try:
        out['text'] = K.write_json()
        K2 = MVContext.read_json(json_data=out['text'])
    except Exception as e:
        out['read'] = {'err': exc_name(e)}
        return out
    out['read'] = mv_fields(K2)
    out['eq'] = lib_eq(K2, K)
    return out


def impl_concepts(c):
    from fcapy.lattice.formal_concept import FormalConcept
    from fcapy.lattice.pattern_concept import PatternConcept
    is_f = c['fmt'] == 'fc'
    K = make_ctx(c) if is_f else make_mv(c)
    try:
        cs = mine(K, c['miner'])
    except Exception as e:      # no concepts to serialise: outside C07 (miners are C02/C14/C15)
        return {'skip': 'miner raised ' + exc_name(e)}
    res = []
    for x in cs:
        r = {'orig': (fc_fields if is_f else pc_fields)(x)}
        try:
            if is_f:
                r['text'] = x.write_json(list(K.object_names), list(K.attribute_names))
                d = x.to_dict(list(K.object_names), list(K.attribute_names))
                y0 = FormalConcept.from_dict(d)
                y = FormalConcept.read_json(json_data=r['text'])
                r['read_dict'] = fc_fields(y0)
            else:
                r['text'] = x.write_json()
                y0 = PatternConcept.from_dict(x.to_dict(json_ready=False), json_ready=False)
                r['read_dict'] = pc_fields(y0)
                y = PatternConcept.read_json(json_data=r['text'])
            r['read'] = (fc_fields if is_f else pc_fields)(y)
            r['eq'] = lib_eq(y, x)
            r['hash_eq'] = hash(y) == hash(x)
        except Exception as e:
            r['read'] = {'err': exc_name(e)}
        res.append(r)
    return {'concepts': res, 'objs_order': list(K.object_names), 'attrs_order': list(K.attribute_names)}


def impl_lat(c):
    from fcapy.lattice import ConceptLattice
    is_f = c['fmt'] == 'lat'
    K = make_ctx(c) if is_f else make_mv(c)
    fields = fc_fields if is_f else pc_fields
    try:
        L = ConceptLattice.from_context(K, is_monotone=True) if c.get('mono') else ConceptLattice.from_context(K)
    except Exception as e:      # no lattice to serialise: outside C07 (lattice construction is C02/C12/C14)
        return {'skip': 'from_context raised ' + exc_name(e)}
    out = {'orig': lat_fields(L, fields), 'n': len(L), 'objs_order': list(K.object_names),
           'attrs_order': list(K.attribute_names), 'lat_mono': bool(L.is_monotone)}
    try:
        out['text'] = L.write_json(list(K.object_names), list(K.attribute_names))
        L2 = ConceptLattice.read_json(json_data=out['text'])
    except Exception as e:
        out['read'] = {'err': exc_name(e)}
        return out
    out['read'] = lat_fields(L2, fields)
    out['eq'] = lib_eq(L2, L)
    out['concepts_eq'] = [lib_eq(a, b) for a, b in zip(L2, L)]
    out['read_lat_mono'] = bool(L2.is_monotone)
    return out


# ------------------------------------------------------------------------------------------------
# driver requests
# ------------------------------------------------------------------------------------------------
def requests(c, io):
    fmt = c['fmt']
    if 'setup_err' in io or 'harness_exc' in io or 'skip' in io:
        return []
    if fmt in ('cxt', 'csv', 'json', 'pandas'):
        r = dict(op='C07.' + fmt, objs=c['objs'], attrs=c['attrs'], rows=c['rows'], descr=c.get('descr'),
                 impl_text=io.get('text'))
        if fmt == 'csv':
            r.update(sep=c['sep'], wt=c['wt'], wf=c['wf'])
        return [r]
    if fmt == 'mv':
        return [dict(op='C07.mv', impl_text=io.get('text'), **io['orig'])]
    if fmt == 'fc':
        return [dict(op='C07.fc', c=x['orig'], objs_order=io['objs_order'], attrs_order=io['attrs_order'],
                     impl_text=x.get('text')) for x in io['concepts']]
    if fmt == 'pc':
        return [dict(op='C07.pc', c=x['orig'], impl_text=x.get('text')) for x in io['concepts']]
    if fmt in ('lat', 'mvlat'):
        return [dict(op='C07.lat', kind='f' if fmt == 'lat' else 'p', objs_order=io['objs_order'],
                     attrs_order=io['attrs_order'], impl_text=io.get('text'), **io['orig'])]
    raise ValueError(fmt)


# ------------------------------------------------------------------------------------------------
# judging
# ------------------------------------------------------------------------------------------------
def bad(kind, detail):
    return dict(ok=False, kind=kind, detail=detail[:600])


def strip_measures(x):
    return {k: v for k, v in x.items() if k != 'measures'}


def measures_kept(orig, back):
    a, b = json.loads(orig['measures']), json.loads(back['measures'])
    return all(k in b and b[k] == v for k, v in a.items())


def canon_concept(x, objs_order=None, attrs_order=None):
    """extent/intent are sets: a formal concept is compared with its index lists ascending and its names in
    context order (FormalConcept.to_dict sorts them; `==` and `hash` are by extent set)."""
    if 'mono' not in x or objs_order is None:
        return x
    y = dict(x)
    y['extent_i'], y['intent_i'] = sorted(x['extent_i']), sorted(x['intent_i'])
    y['extent'] = sorted(x['extent'], key=objs_order.index)
    y['intent'] = sorted(x['intent'], key=attrs_order.index)
    return y


def concept_same(orig, back, oo=None, ao=None):
    return ('err' not in back and strip_measures(canon_concept(orig, oo, ao)) == strip_measures(back)
            and measures_kept(orig, back))


def lat_norm(x):
    if 'err' in x:
        return x
    return dict(x, children=[sorted(ch) for ch in x['children']])


def judge(c, io, rep):
    fmt = c['fmt']
    if c['stream'] == 'malformed' or 'skip' in io:
        return dict(ok=True)
    if fmt in ('cxt', 'csv', 'json', 'pandas'):
        return judge_ctx(c, io, rep[0])
    if fmt == 'mv':
        return judge_mv(c, io, rep[0])
    if fmt in ('fc', 'pc'):
        for x, r in zip(io['concepts'], rep):
            v = judge_concept(c, x, r, io)
            if not v['ok']:
                return v
        return dict(ok=True)
    return judge_lat(c, io, rep[0])


def judge_ctx(c, io, r):
    fmt = c['fmt']
    orig = dict(objs=c['objs'], attrs=c['attrs'], rows=c['rows'], descr=c.get('descr') if fmt == 'json' else None)
    # (a) the theorem's statement on the model (self-consistency of the driver)
    if r['read'] != orig:
        return bad('harness', f'model read(write K) = {r["read"]} != K = {orig} (contradicts the theorem: input out of scope?)')
    if fmt == 'json' and r['read_text'] != orig:
        return bad('harness', f'model loads(dumps tree) read-back {r["read_text"]} != K')
    # (b) the property on the implementation
    back = io.get('read')
    if back != orig or io.get('eq') is not True or io.get('eq_rev') is not True:
        return bad('property', f'{fmt} round trip on backend {c["be"]}: read-back {back} (==: {io.get("eq")}, reversed ==: '
                               f'{io.get("eq_rev")}) for original {orig}')
    # (c) correspondence: writer text, reader on the implementation's text
    if fmt == 'pandas':
        if io['frame'] != r['frame']:
            return bad('correspondence', f'to_pandas frame {io["frame"]} != model {r["frame"]}')
        return dict(ok=True)
    if io['text'] != r['text']:
        return bad('correspondence', f'writer text {io["text"]!r} != model {r["text"]!r}')
    if fmt == 'csv' and io.get('text_ret') != r['text']:
        return bad('correspondence', f'returned csv text {io.get("text_ret")!r} != file content {r["text"]!r}')
    if r['read_impl'] != back:
        return bad('correspondence', f'model reader on the implementation text gives {r["read_impl"]}, implementation {back}')
    return dict(ok=True)


def judge_mv(c, io, r):
    orig = io['orig']
    back = io.get('read')
    if isinstance(r.get('text'), dict):
        return bad('correspondence', f'model writer raised {r["text"]} on {orig}')
    if r['read'] != orig or r.get('read_text') != orig or r.get('eq') is not True:
        return bad('harness', f'model read(write K) = {r["read"]} / {r.get("read_text")} != K = {orig}')
    if back != orig or io.get('eq') is not True:
        return bad('property', f'MVContext json round trip: read-back {back} (==: {io.get("eq")}) for original {orig}')
    if io['text'] != r['text']:
        return bad('correspondence', f'writer text {io["text"]!r} != model {r["text"]!r}')
    if r['read_impl'] != back:
        return bad('correspondence', f'model reader on the implementation text gives {r["read_impl"]}, implementation {back}')
    return dict(ok=True)


def judge_concept(c, x, r, io):
    orig, back = canon_concept(x['orig'], io['objs_order'], io['attrs_order']), x.get('read')
    if isinstance(r.get('text'), dict):
        return bad('correspondence', f'model to_dict raised {r["text"]} on {orig}')
    if not concept_same(orig, r['read']) or r['read'] != r.get('read_text'):
        return bad('harness', f'model from_dict(to_dict c) = {r["read"]} / {r.get("read_text")} differs from c = {orig}')
    if not concept_same(orig, back) or x.get('eq') is not True or x.get('hash_eq') is not True:
        return bad('property', f'concept round trip ({c.get("miner")}): read-back {back} (==: {x.get("eq")}, hash equal: '
                               f'{x.get("hash_eq")}) for original {orig}')
    if 'read_dict' in x and not concept_same(orig, x['read_dict']):
        return bad('property', f'concept dict round trip ({c.get("miner")}): {x["read_dict"]} for original {orig}')
    if x['text'] != r['text']:
        return bad('correspondence', f'concept json text {x["text"]!r} != model {r["text"]!r}')
    if r['read_impl'] != back:
        return bad('correspondence', f'model from_dict on the implementation text gives {r["read_impl"]}, implementation {back}')
    return dict(ok=True)


def judge_lat(c, io, r):
    orig = lat_norm(io['orig'])
    orig = dict(orig, concepts=[canon_concept(x, io['objs_order'], io['attrs_order']) for x in orig['concepts']])
    if io['n'] < 3:
        # the documented precondition of the writer: both sides must refuse
        if io.get('read') == {'err': 'AssertionError'} and r.get('text') == {'err': 'AssertionError'}:
            return dict(ok=True)
        return bad('correspondence', f'lattice with {io["n"]} concepts: implementation {io.get("read")}, model {r.get("text")}')
    back = io.get('read')
    if isinstance(r.get('text'), dict):
        return bad('correspondence', f'model lattice writer raised {r["text"]}')

    def same(a, b):
        return ('err' not in b and len(a['concepts']) == len(b['concepts'])
                and all(concept_same(x, y) for x, y in zip(a['concepts'], b['concepts']))
                and a['children'] == b['children'] and a['top'] == b['top'] and a['bottom'] == b['bottom'])
    if not same(orig, lat_norm(r['read'])) or r['read'] != r.get('read_text'):
        return bad('harness', f'model read(write L) differs from L: {r["read"]} vs {orig}')
    if back is None or not same(orig, lat_norm(back)) or io.get('eq') is not True or not all(e is True for e in io.get('concepts_eq', [False])):
        return bad('property', f'lattice round trip: read-back {back} (==: {io.get("eq")}, concept ==: {io.get("concepts_eq")}) '
                               f'for original {orig}')
    if io['text'] != r['text']:
        return bad('correspondence', f'lattice json text {io["text"]!r} != model {r["text"]!r}')
    if lat_norm(r['read_impl']) != lat_norm(back):
        return bad('correspondence', f'model reader on the implementation text gives {r["read_impl"]}, implementation {back}')
    return dict(ok=True)


# ------------------------------------------------------------------------------------------------
# bookkeeping
# ------------------------------------------------------------------------------------------------
def nontrivial(c):
    if c['stream'] == 'malformed':
        return False
    if 'rows' in c:
        return G.is_mixed(c['rows'])
    return True


def key(c):
    return {k: v for k, v in c.items() if k != 'stream'}


def branch(c, io, rep):
    out = [c['stream'], 'fmt:' + c['fmt'] + (':' + c['be'] if 'be' in c else '')]
    if c['fmt'] == 'csv':
        out.append('csv-sep:' + repr(c['sep']))
    if c['stream'] == 'malformed':
        if 'setup_err' in io:
            out.append('malformed:constructor-refused:' + io['setup_err'])
            return out
        orig = dict(objs=c['objs'], attrs=c['attrs'], rows=c['rows'], descr=None)
        back = io.get('read')
        outside = back != orig or io.get('eq') is not True
        out.append('malformed:%s:%s' % (c['fmt'], 'outside(' + (back.get('err', 'different') if isinstance(back, dict) else '?') + ')'
                                        if outside else 'still-round-trips'))
        if rep:
            out.append('malformed:model-' + ('agrees' if rep[0].get('read_impl') == back and rep[0].get('text') == io.get('text')
                                             else 'differs'))
        return out
    if 'skip' in io:
        out.append('skipped:' + io['skip'])
        return out
    if c['fmt'] in ('lat', 'mvlat'):
        out.append('lattice:' + ('<3 concepts' if io.get('n', 0) < 3 else '>=3 concepts'))
        if io.get('lat_mono') != io.get('read_lat_mono') and 'read_lat_mono' in io:
            out.append('note:lattice.is_monotone flag not restored')
    if c['fmt'] in ('fc', 'pc'):
        out.append('miner:' + c['miner'])
        extra = set()
        for x in io.get('concepts', []):
            if isinstance(x.get('read'), dict) and 'measures' in x['read']:
                extra |= set(json.loads(x['read']['measures'])) - set(json.loads(x['orig']['measures']))
        if extra:
            out.append('note:read-back measures gain keys ' + ','.join(sorted(extra)))
    return out


def signature(c, io, rep, v):
    cls = 'err' if isinstance(io.get('read'), dict) and 'err' in io.get('read', {}) else 'wrong'
    return f"C07:{c['fmt']}:{c.get('be', '-')}:{v.get('kind')}:{cls}"


def shrink(c):
    if 'rows' in c and c['fmt'] in ('cxt', 'csv', 'json', 'pandas', 'lat', 'fc'):
        rows = c['rows']
        n, m = len(rows), len(rows[0])
        if n > 1:
            for i in range(n):
                yield dict(c, rows=rows[:i] + rows[i + 1:], objs=c['objs'][:i] + c['objs'][i + 1:])
        if m > 1:
            for j in range(m):
                yield dict(c, rows=[r[:j] + r[j + 1:] for r in rows], attrs=c['attrs'][:j] + c['attrs'][j + 1:])
        for i in range(n):
            for j in range(m):
                if rows[i][j]:
                    r2 = [list(r) for r in rows]
                    r2[i][j] = 0
                    yield dict(c, rows=r2)
        for k in ('objs', 'attrs'):
            for i, nm in enumerate(c[k]):
                if len(nm) > 1:
                    for cut in (nm[1:], nm[:-1]):
                        if cut not in c[k]:
                            yield dict(c, **{k: c[k][:i] + [cut] + c[k][i + 1:]})
    elif c['fmt'] in ('mv', 'mvlat', 'pc'):
        n = len(c['data'])
        if n > 1:
            for i in range(n):
                yield dict(c, data=c['data'][:i] + c['data'][i + 1:], objs=c['objs'][:i] + c['objs'][i + 1:])
